(* Entry points evaluated by the generated cases files: C10 specification side.
   Imports nothing that is translated from clock.py / machine.py. *)
From Coq Require Import QArith ZArith String Ascii List Bool.
From Bardolph Require Import Base.PyStr Run.Show Time.TimeSpec Time.ClockSpec.
Open Scope string_scope.
Open Scope list_scope.
Import ListNotations.
Open Scope Z_scope.

Definition show_Q (q : Q) : string :=
  let r := Qred q in show_Z (Qnum r) +++ "/" +++ show_Z (Zpos (Qden r)).

(* one item of a case, as the harness writes it:
   CD raw t            WAIT with the time register holding the number t in raw / logical units
   CT texts            WAIT with the time register holding `time at t1 or t2 ...` *)
Inductive citem :=
  | CD (raw : bool) (t : Q)
  | CT (texts : list string).

Definition spec_item (i : citem) : sitem :=
  match i with
  | CD raw t => SDelay (seconds_of raw t)
  | CT _ => STimeAt
  end.

Definition awaited (texts : list string) (h m : Z) : bool :=
  existsb (fun s => spec_match s h m) texts.

(* observed for the item: readings (time.time()) and looks at the time of day (hour, minute) *)
Definition spec_obs (i : citem) (rs : list Q) (looks : list (Z * Z)) : sobs :=
  match i with
  | CD _ _ => mkSobs rs []
  | CT texts => mkSobs rs (map (fun hm => awaited texts (fst hm) (snd hm)) looks)
  end.

Definition show_verdict (v : verdict) : string :=
  match v with
  | VOk => "ok"
  | VEarly => "early"
  | VOverslept => "overslept"
  | VLateAdded => "late-added"
  | VZeroBlocked => "zero-blocked"
  | VNoReading => "no-reading"
  | VTimeAtWrong => "time-at-wrong"
  end.

(* verdict and deadline per item: "ok@n/d;..." *)
Definition spec_case (S : Q) (l : list (citem * list Q * list (Z * Z))) : string :=
  let obs := map (fun x => match x with (i, rs, looks) => (spec_item i, spec_obs i rs looks) end) l in
  let vs := judge S 0 obs in
  let ds := deadlines S 0 obs in
  sconcat (map (fun vd => show_verdict (fst vd) +++ "@" +++ show_Q (snd vd) +++ ";") (combine vs ds)).

(* "within one tick" for a delay item with tick length L: "T"/"F" per item *)
Definition spec_tick_case (S L : Q) (l : list (citem * list Q * list (Z * Z))) : string :=
  let obs := map (fun x => match x with (i, rs, looks) => (spec_item i, spec_obs i rs looks) end) l in
  let ds := deadlines S 0 obs in
  sconcat (map (fun od => match od with
                          | ((SDelay _, o), d) => show_bool (within_tick d L (so_readings o))
                          | _ => "T"
                          end) (combine obs ds)).
