(* Entry point: text -> tokens -> abstract syntax -> instructions, or the first error line. *)
From Coq Require Import ZArith String List Bool.
From Bardolph Require Import Run.Show Run.VmShow Lang.Syntax Lang.Instr Lang.CodeGen Front.Lexer Front.Parser.
Open Scope string_scope.
Definition parse_case (text : string) : string :=
  match parse_text text with
  | Accepted p => "A#" +++ show_program (compile p)
  | Rejected l => "R#" +++ show_Z l
  | Unmodelled w => "U#" +++ w
  | OutOfFuel => "F#"
  end.
