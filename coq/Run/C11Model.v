(* Entry points evaluated by the generated cases files: C11 model side. *)
From Coq Require Import ZArith String List Bool.
From Bardolph Require Import Base.PyStr Run.Show Gen.TimePatternGen Time.TimeSpec Time.TimePattern Run.C11Spec.
Open Scope string_scope.
Open Scope list_scope.
Import ListNotations.
Open Scope Z_scope.

Definition model_case (s : string) : string :=
  match from_string s with
  | None => "N"
  | Some p => "A" +++ digest (tp_match p)
  end.
Definition model_cases (l : list string) : string := sconcat (map (fun s => model_case s +++ ";") l).

Definition model_or_case (ss : list string) : string :=
  match map from_string ss with
  | Some p :: rest =>
      if forallb (fun o => match o with Some _ => true | None => false end) rest
      then digest (tp_match (tp_union_all p (flat_map (fun o => match o with Some q => [q] | None => [] end) rest)))
      else "N"
  | _ => "N"
  end.
Definition model_or_cases (l : list (list string)) : string := sconcat (map (fun s => model_or_case s +++ ";") l).

(* translated functions, for the translator validation sweep *)
Definition show_zs (l : list Z) : string := sconcat (map (fun z => show_Z z +++ ",") l).
Definition gen_case (s : string) : string :=
  show_bool (hours_valid s) +++ show_bool (minutes_valid s).
Definition gen_cases (l : list string) : string := sconcat (map gen_case l).
Definition gen_set_case (s : string) : string :=
  show_zs (init_hour_set s) +++ "/" +++ show_zs (init_minute_set s) +++ ";".
Definition gen_set_cases (l : list string) : string := sconcat (map gen_set_case l).
