(* Entry points evaluated by the generated cases files: C07 / C14 specification side
   (imports nothing generated from the code under test). *)
From Coq Require Import ZArith QArith String Ascii List Bool PrimFloat.
From Bardolph Require Import Base.PyNum Run.Show Num.UnitsQ.
Open Scope string_scope.
Open Scope list_scope.
Import ListNotations.
Close Scope Q_scope.
Open Scope Z_scope.

Definition smode_of (z : Z) : smode :=
  match z with 0 => SLogical | 1 => SRaw | _ => SRgb end.

Definition tol9 : Q := Qmake 1 1000000000.

Definition vchar (v : verdict) : string :=
  match v with V_ok => "=" | V_tol => "~" | V_bad => "!" end.

Definition color_of_list {A} (d : A) (l : list A) : color4 A :=
  mkcolor (nth 0 l d) (nth 1 l d) (nth 2 l d) (nth 3 l d).

(* a colour command: unit mode, register colour, duration register, and what arrived at the
   device (four colour integers and the duration).  One character per transmitted integer. *)
Definition spec_color_case (c : Z * list float * float * list Z) : string :=
  let '(m, regs, d, obs) := c in
  let w := spec_color (smode_of m) (cmap f2q (color_of_list PrimFloat.zero regs)) in
  vchar (judge tol9 (c0 w) (nth 0 obs (-1))) +++ vchar (judge tol9 (c1 w) (nth 1 obs (-1))) +++
  vchar (judge tol9 (c2 w) (nth 2 obs (-1))) +++ vchar (judge tol9 (c3 w) (nth 3 obs (-1))) +++
  vchar (judge tol9 (spec_duration (smode_of m) (f2q d)) (nth 4 obs (-1))).
Definition spec_color_cases (l : list (Z * list float * float * list Z)) : string :=
  sconcat (map (fun c => spec_color_case c +++ ";") l).

(* a power command: the level must be in range and non-zero exactly for `on` *)
Definition spec_power_case (c : Z * float * bool * Z * Z) : string :=
  let '(m, d, on, level, dur) := c in
  (if (0 <=? level) && (level <=? 65535) && Bool.eqb (negb (level =? 0)) on then "=" else "!") +++
  vchar (judge tol9 (spec_duration (smode_of m) (f2q d)) dur).
Definition spec_power_cases (l : list (Z * float * bool * Z * Z)) : string :=
  sconcat (map (fun c => spec_power_case c +++ ";") l).

(* a wait: time register, and the pause handed to the clock in seconds (None: no pause).
   The pause must be seconds*1000 milliseconds to within 10^-9 relative. *)
Definition spec_delay_case (c : Z * float * option float) : string :=
  let '(m, t, obs) := c in
  match spec_delay_ms (smode_of m) (f2q t), obs with
  | None, None => "="
  | Some ms, Some s =>
      let diff := Qminus (Qmult (f2q s) (Qmake 1000 1)) ms in
      if Qabs_le_b diff (Qmult ms tol9) then "=" else "!"
  | _, _ => "!"
  end.
Definition spec_delay_cases (l : list (Z * float * option float)) : string :=
  sconcat (map (fun c => spec_delay_case c +++ ";") l).

(* C14: two transmitted colours denote the same colour / durations and delays agree, to
   within one raw unit *)
Definition same_sent_case (c : bool * list Z * list Z) : string :=
  let '(as_colour, a, b) := c in
  let ca := color_of_list 0 a in
  let cb := color_of_list 0 b in
  let colour_ok :=
    if as_colour then same_colour_b 1 ca cb
    else (hue_equiv_b (c0 ca) (c0 cb) || (Z.abs (c0 ca - c0 cb) <=? 1) || (65534 <=? Z.abs (c0 ca - c0 cb)))
         && (Z.abs (c1 ca - c1 cb) <=? 1) && (Z.abs (c2 ca - c2 cb) <=? 1) && (Z.abs (c3 ca - c3 cb) <=? 1) in
  (if colour_ok then "=" else "!") +++
  (if Z.abs (nth 4 a 0 - nth 4 b 0) <=? 1 then "=" else "!").
Definition same_sent_cases (l : list (bool * list Z * list Z)) : string :=
  sconcat (map (fun c => same_sent_case c +++ ";") l).

(* kelvin must be the very same number after a switch (both given as floats) *)
Definition same_float_cases (l : list (float * float)) : string :=
  sconcat (map (fun c => if same_float (fst c) (snd c) || PrimFloat.eqb (fst c) (snd c) then "=" else "!") l).
