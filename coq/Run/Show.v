(* Printing helpers for the generated cases files: everything that the harness
   reads back is a Coq [string] on one line. *)
From Coq Require Import ZArith String Ascii List Bool.
Import ListNotations.
Open Scope string_scope.

Definition chr (n : nat) : string := String (ascii_of_nat n) EmptyString.
Definition sconcat (l : list string) : string := fold_right append EmptyString l.

Fixpoint pos_digits (fuel : nat) (n : Z) (acc : string) : string :=
  match fuel with
  | O => acc
  | S f =>
      let d := String (ascii_of_nat (48 + Z.to_nat (n mod 10)%Z)) acc in
      if (n <? 10)%Z then d else pos_digits f (n / 10)%Z d
  end.

Definition show_Z (z : Z) : string :=
  match z with
  | Z0 => "0"
  | Zpos _ => pos_digits (S (Z.to_nat (Z.log2 z))) z ""
  | Zneg p => "-" ++ pos_digits (S (Z.to_nat (Z.log2 (Zpos p)))) (Zpos p) ""
  end.

Definition show_bool (b : bool) : string := if b then "T" else "F".

Definition show_list {A} (f : A -> string) (l : list A) : string :=
  "[" ++ sconcat (map (fun x => f x ++ ";") l) ++ "]".

Definition show_opt {A} (f : A -> string) (o : option A) : string :=
  match o with None => "None" | Some x => "Some(" ++ f x ++ ")" end.

(* strings are printed with control characters, backslash and the separators
   escaped as \xHH so that the result stays on one line and is unambiguous *)
Definition hexdig (n : nat) : ascii :=
  ascii_of_nat (if Nat.ltb n 10 then 48 + n else 87 + n).
Fixpoint show_str_body (s : string) : string :=
  match s with
  | EmptyString => EmptyString
  | String c r =>
      let n := nat_of_ascii c in
      if (Nat.ltb n 32 || Nat.leb 127 n || Nat.eqb n 92 || Nat.eqb n 59 || Nat.eqb n 39)%bool
      then String "\"%char (String "x"%char (String (hexdig (n / 16)) (String (hexdig (n mod 16)) (show_str_body r))))
      else String c (show_str_body r)
  end.
Definition show_str (s : string) : string := "'" ++ show_str_body s ++ "'".

(* ids of the cases whose flag is false, for "compare inside Coq, print only mismatches" *)
Fixpoint failing_ids (l : list (Z * bool)) : list Z :=
  match l with
  | [] => []
  | (i, b) :: r => if b then failing_ids r else i :: failing_ids r
  end.

(* string append under a name that does not clash with list append *)
Infix "+++" := String.append (right associativity, at level 60).
