(* Entry points evaluated by the generated cases files: C09 model side. *)
From Coq Require Import ZArith String Ascii List Bool.
From Bardolph Require Import Run.Show Time.StopSpec Time.Stop Run.C09Spec.
Open Scope string_scope.
Open Scope list_scope.
Import ListNotations.

(* the trace the model produces for a requester program and a schedule, with the source's
   current shapes; then the states the threads are left in *)
Definition show_jpc_done (j : jstate) : string :=
  match j_pc j with JDone => "d" | JWait2 _ => "w" | _ => "r" end.
Definition show_kpc_done (k : kpc) : string := match k with KDone => "d" | _ => "r" end.

Definition model_run (prog : list rop) (sched : list tid) : string :=
  let c := exec current_shapes (init prog) sched in
  show_trace (trace c) +++ "| J=" +++ sconcat (map show_jpc_done (js c)) +++
  " K=" +++ sconcat (map show_kpc_done (ks c)) +++ " R=" +++ show_nat (length (rprog c)).

Definition model_verdict (prog : list rop) (sched : list tid) : string :=
  spec_verdict (trace (exec current_shapes (init prog) sched)).

(* correspondence, compared inside Coq: "ok", or the position of the first difference with
   the model's and the real event there *)
Definition act_eqb (a b : act) : bool := String.eqb (show_act a) (show_act b).
Definition event_eqb (x y : event) : bool :=
  String.eqb (show_tid (fst x)) (show_tid (fst y)) && act_eqb (snd x) (snd y).

Fixpoint first_diff (i : nat) (m r : list event) : string :=
  match m, r with
  | [], [] => "ok"
  | x :: m', y :: r' => if event_eqb x y then first_diff (S i) m' r'
                        else "diff@" +++ show_nat i +++ " model=" +++ show_event x +++ " real=" +++ show_event y
  | x :: _, [] => "diff@" +++ show_nat i +++ " model=" +++ show_event x +++ " real=end"
  | [], y :: _ => "diff@" +++ show_nat i +++ " model=end real=" +++ show_event y
  end.

Definition model_agrees (prog : list rop) (sched : list tid) (real : list event) : string :=
  first_diff 0 (trace (exec current_shapes (init prog) sched)) real.
