(* Entry points evaluated by the generated cases files: C09 model side. *)
From Coq Require Import ZArith String Ascii List Bool.
From Bardolph Require Import Run.Show Time.StopSpec Time.Stop Run.C09Spec.
Open Scope string_scope.
Open Scope list_scope.
Import ListNotations.

(* the trace the model produces for a requester program and a schedule, with the source's
   current shapes; then the states the threads are left in *)
Definition show_jpc_done (j : jstate) : string :=
  match j_pc j with JDone => "d" | JWait2 _ => "w" | _ => "r" end.
Definition show_kpc_done (k : kpc) : string := match k with KDone => "d" | _ => "r" end.

Definition model_run (prog : list rop) (sched : list tid) : string :=
  let c := exec current_shapes (init prog) sched in
  show_trace (trace c) +++ "| J=" +++ sconcat (map show_jpc_done (js c)) +++
  " K=" +++ sconcat (map show_kpc_done (ks c)) +++ " R=" +++ show_nat (length (rprog c)).

Definition model_verdict (prog : list rop) (sched : list tid) : string :=
  spec_verdict (trace (exec current_shapes (init prog) sched)).
