(* Entry points evaluated by the generated cases files: C20 specification side.
   Results are JSON texts on one line (strings with every character outside the
   printable ASCII range, the quote and the backslash written as \u00XX). *)
From Coq Require Import ZArith String Ascii List Bool.
From Bardolph Require Import Base.PyStr Run.Show Web.Html Web.WebSpec.
Open Scope string_scope.
Open Scope list_scope.
Import ListNotations.
Open Scope Z_scope.

Fixpoint jbody (s : string) : string :=
  match s with
  | EmptyString => EmptyString
  | String c r =>
      let n := nat_of_ascii c in
      if (Nat.ltb n 32 || Nat.leb 127 n || Nat.eqb n 34 || Nat.eqb n 92)%bool
      then "\u00" +++ String (hexdig (n / 16)) (String (hexdig (n mod 16)) (jbody r))
      else String c (jbody r)
  end.
Definition jstr (s : string) : string := """" +++ jbody s +++ """".
Fixpoint jlist_aux (l : list string) : string :=
  match l with
  | [] => ""
  | [x] => x
  | x :: r => x +++ "," +++ jlist_aux r
  end.
Definition jlist (l : list string) : string := "[" +++ jlist_aux l +++ "]".
Definition jbool (b : bool) : string := if b then "true" else "false".
Definition jopt (o : option string) : string := match o with Some s => jstr s | None => "null" end.

Definition show_job (j : job) : list string := [show_Z (j_id j); jstr (j_name j); jstr (j_file j)].
Definition show_effect (e : effect) : string :=
  match e with
  | EAdd j => jlist (jstr "A" :: show_job j)
  | ESpawn j => jlist (jstr "S" :: show_job j)
  | EStop j => jlist (jstr "X" :: show_job j)
  | EClear => jlist [jstr "C"]
  | ESnapshot => jlist [jstr "P"]
  end.
Definition show_effects (l : list effect) : string := jlist (map show_effect l).

Definition show_view (v : view) : string :=
  jlist [jstr (w_file v); jstr (w_path v); jstr (w_title v); jstr (w_background v); jstr (w_color v);
         jstr (w_icon v); jbool (w_run_bg v); jbool (w_running v)].

Definition bits (l : list bool) : string :=
  fold_right (fun (b : bool) acc => String (if b then "1" else "0")%char acc) EmptyString l.

(* per step: effects, running flags of the listed scripts (in the order of the static
   list printed once per case), whether the request must yield a page *)
Definition show_obs (o : spec_obs) : string :=
  jlist [show_effects (so_effects o); jstr (bits (map w_running (so_views o))); jbool (so_must_render o)].

Definition spec_case (m : manifest) (evs : list event) : string :=
  jlist [jlist (map show_view (spec_views m jc_empty)); jlist (map show_obs (spec_run m evs))].

(* html.escape / the documented title and path derivation on plain strings *)
Definition escape_cases (l : list string) : string := jlist (map (fun s => jstr (html_escape s)) l).
Definition unescape_cases (l : list string) : string := jlist (map (fun s => jstr (html_unescape s)) l).
Definition well_escaped_cases (l : list string) : string := jlist (map (fun s => jbool (well_escaped s)) l).
Definition spec_title_cases (l : list string) : string := jlist (map (fun s => jstr (spec_default_title s)) l).
Definition spec_base_cases (l : list string) : string := jlist (map (fun s => jstr (base_name s)) l).
Definition classify_case (url : string) : string :=
  match classify url with
  | RtIndex => jlist [jstr "index"]
  | RtCapture => jlist [jstr "capture"]
  | RtOff => jlist [jstr "off"]
  | RtStatus => jlist [jstr "status"]
  | RtStop p => jlist [jstr "stop_script"; jstr p]
  | RtStopCurrent => jlist [jstr "stop_current"]
  | RtStopAll => jlist [jstr "stop_all"]
  | RtRun p => jlist [jstr "run_script"; jstr p]
  | RtNone => "null"
  end.
Definition classify_cases (l : list string) : string := jlist (map classify_case l).
