(* Entry points evaluated by the generated cases files: C13 specification side.
   Everything here is computed from the abstract directory (Lights/DirectorySpec.v)
   or is an executable form of the specification applied to what the harness
   observed on the real classes; no use of the model's transition functions. *)
From Coq Require Import ZArith String Ascii List Bool Uint63.
From Bardolph Require Import Run.Show Lights.SortedList Lights.Directory Lights.DirectorySpec.
Open Scope string_scope.
Open Scope list_scope.
Import ListNotations.
Open Scope Z_scope.
Open Scope bool_scope.

(* ---------- digests: the big-endian base-256 value of the text mod the prime 2^54-33,
   computed with primitive 63-bit integers (h * 256 + c < 2^63 never wraps) ---------- *)
Definition HM : int := 18014398509481951%uint63.
Definition bit (b : bool) (v : int) : int := if b then v else 0%uint63.
Definition int_of_ascii (c : ascii) : int :=
  match c with
  | Ascii b0 b1 b2 b3 b4 b5 b6 b7 =>
      (bit b0 1 + bit b1 2 + bit b2 4 + bit b3 8 + bit b4 16 + bit b5 32 + bit b6 64 + bit b7 128)%uint63
  end.
Fixpoint hash_acc (s : string) (h : int) : int :=
  match s with
  | EmptyString => h
  | String c r => hash_acc r ((h * 256 + int_of_ascii c) mod HM)%uint63
  end.
Definition hash_str (s : string) : Z := Uint63.to_Z (hash_acc s 0%uint63).

(* The same digest over a byte encoding of structured observations, without building
   texts: a string is its bytes then 255; a number 8 bytes big-endian; a list its
   elements then 254; None is 253, Some x is 252 then x. *)
Definition hb (h b : int) : int := ((h * 256 + b) mod HM)%uint63.
Fixpoint h_str (s : string) (h : int) : int :=
  match s with
  | EmptyString => hb h 255%uint63
  | String c r => h_str r (hb h (int_of_ascii c))
  end.
Definition byte_of (n : int) (shift : int) : int := PrimInt63.land (PrimInt63.lsr n shift) 255%uint63.
Definition h_int (z : Z) (h : int) : int :=
  let n := Uint63.of_Z z in
  hb (hb (hb (hb (hb (hb (hb (hb h (byte_of n 56%uint63)) (byte_of n 48%uint63)) (byte_of n 40%uint63))
     (byte_of n 32%uint63)) (byte_of n 24%uint63)) (byte_of n 16%uint63)) (byte_of n 8%uint63)) (byte_of n 0%uint63).
Definition h_list {A} (f : A -> int -> int) (l : list A) (h : int) : int :=
  hb (fold_left (fun h x => f x h) l h) 254%uint63.
Definition h_opt {A} (f : A -> int -> int) (o : option A) (h : int) : int :=
  match o with None => hb h 253%uint63 | Some x => f x (hb h 252%uint63) end.
Definition h_names := h_list h_str.

(* ---------- histories as the harness writes them ---------- *)
Inductive sym :=
| SDisc (snap : list report)    (* successful discover() at the current clock *)
| SFail                          (* discover() whose get_lights() raises LightException *)
| STick (dt : Z)                 (* time passes *)
| SExp (max_age : Z).            (* _garbage_collect() at the current clock *)

Fixpoint steps_of (clock : Z) (l : list sym) : list step :=
  match l with
  | [] => []
  | SDisc s :: r => Discover s clock :: steps_of clock r
  | SFail :: r => FailedDiscover :: steps_of clock r
  | STick dt :: r => steps_of (clock + dt) r
  | SExp m :: r => Expire clock m :: steps_of clock r
  end.

Record alphabet := mkAlpha { al_names : list string; al_groups : list string; al_locs : list string }.

(* ---------- printing ---------- *)
Definition show_light (v : light) : string :=
  show_str (l_group v) +++ "," +++ show_str (l_loc v) +++ "," +++ show_Z (l_birth v).
Definition show_names (l : list string) : string := show_list show_str l.

(* state of the specification while it follows a history *)
Record sstate := mkS { s_map : amap; s_ok : Z; s_fail : Z; s_clock : Z }.
Definition s_init : sstate := mkS [] 0 0 0.
Definition s_sym (s : sstate) (y : sym) : sstate :=
  match y with
  | SDisc snap => mkS (a_discover (s_map s) snap (s_clock s)) (s_ok s + 1) (s_fail s) (s_clock s)
  | SFail => mkS (s_map s) (s_ok s) (s_fail s + 1) (s_clock s)
  | STick dt => mkS (s_map s) (s_ok s) (s_fail s) (s_clock s + dt)
  | SExp m => mkS (a_expire (s_map s) (s_clock s) m) (s_ok s) (s_fail s) (s_clock s)
  end.

(* everything the public getters must return, over the given alphabets *)
Definition pub_text (A : alphabet)
           (names : list string) (count : Z) (light_of : string -> option light)
           (gnames : list string) (glights : string -> option (list string))
           (pnames : list string) (plights : string -> option (list string))
           (ok fail : Z) : string :=
  "N" +++ show_names names +++ "#" +++ show_Z count +++
  "L" +++ show_list (fun n => show_opt show_light (light_of n)) (al_names A) +++
  "G" +++ show_names gnames +++ show_list (fun g => show_opt show_names (glights g)) (al_groups A) +++
  "P" +++ show_names pnames +++ show_list (fun g => show_opt show_names (plights g)) (al_locs A) +++
  "C" +++ show_Z ok +++ "," +++ show_Z fail.

Definition h_light (v : light) (h : int) : int := h_int (l_birth v) (h_str (l_loc v) (h_str (l_group v) h)).
Definition pub_enc (A : alphabet)
           (names : list string) (count : Z) (light_of : string -> option light)
           (gnames : list string) (glights : string -> option (list string))
           (pnames : list string) (plights : string -> option (list string))
           (ok fail : Z) (h : int) : int :=
  let h := h_int count (h_names names h) in
  let h := h_list (fun n => h_opt h_light (light_of n)) (al_names A) h in
  let h := h_list (fun g => h_opt h_names (glights g)) (al_groups A) (h_names gnames h) in
  let h := h_list (fun g => h_opt h_names (plights g)) (al_locs A) (h_names pnames h) in
  h_int fail (h_int ok h).

Definition spec_enc (A : alphabet) (s : sstate) (h : int) : int :=
  let m := s_map s in
  pub_enc A (spec_light_names m) (spec_light_count m) (fun n => a_get n m)
          (spec_group_names m) (spec_group_lights m)
          (spec_location_names m) (spec_location_lights m)
          (s_ok s) (s_fail s) h.

Definition spec_pub (A : alphabet) (s : sstate) : string :=
  let m := s_map s in
  pub_text A (spec_light_names m) (spec_light_count m) (fun n => a_get n m)
           (spec_group_names m) (spec_group_lights m)
           (spec_location_names m) (spec_location_lights m)
           (s_ok s) (s_fail s).

(* observations after every symbol of a history, separated by "@" *)
Fixpoint spec_trace (A : alphabet) (s : sstate) (l : list sym) : string :=
  match l with
  | [] => ""
  | y :: r => let s' := s_sym s y in spec_pub A s' +++ "@" +++ spec_trace A s' r
  end.
Definition spec_hist_text (A : alphabet) (l : list sym) : string := spec_trace A s_init l.
Fixpoint spec_trace_enc (A : alphabet) (s : sstate) (l : list sym) (h : int) : int :=
  match l with
  | [] => h
  | y :: r => let s' := s_sym s y in spec_trace_enc A s' r (spec_enc A s' h)
  end.
Definition spec_hist_digest (A : alphabet) (l : list sym) : Z := Uint63.to_Z (spec_trace_enc A s_init l 0%uint63).

(* all one-symbol continuations of a history *)
Definition spec_succ_text (A : alphabet) (symtab : list sym) (prefix : list sym) : string :=
  let s := fold_left s_sym prefix s_init in
  sconcat (map (fun y => spec_pub A (s_sym s y) +++ "@") symtab).
Definition spec_succ_digest (A : alphabet) (symtab : list sym) (prefix : list sym) : Z :=
  let s := fold_left s_sym prefix s_init in
  Uint63.to_Z (fold_left (fun h y => spec_enc A (s_sym s y) h) symtab 0%uint63).

(* compare inside Coq: print the ids whose digest differs *)
Definition ids (l : list Z) : string := show_list show_Z l.
Definition spec_hist_check (A : alphabet) (cases : list (Z * (list sym * Z))) : string :=
  ids (failing_ids (map (fun c => (fst c, spec_hist_digest A (fst (snd c)) =? snd (snd c))) cases)).
Definition spec_succ_check (A : alphabet) (symtab : list sym) (cases : list (Z * (list sym * Z))) : string :=
  ids (failing_ids (map (fun c => (fst c, spec_succ_digest A symtab (fst (snd c)) =? snd (snd c))) cases)).

(* ---------- the invariant on a dumped state of the real LightSet ---------- *)
Definition members_why (proj : light -> string) (lights : dict light) (td : dict (list string)) : string :=
  if negb (nodupb (dict_keys td)) then "duplicate-key"
  else if negb (forallb (fun e => negb (is_nil (snd e))) td) then "empty-list-kept"
  else if negb (forallb (fun e => sortedb (snd e)) td) then "list-not-sorted-or-duplicate"
  else if negb (forallb (fun e => forallb (fun n => match dict_get n lights with
                                                    | Some v => String.eqb (proj v) (fst e)
                                                    | None => false end) (snd e)) td)
       then "lists-unknown-or-stale-light"
  else if negb (forallb (fun e => match dict_get (proj (snd e)) td with
                                  | Some l => memb (fst e) l
                                  | None => false end) lights)
       then "light-not-listed"
  else "ok".

Definition inv_why (d : dir) : string :=
  if dir_invb d then "ok"
  else if negb (sortedb (d_names d)) then "names-not-sorted-or-duplicate"
  else if negb (nodupb (dict_keys (d_lights d))) then "lights-duplicate-key"
  else if negb (forallb (fun n => memb n (dict_keys (d_lights d))) (d_names d)) then "names-lists-unknown-light"
  else if negb (forallb (fun n => memb n (d_names d)) (dict_keys (d_lights d))) then "known-light-not-in-names"
  else if negb (members_invb l_group (d_lights d) (d_groups d))
       then "groups-" +++ members_why l_group (d_lights d) (d_groups d)
  else "locations-" +++ members_why l_loc (d_lights d) (d_locs d).

Definition inv_check (cases : list (Z * dir)) : string :=
  ids (failing_ids (map (fun c => (fst c, dir_invb (snd c))) cases)).
Definition inv_whys (cases : list (Z * dir)) : string :=
  sconcat (map (fun c => show_Z (fst c) +++ ":" +++ inv_why (snd c) +++ "@") cases).

(* ---------- SortedList: what each operation must return ---------- *)
Definition spec_first (l : list string) : option string := hd_error (sort_set l).
Definition spec_last (l : list string) : option string :=
  match sort_set l with [] => None | s => Some (last s "") end.
Definition spec_next (l : list string) (x : string) : option string :=
  hd_error (filter (fun y => str_ltb x y) (sort_set l)).
Definition spec_prev (l : list string) (x : string) : option string :=
  match filter (fun y => str_ltb y x) (sort_set l) with [] => None | s => Some (last s "") end.
Definition spec_has (l : list string) (x : string) : bool := memb x l.
Definition spec_add (l : list string) (x : string) : list string := sort_set (x :: l).
Definition spec_remove (l : list string) (x : string) : list string :=
  sort_set (filter (fun y => negb (String.eqb y x)) l).

Definition sl_text (first last next prev : option string) (has : bool) (added removed : list string) : string :=
  show_opt show_str first +++ "|" +++ show_opt show_str last +++ "|" +++ show_opt show_str next +++ "|" +++
  show_opt show_str prev +++ "|" +++ show_bool has +++ "|" +++ show_names added +++ "|" +++ show_names removed.

Definition spec_sl_text (l : list string) (x : string) : string :=
  sl_text (spec_first l) (spec_last l) (spec_next l x) (spec_prev l x) (spec_has l x) (spec_add l x) (spec_remove l x).
Definition spec_sl_check (cases : list (Z * (list string * (string * Z)))) : string :=
  ids (failing_ids (map (fun c => let '(i, (l, (x, h))) := c in (i, hash_str (spec_sl_text l x) =? h)) cases)).
Definition spec_sl_texts (cases : list (list string * string)) : string :=
  sconcat (map (fun c => spec_sl_text (fst c) (snd c) +++ "@") cases).

(* ---------- an observed iteration, judged by the specification ---------- *)
(* [trace_ok] (Lights/DirectorySpec.v) as a boolean; fwd = first/next, else last/prev *)
Definition afterb (fwd : bool) (prev : option string) (z : string) : bool :=
  match prev with None => true | Some p => if fwd then str_ltb p z else str_ltb z p end.
Definition Rb (fwd : bool) (a b : string) : bool := if fwd then str_ltb a b else str_ltb b a.

Fixpoint trace_okb (fwd : bool) (prev : option string) (tr : list (list string * string)) (final : list string) : bool :=
  match tr with
  | [] => forallb (fun z => negb (afterb fwd prev z)) final
  | (lk, v) :: r =>
      memb v lk && afterb fwd prev v &&
      forallb (fun z => negb (afterb fwd prev z && Rb fwd z v)) lk &&
      trace_okb fwd (Some v) r final
  end.

(* the lists seen at the steps must be what removing the scheduled values leaves *)
Fixpoint lists_follow (cur : list string) (sched : list (list string)) (seen : list (list string)) : bool :=
  match seen, sched with
  | [], _ => true
  | lk :: seen', rm :: sched' =>
      let want := sort_set (filter (fun y => negb (memb y rm)) cur) in
      (if list_eq_dec string_dec lk want then true else false) && lists_follow want sched' seen'
  | _ :: _, [] => false
  end.

Definition iter_judge (fwd : bool) (l : list string) (sched : list (list string))
           (tr : list (list string * string)) (final : list string) : bool :=
  trace_okb fwd None tr final && lists_follow l sched (map fst tr ++ [final]).

Definition iter_check (cases : list (Z * (bool * (list string * (list (list string) * (list (list string * string) * list string)))))) : string :=
  ids (failing_ids (map (fun c => let '(i, (fwd, (l, (sched, (tr, final))))) := c in
                                  (i, iter_judge fwd l sched tr final)) cases)).

(* ---------- the VM's stepping, judged by the specification ----------
   A walk: after the prefix history, disc/discm; then before every dnext/dnextm some
   more history happens.  Expected: the nearest remaining name among what the abstract
   directory lists at that moment (members of a vanished group: nothing), NULL when none. *)
Definition spec_listing (op : operand) (name : string) (members : bool) (m : amap) : list string :=
  if members then
    match op with
    | OGroup => match spec_group_lights m name with Some l => l | None => [] end
    | OLocation => match spec_location_lights m name with Some l => l | None => [] end
    | OLight => []
    end
  else
    match op with
    | OLight => spec_light_names m
    | OGroup => spec_group_names m
    | OLocation => spec_location_names m
    end.

Definition show_res (o : option string) : string :=
  match o with Some n => show_str n | None => "NULL" end.

Fixpoint spec_walk (op : operand) (name : string) (members fwd : bool)
         (s : sstate) (cur : string) (between : list (list sym)) : string :=
  match between with
  | [] => ""
  | b :: r =>
      let s' := fold_left s_sym b s in
      let l := spec_listing op name members (s_map s') in
      let o := if fwd then spec_next l cur else spec_prev l cur in
      show_res o +++ ";" +++
      match o with
      | Some n => spec_walk op name members fwd s' n r
      | None => ""
      end
  end.

Definition spec_walk_text (op : operand) (name : string) (members fwd : bool)
           (prefix : list sym) (between : list (list sym)) : string :=
  let s := fold_left s_sym prefix s_init in
  let l := spec_listing op name members (s_map s) in
  let o := if fwd then spec_first l else spec_last l in
  show_res o +++ ";" +++
  match o with
  | Some n => spec_walk op name members fwd s n between
  | None => ""
  end.

Definition walk_case := (Z * (operand * (string * (bool * (bool * (list sym * list (list sym)))))))%type.
Definition spec_walk_texts (cases : list walk_case) : string :=
  sconcat (map (fun c => let '(i, (op, (name, (members, (fwd, (prefix, between)))))) := c in
                         spec_walk_text op name members fwd prefix between +++ "@") cases).
