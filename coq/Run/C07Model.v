(* Entry points evaluated by the generated cases files: C07 model side (the translated
   arithmetic of Gen/* and the pipelines of Num/UnitsFloat.v). *)
From Coq Require Import ZArith QArith String Ascii List Bool PrimFloat.
From Bardolph Require Import Base.PyNum Base.Range Run.Show
     Gen.ParamGen Gen.ColorsysGen Gen.UnitsGen Gen.MachineUnitsGen Num.UnitsFloat.
Open Scope string_scope.
Open Scope list_scope.
Import ListNotations.
Close Scope Q_scope.
Open Scope Z_scope.

Definition mode_of (z : Z) : unit_mode :=
  match z with 0 => LOGICAL | 1 => RAW | _ => RGB end.

Definition kind_of (z : Z) : kind :=
  match z with
  | 0 => K_light | 1 => K_group | 2 => K_location | 3 => K_all | 4 => K_zone | 5 => K_matrix
  | 6 => P_light | 7 => P_group | 8 => P_location | _ => P_all
  end.

Definition color_of_list {A} (d : A) (l : list A) : color4 A :=
  mkcolor (nth 0 l d) (nth 1 l d) (nth 2 l d) (nth 3 l d).

Definition show_zs (l : list Z) : string := sconcat (map (fun z => show_Z z +++ ",") l).
Definition zs4 (c : color4 Z) : list Z := [c0 c; c1 c; c2 c; c3 c].

Definition show_sent (s : sent) : string :=
  match s_color s, s_power s with
  | Some c, _ => "C" +++ show_zs (zs4 c) +++ show_Z (s_duration s)
  | None, Some p => "P" +++ show_Z p +++ "," +++ show_Z (s_duration s)
  | None, None => "?"
  end.

(* kind, mode, register colour, power flag, duration register *)
Definition model_case (c : Z * Z * list float * bool * float) : string :=
  let '(k, m, regs, on, d) := c in
  show_sent (transmit (kind_of k) (mode_of m) (color_of_list PrimFloat.zero regs) on d).
Definition model_cases (l : list (Z * Z * list float * bool * float)) : string :=
  sconcat (map (fun c => model_case c +++ ";") l).

(* the wait: code of the pause in seconds, or N *)
Definition model_delay_case (c : Z * float) : string :=
  match wait_seconds (mode_of (fst c)) (snd c) with
  | None => "N"
  | Some s => show_Z (float_code s)
  end.
Definition model_delay_cases (l : list (Z * float)) : string :=
  sconcat (map (fun c => model_delay_case c +++ ";") l).

(* what `get` leaves in the registers for a raw colour read from a light *)
Definition model_get_case (c : Z * list float) : string :=
  let r := assure_units (mode_of (fst c)) (color_of_list PrimFloat.zero (snd c)) in
  show_zs [float_code (c0 r); float_code (c1 r); float_code (c2 r); float_code (c3 r)].
Definition model_get_cases (l : list (Z * list float)) : string :=
  sconcat (map (fun c => model_get_case c +++ ";") l).

(* ------------------------------------------------------------------ translator validation
   Sweeps of the generated functions over integer-indexed inputs (no lists), digested; the
   harness computes the same digests from the Python originals.  Floats enter the digest
   by their bit pattern ([float_code]), integers as themselves. *)

Definition fc := float_code.
Definition col (a b c d : float) : color4 float := mkcolor a b c d.
Definition codes4 (c : color4 float) : list Z := [fc (c0 c); fc (c1 c); fc (c2 c); fc (c3 c)].
Definition codes3 (t : float * float * float) : list Z :=
  let '(a, b, c) := t in [fc a; fc b; fc c].

(* the inputs on which Python's colorsys.rgb_to_hsv raises ZeroDivisionError *)
Definition hsv_zero_division (r g b : float) : bool :=
  let maxc := py_max (py_max r g) b in
  let minc := py_min (py_min r g) b in
  negb (PrimFloat.eqb minc maxc) && PrimFloat.eqb maxc PrimFloat.zero.

Definition grid_out (x : float) : list Z :=
  codes4 (logical_to_raw (col x x x x)) ++
  [fc (pct_to_raw x); fc (time_raw x); fc (time_logical x);
   param_8 x; param_16 x; param_32 x; param_bool x; standardize_raw x] ++
  zs4 (param_color (logical_to_raw (col x x x x))) ++
  codes4 (raw_to_logical (col x x x x)).

(* units.py guards the division (D62): its rgb converters answer for every input *)
Definition rgb_out (c : color4 float) : list Z :=
  codes4 (rgb_to_raw c) ++ codes4 (rgb_to_logical c) ++ zs4 (param_color (rgb_to_raw c)).

Definition sweep_fn (id i : Z) : list Z :=
  match id with
  | 1 => (* every raw value: raw -> logical, and back *)
      let r := z2f i in
      let l := raw_to_logical (col r r r r) in
      codes4 l ++ codes4 (logical_to_raw l) ++ zs4 (param_color (logical_to_raw l))
  | 2 =>
      let r := z2f i in
      [param_8 r; param_16 r; param_32 r; param_bool r; fc (time_raw r); fc (time_logical r);
       fc (time_logical (time_raw r)); fc (time_raw (time_logical r)); standardize_raw r; py_round r]
  | 3 => (* every raw hue with varying saturation/brightness: raw -> rgb, and back *)
      let c := col (z2f i) (z2f ((i * 40503) mod 65536)) (z2f ((i * 7 + 3) mod 65536)) (z2f (i mod 9000)) in
      let g := raw_to_rgb c in
      codes4 g ++ rgb_out g
  | 4 => grid_out (PrimFloat.div (z2f i) (z2f 8))
  | 5 => (* rgb triples from -10 to 105 step 5 *)
      let v k := z2f (k * 5 - 10) in
      rgb_out (col (v (i mod 24)) (v ((i / 24) mod 24)) (v (i / 576)) (z2f 3500))
  | 6 => (* rgb triples in 0..100 step 6.25 *)
      let v k := PrimFloat.div (z2f (k * 25)) (z2f 4) in
      rgb_out (col (v (i mod 17)) (v ((i / 17) mod 17)) (v (i / 289)) (z2f 2700))
  | 7 => (* logical h 0..360 step 5, s and v 0..100 step 10: logical -> rgb, and back *)
      let c := col (z2f ((i mod 73) * 5)) (z2f (((i / 73) mod 11) * 10)) (z2f ((i / 803) * 10)) (z2f 4000) in
      let g := logical_to_rgb c in
      codes4 g ++ rgb_out g
  | 8 => (* colorsys on fractions k/31 *)
      let v k := PrimFloat.div (z2f k) (z2f 31) in
      let a := v (i mod 32) in let b := v ((i / 32) mod 32) in let c := v (i / 1024) in
      codes3 (hsv_to_rgb a b c) ++
      (if hsv_zero_division a b c then [0] else codes3 (rgb_to_hsv a b c))
  | _ => []
  end.

(* two linear digests with exact integer arithmetic (no modulo: Z division is slow under
   vm_compute): sum of c * (j+1) and sum of c * w(j), w(j) = (40503 j + 12345) mod 65536 *)
Definition digest_step (acc : Z * Z * Z) (c : Z) : Z * Z * Z :=
  let '(j, a, b) := acc in
  (j + 1, a + (j + 1) * c, b + Z.land (j * 40503 + 12345) 65535 * c).

Definition sweep_digest (id start : Z) (n : positive) : string :=
  let '(j, a, b) := fold_range n start (fun acc i => fold_left digest_step (sweep_fn id i) acc) (0, 0, 0) in
  show_Z j +++ "," +++ show_Z a +++ "," +++ show_Z b.

(* several shards in one call *)
Definition sweep_digests (l : list (Z * Z * positive)) : string :=
  sconcat (map (fun c => let '(id, s, n) := c in sweep_digest id s n +++ ";") l).

(* the raw values, for locating a difference *)
Definition sweep_values (id start : Z) (n : positive) : string :=
  fold_range n start (fun acc i => acc +++ show_zs (sweep_fn id i) +++ ";") "".

(* explicit inputs (huge, tiny, negative zero, inf, nan) *)
Definition special_cases (l : list float) : string :=
  sconcat (map (fun x => show_zs (grid_out x) +++ ";") l).
