(* Entry points evaluated by the generated cases files: C13 model side
   (Lights/SortedList.v, Lights/Directory.v run on the harness's inputs). *)
From Coq Require Import ZArith String Ascii List Bool Uint63.
From Bardolph Require Import Run.Show Lights.SortedList Lights.Directory Lights.DirectorySpec Run.C13Spec.
Open Scope string_scope.
Open Scope list_scope.
Import ListNotations.
Open Scope Z_scope.
Open Scope bool_scope.

Record mstate := mkM { m_dir : dir; m_clock : Z }.
Definition m_init : mstate := mkM empty_dir 0.
Definition m_sym (s : mstate) (y : sym) : mstate :=
  match y with
  | SDisc snap => mkM (discover (m_dir s) snap (m_clock s)) (m_clock s)
  | SFail => mkM (failed_discover (m_dir s)) (m_clock s)
  | STick dt => mkM (m_dir s) (m_clock s + dt)
  | SExp m => mkM (expire (m_dir s) (m_clock s) m) (m_clock s)
  end.

(* the public getters of the model, in the format of [spec_pub] *)
Definition model_pub (A : alphabet) (s : mstate) : string :=
  let d := m_dir s in
  pub_text A (get_light_names d) (get_light_count d) (get_light d)
           (get_group_names d) (get_group_lights d)
           (get_location_names d) (get_location_lights d)
           (get_successful_discovers d) (get_failed_discovers d).

(* group / location tables are compared with their entries sorted by key (the order of
   a private dict is not observable); get_lights() order is *)
Fixpoint insert_entry (e : string * list string) (l : list (string * list string)) :=
  match l with
  | [] => [e]
  | f :: t => if str_ltb (fst e) (fst f) then e :: f :: t else f :: insert_entry e t
  end.
Definition sort_entries (l : list (string * list string)) := fold_right insert_entry [] l.
Definition show_table (td : dict (list string)) : string :=
  show_list (fun e => show_str (fst e) +++ "=" +++ show_names (snd e)) (sort_entries td).

Definition state_text (d : dir) : string :=
  "L" +++ show_list (fun e => show_str (fst e) +++ "," +++ show_light (snd e)) (get_lights d) +++
  "N" +++ show_names (d_names d) +++
  "G" +++ show_table (d_groups d) +++
  "P" +++ show_table (d_locs d) +++
  "C" +++ show_Z (d_ok d) +++ "," +++ show_Z (d_fail d).

(* byte encoding of the same observation, for the digests *)
Definition h_table (td : dict (list string)) (h : int) : int :=
  h_list (fun e h => h_names (snd e) (h_str (fst e) h)) (sort_entries td) h.
Definition model_enc (A : alphabet) (s : mstate) (h : int) : int :=
  let d := m_dir s in
  let h := h_list (fun e h => h_light (snd e) (h_str (fst e) h)) (get_lights d) h in
  let h := h_table (d_locs d) (h_table (d_groups d) (h_names (d_names d) h)) in
  let h := h_int (d_fail d) (h_int (d_ok d) h) in
  pub_enc A (get_light_names d) (get_light_count d) (get_light d)
          (get_group_names d) (get_group_lights d)
          (get_location_names d) (get_location_lights d)
          (get_successful_discovers d) (get_failed_discovers d) h.

Definition model_obs (A : alphabet) (s : mstate) : string :=
  state_text (m_dir s) +++ "/" +++ model_pub A s.

Fixpoint model_trace (A : alphabet) (s : mstate) (l : list sym) : string :=
  match l with
  | [] => ""
  | y :: r => let s' := m_sym s y in model_obs A s' +++ "@" +++ model_trace A s' r
  end.
Definition model_hist_text (A : alphabet) (l : list sym) : string := model_trace A m_init l.
Fixpoint model_trace_enc (A : alphabet) (s : mstate) (l : list sym) (h : int) : int :=
  match l with
  | [] => h
  | y :: r => let s' := m_sym s y in model_trace_enc A s' r (model_enc A s' h)
  end.
Definition model_hist_digest (A : alphabet) (l : list sym) : Z := Uint63.to_Z (model_trace_enc A m_init l 0%uint63).

Definition model_succ_text (A : alphabet) (symtab : list sym) (prefix : list sym) : string :=
  let s := fold_left m_sym prefix m_init in
  sconcat (map (fun y => model_obs A (m_sym s y) +++ "@") symtab).
Definition model_succ_digest (A : alphabet) (symtab : list sym) (prefix : list sym) : Z :=
  let s := fold_left m_sym prefix m_init in
  Uint63.to_Z (fold_left (fun h y => model_enc A (m_sym s y) h) symtab 0%uint63).

Definition model_hist_check (A : alphabet) (cases : list (Z * (list sym * Z))) : string :=
  ids (failing_ids (map (fun c => (fst c, model_hist_digest A (fst (snd c)) =? snd (snd c))) cases)).
Definition model_succ_check (A : alphabet) (symtab : list sym) (cases : list (Z * (list sym * Z))) : string :=
  ids (failing_ids (map (fun c => (fst c, model_succ_digest A symtab (fst (snd c)) =? snd (snd c))) cases)).

(* ---------- SortedList ---------- *)
Definition model_sl_text (l : list string) (x : string) : string :=
  let s := sl_of_list l in
  sl_text (sl_first s) (sl_last s) (sl_next s x) (sl_prev s x) (sl_has s x) (sl_add s x) (sl_remove s x).
Definition model_sl_check (cases : list (Z * (list string * (string * Z)))) : string :=
  ids (failing_ids (map (fun c => let '(i, (l, (x, h))) := c in (i, hash_str (model_sl_text l x) =? h)) cases)).
Definition model_sl_texts (cases : list (list string * string)) : string :=
  sconcat (map (fun c => model_sl_text (fst c) (snd c) +++ "@") cases).

(* the binary searches against the positions the model uses (extra tie to CPython) *)
Definition bisect_text (l : list string) (x : string) : string :=
  let s := sl_of_list l in
  show_Z (Z.of_nat (bisect_left s x)) +++ "," +++ show_Z (Z.of_nat (bisect_right s x)) +++ "," +++
  show_Z (Z.of_nat (bisect_left_bin s x)) +++ "," +++ show_Z (Z.of_nat (bisect_right_bin s x)).
Definition bisect_texts (cases : list (list string * string)) : string :=
  sconcat (map (fun c => bisect_text (fst c) (snd c) +++ "@") cases).

(* ---------- iteration while removing ---------- *)
Definition sched_fun (sched : list (list string)) (i : nat) : list string := nth i sched [].
Definition show_trace (t : option trace) : string :=
  match t with
  | None => "out-of-fuel"
  | Some (tr, final) =>
      show_list (fun e => show_names (fst e) +++ ">" +++ show_str (snd e)) tr +++ "/" +++ show_names final
  end.
Definition model_iter_text (fwd : bool) (l : list string) (sched : list (list string)) : string :=
  let s := sl_of_list l in
  show_trace ((if fwd then iterate else iterate_back) (S (length s)) (sched_fun sched) s).
Definition model_iter_texts (cases : list (bool * (list string * list (list string)))) : string :=
  sconcat (map (fun c => let '(fwd, (l, sched)) := c in model_iter_text fwd l sched +++ "@") cases).

(* ---------- vm_discover walks ---------- *)
Definition show_dres (r : dresult) : string :=
  match r with DName n => show_str n | DNull => "NULL" | DFault => "FAULT" end.

Fixpoint model_walk (gone : dresult) (op : operand) (name : string) (members fwd : bool)
         (s : mstate) (cur : string) (between : list (list sym)) : string :=
  match between with
  | [] => ""
  | b :: r =>
      let s' := fold_left m_sym b s in
      let o := if members then vm_dnextm_gen gone (m_dir s') op name fwd cur else vm_dnext (m_dir s') op fwd cur in
      show_dres o +++ ";" +++
      match o with
      | DName n => model_walk gone op name members fwd s' n r
      | _ => ""
      end
  end.

Definition model_walk_text (gone : dresult) (op : operand) (name : string) (members fwd : bool)
           (prefix : list sym) (between : list (list sym)) : string :=
  let s := fold_left m_sym prefix m_init in
  let o := if members then vm_discm (m_dir s) op name fwd else vm_disc (m_dir s) op fwd in
  show_dres o +++ ";" +++
  match o with
  | DName n => model_walk gone op name members fwd s n between
  | _ => ""
  end.

(* [repaired]: evaluate vm_dnextm_fixed instead of vm_dnextm *)
Definition model_walk_texts (repaired : bool) (cases : list walk_case) : string :=
  let gone := if repaired then DNull else DFault in
  sconcat (map (fun c => let '(i, (op, (name, (members, (fwd, (prefix, between)))))) := c in
                         model_walk_text gone op name members fwd prefix between +++ "@") cases).
