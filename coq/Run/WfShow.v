(* Entry point: the verified checker run on a compiled program (translation validation). *)
From Coq Require Import ZArith String List Bool.
From Bardolph Require Import Run.Show Lang.Instr Lang.Loader Lang.Wf.
Open Scope string_scope.
Definition wf_case (p : program) : string := show_bool (wf_image (load p)).
(* positions whose local check fails, for diagnosis *)
Definition wf_bad (p : program) : string :=
  let im := load p in
  show_list show_Z (filter (fun pc => negb (check_pc im pc)) (zrange_n 0 (length (im_code im)))).
