(* Entry points evaluated by the generated cases files: C08 specification side.  The
   specification's monitor (Jobs/JobControlSpec.v) is run on the event log of the REAL
   JobControl; the verdict is "ok" or the violated checks with the position of the first. *)
From Coq Require Import ZArith String List Bool.
From Bardolph Require Import Run.Show Jobs.Threads Jobs.JobVocab Jobs.JobControlSpec.
Open Scope string_scope.
Open Scope list_scope.
Import ListNotations.
Open Scope Z_scope.

(* position (oldest = 0) of the first event at which the monitor records a violation *)
Fixpoint first_bad (n : Z) (s : astate) (chron : list sev) : Z :=
  match chron with
  | [] => -1
  | e :: r => let s' := astep s e in
              match a_bad s' with [] => first_bad (n + 1) s' r | _ => n end
  end.

Definition show_codes (l : list nat) : string := sconcat (map (fun n => show_Z (Z.of_nat n) +++ ",") l).

(* [log]: chronological; [finished]: every thread ran to its end (then the final checks apply) *)
Definition spec_case (c : list entry * bool) : string :=
  let (lg, finished) := c in
  let ev := map abs lg in                      (* chronological *)
  let s := monitor (rev ev) in
  let bad := rev (a_bad s) ++ (if finished then (if final_ok s then [] else [bad_final]) else []) in
  match bad with
  | [] => "ok"
  | _ => "BAD " +++ show_codes bad +++ "@" +++ show_Z (first_bad 0 astate0 ev)
  end.
Definition spec_cases (l : list (list entry * bool)) : string := sconcat (map (fun c => spec_case c +++ "|") l).
