(* Proofs about Io/Format.v, Io/OutputSpec.v and Io/Output.v (C19). *)
From Coq Require Import ZArith String Ascii List Bool Floats Lia.
From Bardolph Require Import Base.PyStr Run.Show Io.Format Io.OutputSpec Io.Output.
Open Scope string_scope.
Open Scope list_scope.
Import ListNotations.
Open Scope Z_scope.
Open Scope bool_scope.

(* ---------- ties to the source text (break when the source changes shape) ---------- *)

(* The source has the repaired texts: one sink object per process, a line break inside
   the text ends the line, flush forgets the separator, VmIo.reset flushes the sink,
   PRINT/PRINTF take the values pushed last, Machine.reset resets VmIo. *)
Lemma cfg_current : current_cfg = repaired_cfg.
Proof. reflexivity. Qed.

(* Every modelled method has one of the texts the model was written from. *)
Lemma source_is_known : source_known = true.
Proof. reflexivity. Qed.

Notation R := repaired_cfg.

(* ---------- strings ---------- *)

Lemma sapp_assoc a b c : (a +++ b) +++ c = a +++ (b +++ c).
Proof. induction a as [|x a IH]; cbn; [reflexivity|]. rewrite IH. reflexivity. Qed.

Lemma sapp_nil_r a : a +++ EmptyString = a.
Proof. induction a as [|x a IH]; cbn; [reflexivity|]. rewrite IH. reflexivity. Qed.

Lemma all_chars_app f a b : all_chars f (a +++ b) = all_chars f a && all_chars f b.
Proof. induction a as [|x a IH]; cbn; [reflexivity|]. rewrite IH. apply andb_assoc. Qed.

Lemma all_digits_snoc a c : all_digits (snoc a c) = all_digits a && is_digit_ascii c.
Proof. unfold all_digits, snoc. rewrite all_chars_app. cbn. rewrite andb_true_r. reflexivity. Qed.

Lemma is_positional_all_digits n : is_positional n = all_digits n.
Proof. destruct n; reflexivity. Qed.

(* ---------- the "\n" escape does not change the number of positional fields ---------- *)

Notation pc := positional_count.

Lemma pc_app a b : pc (a ++ b) = (pc a + pc b)%nat.
Proof.
  induction a as [|p a IH]; cbn; [reflexivity|].
  destruct p; [exact IH|]. destruct (is_positional name); rewrite IH; reflexivity.
Qed.

Lemma pc_rev a : pc (rev a) = pc a.
Proof.
  induction a as [|p a IH]; cbn [rev]; [reflexivity|].
  rewrite pc_app, IH. destruct p; cbn; [lia|]. destruct (is_positional name); lia.
Qed.

Lemma pc_push_lit acc out : pc (push_lit acc out) = pc out.
Proof. destruct acc; reflexivity. Qed.

Definition Rname (a b : string) : Prop := all_digits a = all_digits b.

Inductive Rmode : pmode -> pmode -> Prop :=
| RM_lit a b : Rmode (MLit a) (MLit b)
| RM_open a b : Rmode (MOpen a) (MOpen b)
| RM_close a b : Rmode (MClose a) (MClose b)
| RM_name a b : Rname a b -> Rmode (MName a) (MName b)
| RM_spec a b s t : Rname a b -> Rmode (MSpec a s) (MSpec b t).

Definition Rstep (x y : (pmode * list piece) + presult) : Prop :=
  match x, y with
  | inl a, inl b => Rmode (fst a) (fst b) /\ pc (snd a) = pc (snd b)
  | inr PError, inr PError => True
  | inr PUnsupported, inr PUnsupported => True
  | _, _ => False
  end.

Definition Rres (x y : presult) : Prop :=
  match x, y with
  | POk a, POk b => pc a = pc b
  | PError, PError => True
  | PUnsupported, PUnsupported => True
  | _, _ => False
  end.

Lemma Rname_snoc a b c : Rname a b -> Rname (snoc a c) (snoc b c).
Proof. unfold Rname. intros H. rewrite !all_digits_snoc, H. reflexivity. Qed.

Lemma pc_field n n' s s' out out' :
  Rname n n' -> pc out = pc out' -> pc (Field n s :: out) = pc (Field n' s' :: out').
Proof.
  unfold Rname. intros Hn Ho. cbn. rewrite !is_positional_all_digits, Hn, Ho. reflexivity.
Qed.

Lemma name_char_rel c n n' out out' :
  Rname n n' -> pc out = pc out' -> Rstep (name_char c n out) (name_char c n' out').
Proof.
  intros Hn Ho. unfold name_char.
  destruct (Ascii.eqb c RBRACE). { unfold Rstep; cbn [fst snd]. split; [constructor|]. apply pc_field; assumption. }
  destruct (Ascii.eqb c COLON). { cbn. split; [constructor; assumption|assumption]. }
  destruct (Ascii.eqb c BANG). { exact I. }
  destruct (Ascii.eqb c LBRACKET). { exact I. }
  destruct (Ascii.eqb c LBRACE). { exact I. }
  cbn. split; [constructor; apply Rname_snoc; assumption|assumption].
Qed.

Lemma pstep_rel c m m' out out' :
  Rmode m m' -> pc out = pc out' -> Rstep (pstep c m out) (pstep c m' out').
Proof.
  intros Hm Ho. destruct Hm; cbn [pstep].
  - destruct (Ascii.eqb c LBRACE). { cbn. split; [constructor|assumption]. }
    destruct (Ascii.eqb c RBRACE); cbn; (split; [constructor|assumption]).
  - destruct (Ascii.eqb c LBRACE). { cbn. split; [constructor|assumption]. }
    apply name_char_rel; [reflexivity|]. rewrite !pc_push_lit. assumption.
  - destruct (Ascii.eqb c RBRACE); [|exact I]. cbn. split; [constructor|assumption].
  - apply name_char_rel; assumption.
  - destruct (Ascii.eqb c RBRACE). { unfold Rstep; cbn [fst snd]. split; [constructor|]. apply pc_field; assumption. }
    destruct (Ascii.eqb c LBRACE); [exact I|]. cbn. split; [constructor; assumption|assumption].
Qed.

Lemma pfinish_rel m m' out out' :
  Rmode m m' -> pc out = pc out' -> Rres (pfinish m out) (pfinish m' out').
Proof.
  intros Hm Ho. destruct Hm; cbn; try exact I.
  rewrite !pc_rev, !pc_push_lit. assumption.
Qed.

Lemma same_char_step c r r2 :
  (forall m m' out out', Rmode m m' -> pc out = pc out' -> Rres (pgo r m out) (pgo r2 m' out')) ->
  forall m m' out out', Rmode m m' -> pc out = pc out' ->
    Rres (pgo (String c r) m out) (pgo (String c r2) m' out').
Proof.
  intros IH m m' out out' Hm Ho. cbn [pgo].
  pose proof (pstep_rel c m m' out out' Hm Ho) as Hs.
  destruct (pstep c m out) as [[m1 o1]|res1], (pstep c m' out') as [[m2 o2]|res2]; cbn in Hs.
  - destruct Hs as [H1 H2]. apply IH; assumption.
  - contradiction.
  - destruct res1; contradiction.
  - destruct res1, res2; cbn; try contradiction; exact I.
Qed.

Lemma pgo_esc_raw r m out :
  pgo (String BSL (String LOWER_N r)) m out =
  match m with
  | MLit a => pgo r (MLit (snoc (snoc a BSL) LOWER_N)) out
  | MOpen a => pgo r (MName (snoc (snoc EmptyString BSL) LOWER_N)) (push_lit a out)
  | MClose _ => PError
  | MName n => pgo r (MName (snoc (snoc n BSL) LOWER_N)) out
  | MSpec n s => pgo r (MSpec n (snoc (snoc s BSL) LOWER_N)) out
  end.
Proof. destruct m; reflexivity. Qed.

Lemma pgo_lf r m out :
  pgo (String LF r) m out =
  match m with
  | MLit a => pgo r (MLit (snoc a LF)) out
  | MOpen a => pgo r (MName (snoc EmptyString LF)) (push_lit a out)
  | MClose _ => PError
  | MName n => pgo r (MName (snoc n LF)) out
  | MSpec n s => pgo r (MSpec n (snoc s LF)) out
  end.
Proof. destruct m; reflexivity. Qed.

Lemma Rname_esc a b : Rname a b -> Rname (snoc (snoc a BSL) LOWER_N) (snoc b LF).
Proof.
  unfold Rname. intros H. rewrite !all_digits_snoc, H. cbn. rewrite !andb_false_r. reflexivity.
Qed.

Lemma pgo_unescape : forall (n : nat) s, (String.length s <= n)%nat ->
  forall m m' out out', Rmode m m' -> pc out = pc out' ->
    Rres (pgo s m out) (pgo (unescape_nl s) m' out').
Proof.
  induction n as [|n IH]; intros s Hlen m m' out out' Hm Ho.
  - destruct s; [|cbn in Hlen; lia]. cbn. apply pfinish_rel; assumption.
  - destruct s as [|c r]. { cbn. apply pfinish_rel; assumption. }
    cbn in Hlen. cbn [unescape_nl].
    destruct (Ascii.eqb c BSL) eqn:Ec.
    + apply Ascii.eqb_eq in Ec. subst c.
      destruct r as [|d r'].
      * apply same_char_step; [|assumption|assumption].
        intros. cbn. apply pfinish_rel; assumption.
      * destruct (Ascii.eqb d LOWER_N) eqn:Ed.
        -- apply Ascii.eqb_eq in Ed. subst d. cbn in Hlen.
           rewrite pgo_esc_raw, pgo_lf.
           destruct Hm.
           ++ apply IH; [lia|constructor|assumption].
           ++ apply IH; [lia|constructor; apply Rname_esc; reflexivity|]. rewrite !pc_push_lit. assumption.
           ++ exact I.
           ++ apply IH; [lia|constructor; apply Rname_esc; assumption|assumption].
           ++ apply IH; [lia|constructor; assumption|assumption].
        -- apply same_char_step; [|assumption|assumption].
           intros. apply IH; [cbn; cbn in Hlen; lia|assumption|assumption].
    + apply same_char_step; [|assumption|assumption].
      intros. apply IH; [lia|assumption|assumption].
Qed.

(* The compile-time count (on the text as written) is the count on the text the
   run-time formats (after the "\n" escape has been replaced). *)
Lemma count_unescape fmt ps :
  parse_format fmt = POk ps ->
  exists ps', parse_format (unescape_nl fmt) = POk ps' /\ pc ps' = pc ps.
Proof.
  unfold parse_format. intros H.
  pose proof (pgo_unescape (String.length fmt) fmt (le_n _) (MLit EmptyString) (MLit EmptyString) [] []
                (RM_lit _ _) eq_refl) as Hr.
  rewrite H in Hr.
  destruct (pgo (unescape_nl fmt) (MLit EmptyString) []) as [ps'| |]; cbn in Hr; try contradiction.
  exists ps'. split; [reflexivity|symmetry; exact Hr].
Qed.

Lemma compile_count_unescape fmt k ps' :
  compile_count fmt = Some k -> parse_format (unescape_nl fmt) = POk ps' -> pc ps' = k.
Proof.
  unfold compile_count. intros Hc Hp.
  destruct (parse_format fmt) as [ps| |] eqn:E; try discriminate.
  inversion Hc; subst k. destruct (count_unescape fmt ps E) as [ps2 [H1 H2]].
  rewrite Hp in H1. inversion H1; subst ps2. exact H2.
Qed.

(* ---------- printf: what VmIo._printf formats is the specification's filling ---------- *)

Lemma fres_app_ok a b t :
  fres_app a b = FOk t -> exists x y, a = FOk x /\ b = FOk y /\ t = x +++ y.
Proof.
  destruct a, b; cbn; intros H; try discriminate.
  inversion H. eexists _, _. repeat split.
Qed.

Lemma classify_named_not_positional name n : classify name = NNamed n -> is_positional name = false /\ n = name.
Proof.
  unfold classify. destruct name as [|c r]; [discriminate|].
  rewrite is_positional_all_digits.
  destruct (all_digits (String c r)); [discriminate|].
  destruct (has_char "."%char (String c r) || has_char LBRACKET (String c r)); [discriminate|].
  intros H. inversion H. split; reflexivity.
Qed.

Fixpoint field_names (ps : list piece) : list string :=
  match ps with
  | [] => []
  | Lit _ :: r => field_names r
  | Field name _ :: r => name :: field_names r
  end.

(* the run-time scan has put every keyword name of the format into `named`, with the
   value the register or variable of that name has then *)
Lemma kw_get_build ps e name :
  In name (field_names ps) -> is_positional name = false ->
  kw_get (build_named ps e) name = Some (env_get e name).
Proof.
  induction ps as [|p ps IH]; cbn [field_names build_named]; [intros []|].
  destruct p as [t|n0 s0]; [exact IH|].
  intros Hin Hpos. destruct (is_positional n0) eqn:E0.
  - destruct Hin as [Heq|Hin]; [subst n0; congruence|]. apply IH; assumption.
  - cbn [kw_get]. destruct (String.eqb n0 name) eqn:Eq.
    + apply String.eqb_eq in Eq. subst n0. reflexivity.
    + destruct Hin as [Heq|Hin]; [subst n0; rewrite String.eqb_refl in Eq; discriminate|].
      apply IH; assumption.
Qed.

(* which numbering states a (suffix of a) format can be entered in without str.format
   rejecting the mixture of "{}" and "{n}" *)
Definition numbering_ok (st : numbering) (ps : list piece) : bool :=
  match st with
  | NumInit => negb (has_auto ps && has_index ps)
  | NumAuto => negb (has_index ps)
  | NumManual => negb (has_auto ps)
  end.

Lemma fill_pieces_format ps : forall st next vals e kw t,
  (forall name, In name (field_names ps) -> is_positional name = false -> kw_get kw name = Some (env_get e name)) ->
  numbering_ok st ps = true ->
  fill_pieces ps next vals e = FOk t ->
  format_pieces ps st next vals kw = FOk t.
Proof.
  induction ps as [|p ps IH]; intros st next vals e kw t Hkw Hok Hfill.
  - exact Hfill.
  - destruct p as [lit|name spec].
    + cbn [fill_pieces format_pieces] in *.
      apply fres_app_ok in Hfill. destruct Hfill as (x & y & Hx & Hy & Ht). inversion Hx; subst x t.
      rewrite (IH st next vals e kw y); [reflexivity| |exact Hok|exact Hy].
      intros n Hin. apply Hkw. exact Hin.
    + cbn [fill_pieces format_pieces] in *.
      assert (Hkw' : forall n, In n (field_names ps) -> is_positional n = false -> kw_get kw n = Some (env_get e n)).
      { intros n Hin. apply Hkw. right. exact Hin. }
      destruct (classify name) as [|i|n|] eqn:Ec.
      * apply fres_app_ok in Hfill. destruct Hfill as (x & y & Hx & Hy & Ht). subst t.
        assert (Hst : st <> NumManual).
        { intros ->. cbn in Hok. rewrite Ec in Hok. discriminate. }
        assert (Hok' : numbering_ok NumAuto ps = true).
        { destruct st; cbn in Hok |- *; rewrite Ec in Hok; cbn in Hok.
          - destruct (has_index ps); [discriminate|reflexivity].
          - exact Hok.
          - contradiction Hst; reflexivity. }
        rewrite (IH NumAuto (next + 1) vals e kw y Hkw' Hok' Hy).
        destruct st; try (rewrite Hx; reflexivity). contradiction Hst; reflexivity.
      * apply fres_app_ok in Hfill. destruct Hfill as (x & y & Hx & Hy & Ht). subst t.
        assert (Hst : st <> NumAuto).
        { intros ->. cbn in Hok. rewrite Ec in Hok. discriminate. }
        assert (Hok' : numbering_ok NumManual ps = true).
        { destruct st; cbn in Hok |- *; rewrite Ec in Hok; cbn in Hok.
          - destruct (has_auto ps); [|reflexivity]. cbn in Hok. discriminate.
          - contradiction Hst; reflexivity.
          - exact Hok. }
        rewrite (IH NumManual next vals e kw y Hkw' Hok' Hy).
        destruct st; try (rewrite Hx; reflexivity). contradiction Hst; reflexivity.
      * apply fres_app_ok in Hfill. destruct Hfill as (x & y & Hx & Hy & Ht). subst t.
        destruct (classify_named_not_positional _ _ Ec) as [Hnp Hn]. subst n.
        rewrite (Hkw name (or_introl eq_refl) Hnp). cbn [fmt_opt]. rewrite Hx.
        assert (Hok' : numbering_ok st ps = true).
        { destruct st; cbn in Hok |- *; rewrite Ec in Hok; exact Hok. }
        rewrite (IH st next vals e kw y Hkw' Hok' Hy). reflexivity.
      * discriminate.
Qed.

(* spec => model: when the specification gives a text for a printf, the run-time
   format call (replace, named scan, str.format) gives that text *)
Lemma printf_text_model fmt vals e t :
  fill fmt vals e = FOk t ->
  exists ps, parse_format (unescape_nl fmt) = POk ps /\
             py_format (unescape_nl fmt) vals (build_named ps e) = FOk t.
Proof.
  unfold fill, py_format.
  destruct (parse_format (unescape_nl fmt)) as [ps| |] eqn:Ep; try discriminate.
  intros H. exists ps. split; [reflexivity|].
  destruct (fill_pieces ps 0 vals e) as [t'| |] eqn:Ef; try discriminate.
  - destruct (has_auto ps && has_index ps) eqn:Emix; [discriminate|].
    inversion H; subst t'.
    apply (fill_pieces_format ps NumInit 0 vals e (build_named ps e) t); [| |exact Ef].
    + intros name Hin Hpos. apply kw_get_build; assumption.
    + cbn. rewrite Emix. reflexivity.
  - destruct (has_auto ps && has_index ps); discriminate.
Qed.

Lemma format_pieces_fill ps : forall st next vals e kw t,
  (forall name, In name (field_names ps) -> is_positional name = false -> kw_get kw name = Some (env_get e name)) ->
  format_pieces ps st next vals kw = FOk t ->
  fill_pieces ps next vals e = FOk t /\ numbering_ok st ps = true.
Proof.
  induction ps as [|p ps IH]; intros st next vals e kw t Hkw Hf.
  - split; [exact Hf|]. destruct st; reflexivity.
  - destruct p as [lit|name spec].
    + cbn [fill_pieces format_pieces] in *.
      apply fres_app_ok in Hf. destruct Hf as (x & y & Hx & Hy & Ht). inversion Hx; subst x t.
      destruct (IH st next vals e kw y) as [H1 H2]; [intros n Hin; apply Hkw; exact Hin|exact Hy|].
      rewrite H1. split; [reflexivity|]. destruct st; exact H2.
    + cbn [fill_pieces format_pieces] in *.
      assert (Hkw' : forall n, In n (field_names ps) -> is_positional n = false -> kw_get kw n = Some (env_get e n)).
      { intros n Hin. apply Hkw. right. exact Hin. }
      destruct (classify name) as [|i|n|] eqn:Ec.
      * apply fres_app_ok in Hf. destruct Hf as (x & y & Hx & Hy & Ht). subst t.
        destruct (IH NumAuto (next + 1) vals e kw y Hkw' Hy) as [H1 H2]. rewrite H1.
        destruct st; try discriminate; rewrite Hx; (split; [reflexivity|]); cbn; rewrite Ec; cbn; cbn in H2; exact H2.
      * apply fres_app_ok in Hf. destruct Hf as (x & y & Hx & Hy & Ht). subst t.
        destruct (IH NumManual next vals e kw y Hkw' Hy) as [H1 H2]. rewrite H1.
        destruct st; try discriminate; rewrite Hx; (split; [reflexivity|]); cbn; rewrite Ec; cbn; cbn in H2.
        -- destruct (has_auto ps); [discriminate|reflexivity].
        -- exact H2.
      * apply fres_app_ok in Hf. destruct Hf as (x & y & Hx & Hy & Ht). subst t.
        destruct (classify_named_not_positional _ _ Ec) as [Hnp Hn]. subst n.
        rewrite (Hkw name (or_introl eq_refl) Hnp) in Hx. cbn [fmt_opt] in Hx. rewrite Hx.
        destruct (IH st next vals e kw y Hkw' Hy) as [H1 H2]. rewrite H1.
        split; [reflexivity|]. destruct st; cbn; rewrite Ec; exact H2.
      * discriminate.
Qed.

(* model => spec *)
Lemma printf_text_spec fmt vals e ps t :
  parse_format (unescape_nl fmt) = POk ps ->
  py_format (unescape_nl fmt) vals (build_named ps e) = FOk t ->
  fill fmt vals e = FOk t.
Proof.
  unfold fill, py_format. intros Hp. rewrite Hp. intros Hf.
  destruct (format_pieces_fill ps NumInit 0 vals e (build_named ps e) t) as [H1 H2]; [|exact Hf|].
  - intros name Hin Hpos. apply kw_get_build; assumption.
  - rewrite H1. cbn in H2. destruct (has_auto ps && has_index ps); [discriminate|reflexivity].
Qed.

(* ---------- induction over events with nested argument lists ---------- *)

Section EvInd.
  Variables (P : out_event -> Prop) (Q : arg -> Prop).
  Hypotheses (H0 : P EPrint0) (H1 : forall a, Q a -> P (EPrint a))
             (H2 : P EPrintln0) (H3 : forall a, Q a -> P (EPrintln a))
             (H4 : forall fmt args en, Forall Q args -> P (EPrintf fmt args en))
             (H5 : forall d, P (EDevice d))
             (HA : forall pre v, Forall P pre -> Q (Arg pre v)).
  Fixpoint ev_ind' (e : out_event) : P e :=
    match e with
    | EPrint0 => H0
    | EPrint a => H1 a (arg_ind' a)
    | EPrintln0 => H2
    | EPrintln a => H3 a (arg_ind' a)
    | EPrintf fmt args en =>
        H4 fmt args en ((fix F (l : list arg) : Forall Q l :=
                           match l with
                           | [] => Forall_nil Q
                           | a :: r => Forall_cons a (arg_ind' a) (F r)
                           end) args)
    | EDevice d => H5 d
    end
  with arg_ind' (a : arg) : Q a :=
    match a with
    | Arg pre v =>
        HA pre v ((fix F (l : list out_event) : Forall P l :=
                     match l with
                     | [] => Forall_nil P
                     | e :: r => Forall_cons e (ev_ind' e) (F r)
                     end) pre)
    end.
  Lemma evs_ind' : forall l, Forall P l.
  Proof. induction l; constructor; [apply ev_ind'|assumption]. Qed.
End EvInd.

(* unfolding equations for the nested fixpoints *)
Lemma sem_arg_eq pre v s : sem_arg (Arg pre v) s = sem_evs pre s.
Proof. reflexivity. Qed.

Lemma sem_printf_eq fmt args en s :
  sem_ev (EPrintf fmt args en) s =
  match sem_args args s with
  | Some s1 =>
      match compile_count fmt with
      | Some k =>
          if Nat.eqb k (length args) then
            match fill fmt (map arg_val args) en with
            | FOk t => Some (add_output t s1)
            | _ => None
            end
          else None
      | None => None
      end
  | None => None
  end.
Proof. reflexivity. Qed.

Lemma compile_arg_eq pre v : compile_arg (Arg pre v) = compile_evs pre ++ [OpRegister v].
Proof. reflexivity. Qed.

Lemma compile_printf_eq fmt args en :
  compile_ev (EPrintf fmt args en) = compile_args args ++ [OpPrintf fmt en].
Proof. reflexivity. Qed.

(* ---------- the invariant between the lines of the specification and the sink ---------- *)

Definition is_nil {A} (l : list A) : bool := match l with [] => true | _ => false end.

(* the text written so far is the text of the lines; a separator is pending exactly
   when the current line already has an output on it; the device marks agree *)
Definition rel (s : lines) (st : iostate) : Prop :=
  written st = text_of s /\ line_pending st = negb (is_nil (open_line s)) /\ marks st = dev_marks s.

Lemma join_sp_snoc l t :
  join_sp (l ++ [t]) = match l with [] => t | _ => join_sp l +++ " " +++ t end.
Proof.
  induction l as [|x l IH]; [reflexivity|].
  destruct l as [|y l]; [reflexivity|].
  change (join_sp ((x :: y :: l) ++ [t])) with (x +++ " " +++ join_sp ((y :: l) ++ [t])).
  rewrite IH.
  change (join_sp (x :: y :: l)) with (x +++ " " +++ join_sp (y :: l)).
  rewrite !sapp_assoc. reflexivity.
Qed.

Lemma rel_sink_out s st t : rel s st -> rel (add_output t s) (sink_out R t st).
Proof.
  intros (Hw & Hp & Hm). unfold rel, sink_out, add_output, text_of.
  cbn [written line_pending marks set_sink c_out_tracks_nl repaired_cfg].
  rewrite Hw, Hp, Hm. unfold text_of.
  destruct (ends_nl t); cbn [closed open_line dev_marks negb is_nil].
  - rewrite join_sp_snoc. destruct (open_line s) as [|x l]; cbn [is_nil negb join_sp].
    + split; [|split; reflexivity]. rewrite !sapp_nil_r. reflexivity.
    + split; [|split; reflexivity]. rewrite !sapp_nil_r, !sapp_assoc. reflexivity.
  - rewrite join_sp_snoc. destruct (open_line s) as [|x l]; cbn [is_nil negb join_sp app].
    + split; [|split; reflexivity]. rewrite !sapp_nil_r. reflexivity.
    + split; [|split; [destruct l; reflexivity|reflexivity]]. rewrite !sapp_assoc. reflexivity.
Qed.

Lemma rel_sink_newline s st : rel s st -> rel (end_line s) (sink_newline st).
Proof.
  intros (Hw & Hp & Hm). unfold rel, sink_newline, end_line, text_of.
  cbn [written line_pending marks set_sink closed open_line dev_marks is_nil negb join_sp].
  rewrite Hw, Hm. unfold text_of. rewrite !sapp_nil_r, !sapp_assoc. repeat split.
Qed.

Lemma rel_add_mark s st d : rel s st -> rel (device d s) (add_mark st d).
Proof.
  intros (Hw & Hp & Hm). unfold rel, add_mark, device, text_of.
  cbn [written line_pending marks closed open_line dev_marks].
  rewrite Hw, Hp, Hm. repeat split.
Qed.

Lemma rel_set_unnamed s st u : rel s st -> rel s (set_unnamed st u).
Proof. intros H. exact H. Qed.

(* ---------- single instructions under the repaired texts ---------- *)

Lemma run_ops_app c a b st : run_ops c (a ++ b) st = run_ops c b (run_ops c a st).
Proof. unfold run_ops. apply fold_left_app. Qed.

Lemma vm_out_register v st :
  aborted st = false -> vm_out R (OpRegister v) st = set_unnamed st (unnamed st ++ [v]).
Proof. intros H. unfold vm_out. rewrite H. reflexivity. Qed.

Lemma last_opt_snoc {A} (l : list A) x : last_opt (l ++ [x]) = Some x.
Proof.
  induction l as [|y l IH]; [reflexivity|].
  cbn [app last_opt]. destruct (l ++ [x]) eqn:E; [destruct l; discriminate|]. exact IH.
Qed.

Lemma vm_out_print u v st :
  aborted st = false -> unnamed st = u ++ [v] ->
  vm_out R OpPrint st = set_unnamed (sink_out R (py_str v) st) u.
Proof.
  intros H Hu. unfold vm_out. rewrite H.
  cbn [provide c_one_sink c_print_takes_last repaired_cfg].
  rewrite Hu, last_opt_snoc, removelast_last. reflexivity.
Qed.

Lemma vm_out_print_end st : aborted st = false -> vm_out R OpPrintEnd st = sink_newline st.
Proof. intros H. unfold vm_out. rewrite H. reflexivity. Qed.

Lemma vm_out_device d st : aborted st = false -> vm_out R (OpDevice d) st = add_mark st d.
Proof. intros H. unfold vm_out. rewrite H. reflexivity. Qed.

Lemma vm_out_printf fmt en u vals t st :
  aborted st = false -> unnamed st = u ++ vals ->
  compile_count fmt = Some (length vals) ->
  fill fmt vals en = FOk t ->
  vm_out R (OpPrintf fmt en) st = set_unnamed (sink_out R t st) u.
Proof.
  intros H Hu Hc Hf. unfold vm_out. rewrite H.
  cbn [provide c_one_sink repaired_cfg]. unfold vm_printf.
  cbn [provide c_one_sink c_printf_takes_last_k repaired_cfg].
  destruct (printf_text_model fmt vals en t Hf) as (ps & Hp & Hpy).
  rewrite Hp.
  rewrite (compile_count_unescape fmt (length vals) ps Hc Hp).
  rewrite Hu, app_length.
  replace (length u + length vals - length vals)%nat with (length u + 0)%nat by lia.
  rewrite firstn_app_2, skipn_app.
  replace (length u + 0 - length u)%nat with 0%nat by lia.
  rewrite skipn_all2 by lia. cbn [firstn skipn app]. rewrite app_nil_r.
  rewrite Hpy. reflexivity.
Qed.

(* ---------- the compiled statements against the specification (frame lemma) ---------- *)

(* Running the instructions of a statement from a state that corresponds to the
   specification's lines leads to a state that corresponds to the lines after the
   statement, WHATEVER values are pending below (they are left alone): this is what
   makes output statements inside routines called from an argument list harmless. *)
Definition ev_ok (e : out_event) : Prop :=
  forall s s' st, sem_ev e s = Some s' -> rel s st -> aborted st = false ->
    rel s' (run_ops R (compile_ev e) st) /\
    unnamed (run_ops R (compile_ev e) st) = unnamed st /\
    aborted (run_ops R (compile_ev e) st) = false.

Definition arg_ok (a : arg) : Prop :=
  forall s s' st, sem_arg a s = Some s' -> rel s st -> aborted st = false ->
    rel s' (run_ops R (compile_arg a) st) /\
    unnamed (run_ops R (compile_arg a) st) = unnamed st ++ [arg_val a] /\
    aborted (run_ops R (compile_arg a) st) = false.

Definition evs_ok (l : list out_event) : Prop :=
  forall s s' st, sem_evs l s = Some s' -> rel s st -> aborted st = false ->
    rel s' (run_ops R (compile_evs l) st) /\
    unnamed (run_ops R (compile_evs l) st) = unnamed st /\
    aborted (run_ops R (compile_evs l) st) = false.

Definition args_ok (l : list arg) : Prop :=
  forall s s' st, sem_args l s = Some s' -> rel s st -> aborted st = false ->
    rel s' (run_ops R (compile_args l) st) /\
    unnamed (run_ops R (compile_args l) st) = unnamed st ++ map arg_val l /\
    aborted (run_ops R (compile_args l) st) = false.

Lemma evs_ok_Forall l : Forall ev_ok l -> evs_ok l.
Proof.
  induction 1 as [|e l He Hl IH]; intros s s' st Hs Hr Ha.
  - cbn in Hs. inversion Hs; subst s'. cbn. auto.
  - cbn [sem_evs] in Hs. destruct (sem_ev e s) as [s1|] eqn:E1; [|discriminate].
    cbn [compile_evs]. rewrite run_ops_app.
    destruct (He s s1 st E1 Hr Ha) as (Hr1 & Hu1 & Ha1).
    destruct (IH s1 s' _ Hs Hr1 Ha1) as (Hr2 & Hu2 & Ha2).
    split; [exact Hr2|]. split; [rewrite Hu2; exact Hu1|exact Ha2].
Qed.

Lemma args_ok_Forall l : Forall arg_ok l -> args_ok l.
Proof.
  induction 1 as [|a l Ha0 Hl IH]; intros s s' st Hs Hr Ha.
  - cbn in Hs. inversion Hs; subst s'. cbn. rewrite app_nil_r. auto.
  - cbn [sem_args] in Hs. destruct (sem_arg a s) as [s1|] eqn:E1; [|discriminate].
    cbn [compile_args]. rewrite run_ops_app.
    destruct (Ha0 s s1 st E1 Hr Ha) as (Hr1 & Hu1 & Ha1).
    destruct (IH s1 s' _ Hs Hr1 Ha1) as (Hr2 & Hu2 & Ha2).
    split; [exact Hr2|]. split; [|exact Ha2].
    rewrite Hu2, Hu1. cbn [map]. rewrite <- app_assoc. reflexivity.
Qed.

Lemma aborted_sink_out t st : aborted (sink_out R t st) = aborted st.
Proof. reflexivity. Qed.

Lemma ev_ok_all : forall e, ev_ok e.
Proof.
  apply (ev_ind' ev_ok arg_ok).
  - (* print *)
    intros s s' st Hs Hr Ha. cbn in Hs. inversion Hs; subst s'. cbn. auto.
  - (* print e *)
    intros a Qa s s' st Hs Hr Ha. cbn [sem_ev] in Hs.
    destruct (sem_arg a s) as [s1|] eqn:E1; [|discriminate]. inversion Hs; subst s'.
    cbn [compile_ev]. rewrite run_ops_app.
    destruct (Qa s s1 st E1 Hr Ha) as (Hr1 & Hu1 & Ha1).
    set (st1 := run_ops R (compile_arg a) st) in *.
    change (run_ops R [OpPrint] st1) with (vm_out R OpPrint st1).
    rewrite (vm_out_print (unnamed st) (arg_val a) st1 Ha1 Hu1).
    split; [apply rel_set_unnamed, rel_sink_out; exact Hr1|]. split; [reflexivity|exact Ha1].
  - (* println *)
    intros s s' st Hs Hr Ha. cbn in Hs. inversion Hs; subst s'.
    change (run_ops R (compile_ev EPrintln0) st) with (vm_out R OpPrintEnd st).
    rewrite (vm_out_print_end st Ha).
    split; [apply rel_sink_newline; exact Hr|]. split; [reflexivity|exact Ha].
  - (* println e *)
    intros a Qa s s' st Hs Hr Ha. cbn [sem_ev] in Hs.
    destruct (sem_arg a s) as [s1|] eqn:E1; [|discriminate]. inversion Hs; subst s'.
    cbn [compile_ev]. rewrite run_ops_app.
    destruct (Qa s s1 st E1 Hr Ha) as (Hr1 & Hu1 & Ha1).
    set (st1 := run_ops R (compile_arg a) st) in *.
    change (run_ops R [OpPrint; OpPrintEnd] st1) with (vm_out R OpPrintEnd (vm_out R OpPrint st1)).
    rewrite (vm_out_print (unnamed st) (arg_val a) st1 Ha1 Hu1).
    rewrite vm_out_print_end by exact Ha1.
    split; [apply rel_sink_newline, rel_set_unnamed, rel_sink_out; exact Hr1|].
    split; [reflexivity|exact Ha1].
  - (* printf *)
    intros fmt args en Qargs s s' st Hs Hr Ha. rewrite sem_printf_eq in Hs.
    destruct (sem_args args s) as [s1|] eqn:E1; [|discriminate].
    destruct (compile_count fmt) as [k|] eqn:Ec; [|discriminate].
    destruct (Nat.eqb k (length args)) eqn:Ek; [|discriminate].
    destruct (fill fmt (map arg_val args) en) as [t| |] eqn:Ef; try discriminate.
    inversion Hs; subst s'. apply Nat.eqb_eq in Ek. subst k.
    rewrite compile_printf_eq, run_ops_app.
    destruct (args_ok_Forall args Qargs s s1 st E1 Hr Ha) as (Hr1 & Hu1 & Ha1).
    set (st1 := run_ops R (compile_args args) st) in *.
    change (run_ops R [OpPrintf fmt en] st1) with (vm_out R (OpPrintf fmt en) st1).
    rewrite (vm_out_printf fmt en (unnamed st) (map arg_val args) t st1 Ha1 Hu1); [| |exact Ef].
    + split; [apply rel_set_unnamed, rel_sink_out; exact Hr1|]. split; [reflexivity|exact Ha1].
    + rewrite map_length. exact Ec.
  - (* device *)
    intros d s s' st Hs Hr Ha. cbn in Hs. inversion Hs; subst s'.
    change (run_ops R (compile_ev (EDevice d)) st) with (vm_out R (OpDevice d) st).
    rewrite (vm_out_device d st Ha).
    split; [apply rel_add_mark; exact Hr|]. split; [reflexivity|exact Ha].
  - (* argument *)
    intros pre v Ppre s s' st Hs Hr Ha. rewrite sem_arg_eq in Hs.
    rewrite compile_arg_eq, run_ops_app.
    destruct (evs_ok_Forall pre Ppre s s' st Hs Hr Ha) as (Hr1 & Hu1 & Ha1).
    set (st1 := run_ops R (compile_evs pre) st) in *.
    change (run_ops R [OpRegister v] st1) with (vm_out R (OpRegister v) st1).
    rewrite (vm_out_register v st1 Ha1).
    split; [apply rel_set_unnamed; exact Hr1|]. split; [cbn; rewrite Hu1; reflexivity|exact Ha1].
Qed.

Lemma evs_ok_all l : evs_ok l.
Proof. apply evs_ok_Forall. apply Forall_forall. intros e _. apply ev_ok_all. Qed.

(* ---------- one job, several jobs ---------- *)

Lemma execute_eq ops st0 :
  execute R ops st0 =
  let st := run_ops R ops (vm_reset R (set_aborted st0 false)) in
  if aborted st then st else vm_flush R st.
Proof. reflexivity. Qed.

Lemma fold_out_rel l : forall s st,
  rel s st ->
  rel (fold_left (fun s v => add_output (py_str v) s) l s)
      (fold_left (fun s v => sink_out R (py_str v) s) l st).
Proof.
  induction l as [|v l IH]; intros s st H; [exact H|].
  cbn [fold_left]. apply IH. apply rel_sink_out. exact H.
Qed.

Lemma fold_out_aborted l : forall st,
  aborted (fold_left (fun s v => sink_out R (py_str v) s) l st) = aborted st.
Proof. induction l as [|v l IH]; intros st; [reflexivity|]. cbn [fold_left]. rewrite IH. reflexivity. Qed.

Lemma fold_out_marks l : forall st,
  marks (fold_left (fun s v => sink_out R (py_str v) s) l st) = marks st.
Proof. induction l as [|v l IH]; intros st; [reflexivity|]. cbn [fold_left]. rewrite IH. reflexivity. Qed.

(* VmIo.flush: every pending value is written as one more output of the line, nothing
   stays pending, and the separator is forgotten. *)
Lemma flush_spec s st :
  rel s st ->
  written (vm_flush R st) = text_of (fold_left (fun s v => add_output (py_str v) s) (unnamed st) s) /\
  unnamed (vm_flush R st) = [] /\
  line_pending (vm_flush R st) = false /\
  aborted (vm_flush R st) = aborted st /\
  marks (vm_flush R st) = marks st.
Proof.
  intros H. unfold vm_flush. cbn [provide c_one_sink c_flush_flushes_sink repaired_cfg].
  pose proof (fold_out_rel (unnamed st) s st H) as (Hw & _ & _).
  pose proof (fold_out_aborted (unnamed st) st) as Ha.
  pose proof (fold_out_marks (unnamed st) st) as Hmk.
  set (st1 := fold_left (fun s v => sink_out R (py_str v) s) (unnamed st) st) in *.
  unfold vm_reset. cbn [c_reset_flushes_sink repaired_cfg provide c_one_sink sink_flush c_sink_flush_forgets
                        written unnamed line_pending aborted marks set_sink set_unnamed].
  repeat split; assumption.
Qed.

Lemma job_from evs st s0 s' :
  rel s0 (vm_reset R (set_aborted (new_job st) false)) ->
  sem_evs evs s0 = Some s' ->
  written (run_job R evs st) = text_of s' /\
  marks (run_job R evs st) = dev_marks s' /\
  line_pending (run_job R evs st) = false /\
  unnamed (run_job R evs st) = [] /\
  aborted (run_job R evs st) = false.
Proof.
  intros Hr Hs. unfold run_job. rewrite execute_eq. cbv zeta.
  set (st0 := vm_reset R (set_aborted (new_job st) false)) in *.
  assert (Ha0 : aborted st0 = false) by reflexivity.
  assert (Hu0 : unnamed st0 = []) by reflexivity.
  destruct (evs_ok_all evs s0 s' st0 Hs Hr Ha0) as (Hr1 & Hu1 & Ha1).
  set (st1 := run_ops R (compile_evs evs) st0) in *.
  rewrite Ha1.
  destruct (flush_spec s' st1 Hr1) as (Hw & Hu & Hp & Hab & Hm).
  rewrite Hu1, Hu0 in Hw. cbn [fold_left] in Hw.
  destruct Hr1 as (_ & _ & Hm1).
  repeat split; try assumption; congruence.
Qed.

Lemma rel_initial : rel no_lines (vm_reset R (set_aborted (new_job init_state) false)).
Proof. repeat split. Qed.

(* Every sequence of statements the specification speaks about: the bytes on standard
   output after the job are the specification's text, the run has not aborted. *)
Lemma stdout_text_R events t :
  render_spec events = Some t ->
  written (run_io R events) = t /\ aborted (run_io R events) = false.
Proof.
  unfold render_spec, run_io. destruct (sem_evs events no_lines) as [s'|] eqn:E; [|discriminate].
  intros H. inversion H; subst t.
  destruct (job_from events init_state no_lines s' rel_initial E) as (Hw & _ & _ & _ & Ha).
  split; assumption.
Qed.

Lemma output_order_R events m :
  marks_spec events = Some m -> marks (run_io R events) = m.
Proof.
  unfold marks_spec, run_io. destruct (sem_evs events no_lines) as [s'|] eqn:E; [|discriminate].
  intros H. inversion H; subst m.
  destruct (job_from events init_state no_lines s' rel_initial E) as (_ & Hm & _). exact Hm.
Qed.

Lemma flush_everything_R events t :
  render_spec events = Some t ->
  unnamed (run_io R events) = [] /\ line_pending (run_io R events) = false.
Proof.
  unfold render_spec, run_io. destruct (sem_evs events no_lines) as [s'|] eqn:E; [|discriminate].
  intros _.
  destruct (job_from events init_state no_lines s' rel_initial E) as (_ & _ & Hp & Hu & _).
  split; assumption.
Qed.

(* the specification does not depend on what earlier jobs have written *)
Definition shifted (w : string) (a b : lines) : Prop :=
  closed b = w +++ closed a /\ open_line b = open_line a.

Lemma shifted_add_output w t a b : shifted w a b -> shifted w (add_output t a) (add_output t b).
Proof.
  intros [Hc Ho]. unfold shifted, add_output. rewrite Ho.
  destruct (ends_nl t); cbn [closed open_line]; (split; [|reflexivity]).
  - rewrite Hc, sapp_assoc. reflexivity.
  - exact Hc.
Qed.

Lemma shifted_end_line w a b : shifted w a b -> shifted w (end_line a) (end_line b).
Proof.
  intros [Hc Ho]. unfold shifted, end_line. cbn [closed open_line]. rewrite Ho, Hc, !sapp_assoc. split; reflexivity.
Qed.

Definition ev_shift (e : out_event) : Prop :=
  forall w a a' b, sem_ev e a = Some a' -> shifted w a b -> exists b', sem_ev e b = Some b' /\ shifted w a' b'.
Definition arg_shift (x : arg) : Prop :=
  forall w a a' b, sem_arg x a = Some a' -> shifted w a b -> exists b', sem_arg x b = Some b' /\ shifted w a' b'.
Definition evs_shift (l : list out_event) : Prop :=
  forall w a a' b, sem_evs l a = Some a' -> shifted w a b -> exists b', sem_evs l b = Some b' /\ shifted w a' b'.
Definition args_shift (l : list arg) : Prop :=
  forall w a a' b, sem_args l a = Some a' -> shifted w a b -> exists b', sem_args l b = Some b' /\ shifted w a' b'.

Lemma evs_shift_Forall l : Forall ev_shift l -> evs_shift l.
Proof.
  induction 1 as [|e l He Hl IH]; intros w a a' b Hs Hsh.
  - cbn in Hs. inversion Hs; subst a'. exists b. split; [reflexivity|exact Hsh].
  - cbn [sem_evs] in *. destruct (sem_ev e a) as [a1|] eqn:E1; [|discriminate].
    destruct (He w a a1 b E1 Hsh) as (b1 & Hb1 & Hsh1). rewrite Hb1. apply (IH w a1 a' b1 Hs Hsh1).
Qed.

Lemma args_shift_Forall l : Forall arg_shift l -> args_shift l.
Proof.
  induction 1 as [|x l Hx Hl IH]; intros w a a' b Hs Hsh.
  - cbn in Hs. inversion Hs; subst a'. exists b. split; [reflexivity|exact Hsh].
  - cbn [sem_args] in *. destruct (sem_arg x a) as [a1|] eqn:E1; [|discriminate].
    destruct (Hx w a a1 b E1 Hsh) as (b1 & Hb1 & Hsh1). rewrite Hb1. apply (IH w a1 a' b1 Hs Hsh1).
Qed.

Lemma ev_shift_all : forall e, ev_shift e.
Proof.
  apply (ev_ind' ev_shift arg_shift).
  - intros w a a' b Hs Hsh. cbn in *. inversion Hs; subst a'. exists b. split; [reflexivity|exact Hsh].
  - intros x Qx w a a' b Hs Hsh. cbn [sem_ev] in *.
    destruct (sem_arg x a) as [a1|] eqn:E1; [|discriminate]. inversion Hs; subst a'.
    destruct (Qx w a a1 b E1 Hsh) as (b1 & Hb1 & Hsh1). rewrite Hb1.
    eexists. split; [reflexivity|]. apply shifted_add_output. exact Hsh1.
  - intros w a a' b Hs Hsh. cbn in *. inversion Hs; subst a'.
    eexists. split; [reflexivity|]. apply shifted_end_line. exact Hsh.
  - intros x Qx w a a' b Hs Hsh. cbn [sem_ev] in *.
    destruct (sem_arg x a) as [a1|] eqn:E1; [|discriminate]. inversion Hs; subst a'.
    destruct (Qx w a a1 b E1 Hsh) as (b1 & Hb1 & Hsh1). rewrite Hb1.
    eexists. split; [reflexivity|]. apply shifted_end_line, shifted_add_output. exact Hsh1.
  - intros fmt args en Qargs w a a' b Hs Hsh. rewrite sem_printf_eq in *.
    destruct (sem_args args a) as [a1|] eqn:E1; [|discriminate].
    destruct (args_shift_Forall args Qargs w a a1 b E1 Hsh) as (b1 & Hb1 & Hsh1). rewrite Hb1.
    destruct (compile_count fmt) as [k|]; [|discriminate].
    destruct (Nat.eqb k (length args)); [|discriminate].
    destruct (fill fmt (map arg_val args) en) as [t| |]; try discriminate.
    inversion Hs; subst a'. eexists. split; [reflexivity|]. apply shifted_add_output. exact Hsh1.
  - intros d w a a' b Hs Hsh. cbn in *. inversion Hs; subst a'.
    eexists. split; [reflexivity|]. exact Hsh.
  - intros pre v Ppre w a a' b Hs Hsh. rewrite sem_arg_eq in *.
    apply (evs_shift_Forall pre Ppre w a a' b Hs Hsh).
Qed.

Lemma evs_shift_all l : evs_shift l.
Proof. apply evs_shift_Forall. apply Forall_forall. intros e _. apply ev_shift_all. Qed.

(* One job started in a process where earlier jobs have left ANY sink state (text,
   pending separator, even an aborted run): it adds exactly its own text. *)
Lemma job_text_R evs st t :
  render_spec evs = Some t ->
  written (run_job R evs st) = written st +++ t /\
  line_pending (run_job R evs st) = false /\
  unnamed (run_job R evs st) = [] /\
  aborted (run_job R evs st) = false.
Proof.
  unfold render_spec. destruct (sem_evs evs no_lines) as [s'|] eqn:E; [|discriminate].
  intros H. inversion H; subst t.
  set (s0 := {| closed := written st; open_line := []; dev_marks := marks st |}).
  assert (Hsh : shifted (written st) no_lines s0).
  { split; [cbn; rewrite sapp_nil_r; reflexivity|reflexivity]. }
  destruct (evs_shift_all evs (written st) no_lines s' s0 E Hsh) as (b' & Hb & [Hc Ho]).
  assert (Hr : rel s0 (vm_reset R (set_aborted (new_job st) false))).
  { repeat split. cbn. rewrite sapp_nil_r. reflexivity. }
  destruct (job_from evs st s0 b' Hr Hb) as (Hw & _ & Hp & Hu & Ha).
  repeat split; try assumption.
  rewrite Hw. unfold text_of. rewrite Hc, Ho, sapp_assoc. reflexivity.
Qed.

Lemma jobs_text_from jobs : forall st t,
  render_jobs_spec jobs = Some t ->
  written (fold_left (fun st evs => run_job R evs st) jobs st) = written st +++ t.
Proof.
  induction jobs as [|j jobs IH]; intros st t H.
  - cbn in H. inversion H. cbn. rewrite sapp_nil_r. reflexivity.
  - cbn [render_jobs_spec] in H.
    destruct (render_spec j) as [a|] eqn:Ea; [|discriminate].
    destruct (render_jobs_spec jobs) as [b|] eqn:Eb; [|discriminate].
    inversion H; subst t. cbn [fold_left].
    rewrite (IH (run_job R j st) b eq_refl).
    destruct (job_text_R j st a Ea) as (Hw & _). rewrite Hw, sapp_assoc. reflexivity.
Qed.

Lemma jobs_text_R jobs t :
  render_jobs_spec jobs = Some t -> written (run_jobs R jobs) = t.
Proof. intros H. unfold run_jobs. rewrite (jobs_text_from jobs init_state t H). reflexivity. Qed.

(* ---------- the compile-time count and the values a format consumes ---------- *)

Lemma positional_classify name :
  is_positional name = match classify name with NAuto | NIndex _ => true | _ => false end.
Proof.
  rewrite is_positional_all_digits. unfold classify. destruct name as [|c r]; [reflexivity|].
  destruct (all_digits (String c r)); [reflexivity|].
  destruct (has_char "."%char (String c r) || has_char LBRACKET (String c r)); reflexivity.
Qed.

Lemma skipn_nth {A} (l : list A) : forall n, (n < length l)%nat ->
  exists v, nth_error l n = Some v /\ skipn n l = v :: skipn (S n) l.
Proof.
  induction l as [|x l IH]; intros n Hn; [cbn in Hn; lia|].
  destruct n as [|n].
  - exists x. split; reflexivity.
  - cbn in Hn. destruct (IH n) as (v & H1 & H2); [lia|]. exists v. split; [exact H1|exact H2].
Qed.

Lemma nth_z_nat {A} (l : list A) n v : nth_error l n = Some v -> nth_z l (Z.of_nat n) = Some v.
Proof.
  intros H. unfold nth_z.
  assert (Hn : (n < length l)%nat) by (apply nth_error_Some; congruence).
  destruct (0 <=? Z.of_nat n) eqn:E1; [|apply Z.leb_gt in E1; lia].
  destruct (Z.of_nat n <? Z.of_nat (length l)) eqn:E2; [|apply Z.ltb_ge in E2; lia].
  cbn. rewrite Nat2Z.id. exact H.
Qed.

(* With as many values as there are positional fields, and no numbered field, every
   "{}" takes the next value, the values never run out and none is left over. *)
Lemma fill_in_order_spec e ps : forall n vals,
  has_index ps = false -> length vals = (n + positional_count ps)%nat ->
  exists x, fill_in_order ps (skipn n vals) e = Some (x, []) /\
            fill_pieces ps (Z.of_nat n) vals e = x.
Proof.
  induction ps as [|p ps IH]; intros n vals Hi Hl.
  - cbn in Hl. exists (FOk EmptyString). cbn. rewrite skipn_all2 by lia. split; reflexivity.
  - destruct p as [t|name spec].
    + cbn in Hi, Hl. destruct (IH n vals Hi Hl) as (x & H1 & H2).
      exists (fres_app (FOk t) x). cbn [fill_in_order fill_pieces]. rewrite H1, H2. split; reflexivity.
    + cbn [has_index positional_count fill_in_order fill_pieces] in *.
      rewrite positional_classify in Hl.
      destruct (classify name) as [|i|nm|] eqn:Ec.
      * destruct (skipn_nth vals n) as (v & Hv & Hs); [lia|].
        rewrite Hs. destruct (IH (S n) vals Hi) as (x & H1 & H2); [lia|].
        rewrite H1. eexists. split; [reflexivity|].
        rewrite (nth_z_nat vals n v Hv). cbn [fmt_opt].
        replace (Z.of_nat n + 1) with (Z.of_nat (S n)) by lia. rewrite H2. reflexivity.
      * discriminate.
      * destruct (IH n vals Hi) as (x & H1 & H2); [lia|]. rewrite H1, H2. eexists. split; reflexivity.
      * destruct (IH n vals Hi) as (x & H1 & H2); [lia|]. rewrite H1. eexists. split; reflexivity.
Qed.

(* a numbered field beyond the values given makes the whole format fail *)
Lemma index_out_of_range e vals name spec i ps : forall next t,
  In (Field name spec) ps -> classify name = NIndex i -> nth_z vals i = None ->
  fill_pieces ps next vals e <> FOk t.
Proof.
  induction ps as [|p ps IH]; intros next t Hin Hc Hn Hf; [contradiction|].
  destruct Hin as [Heq|Hin].
  - subst p. cbn [fill_pieces] in Hf. rewrite Hc, Hn in Hf. cbn in Hf.
    destruct (fill_pieces ps next vals e); discriminate.
  - destruct p as [lit|n0 s0]; cbn [fill_pieces] in Hf.
    + apply fres_app_ok in Hf. destruct Hf as (x & y & _ & Hy & _). apply (IH next y Hin Hc Hn Hy).
    + destruct (classify n0); try discriminate;
        apply fres_app_ok in Hf; destruct Hf as (x & y & _ & Hy & _); eapply IH; eassumption.
Qed.

(* The count io_parser.printf takes values by is the number of positional fields the
   run-time format has (after the "\n" replacement); without numbered fields the
   i-th "{}" gets the i-th value and all values are used. *)
Lemma field_count_matches_lemma fmt k :
  compile_count fmt = Some k ->
  exists ps, parse_format (unescape_nl fmt) = POk ps /\ positional_count ps = k /\
    (has_index ps = false -> forall vals e, length vals = k ->
       exists x, fill_in_order ps vals e = Some (x, []) /\ fill fmt vals e = x).
Proof.
  intros Hc. pose proof Hc as Hc'. unfold compile_count in Hc'.
  destruct (parse_format fmt) as [ps0| |] eqn:E0; try discriminate.
  destruct (count_unescape fmt ps0 E0) as (ps & Hp & Hn).
  exists ps. split; [exact Hp|]. inversion Hc'; subst k. split; [exact Hn|].
  intros Hi vals e Hl.
  destruct (fill_in_order_spec e ps 0 vals Hi) as (x & H1 & H2); [cbn; lia|].
  cbn [skipn] in H1. exists x. split; [exact H1|].
  unfold fill. rewrite Hp. cbn [Z.of_nat] in H2. rewrite H2, Hi, andb_false_r.
  destruct x; reflexivity.
Qed.

(* "{}" and "{n}" in one format: str.format rejects it, so does the model *)
Lemma mixed_numbering_rejected fmt ps vals e t :
  parse_format (unescape_nl fmt) = POk ps -> has_auto ps = true -> has_index ps = true ->
  py_format (unescape_nl fmt) vals (build_named ps e) <> FOk t.
Proof.
  intros Hp Ha Hi Hf. pose proof (printf_text_spec fmt vals e ps t Hp Hf) as H.
  unfold fill in H. rewrite Hp, Ha, Hi in H. destruct (fill_pieces ps 0 vals e); discriminate.
Qed.

(* ---------- the theorems for the configuration read from the source ---------- *)

Lemma stdout_text events t :
  render_spec events = Some t ->
  written (run_io current_cfg events) = t /\ aborted (run_io current_cfg events) = false.
Proof. rewrite cfg_current. apply stdout_text_R. Qed.

Lemma output_order events m :
  marks_spec events = Some m -> marks (run_io current_cfg events) = m.
Proof. rewrite cfg_current. apply output_order_R. Qed.

Lemma flush_writes_everything events t :
  render_spec events = Some t ->
  unnamed (run_io current_cfg events) = [] /\ line_pending (run_io current_cfg events) = false.
Proof. rewrite cfg_current. apply flush_everything_R. Qed.

Lemma flush_pending_values s st :
  rel s st ->
  written (vm_flush current_cfg st) = text_of (fold_left (fun s v => add_output (py_str v) s) (unnamed st) s) /\
  unnamed (vm_flush current_cfg st) = [] /\ line_pending (vm_flush current_cfg st) = false.
Proof.
  rewrite cfg_current. intros H. destruct (flush_spec s st H) as (H1 & H2 & H3 & _). repeat split; assumption.
Qed.

Lemma job_text evs st t :
  render_spec evs = Some t ->
  written (run_job current_cfg evs st) = written st +++ t /\
  line_pending (run_job current_cfg evs st) = false /\
  unnamed (run_job current_cfg evs st) = [] /\
  aborted (run_job current_cfg evs st) = false.
Proof. rewrite cfg_current. apply job_text_R. Qed.

Lemma jobs_text jobs t :
  render_jobs_spec jobs = Some t -> written (run_jobs current_cfg jobs) = t.
Proof. rewrite cfg_current. apply jobs_text_R. Qed.

(* what VmIo._printf hands to the sink, as a function of the pending values *)
Definition printf_text (fmt : string) (vals : list oval) (e : env) : fres :=
  match parse_format (unescape_nl fmt) with
  | POk ps => py_format (unescape_nl fmt) vals (build_named ps e)
  | PError => FError
  | PUnsupported => FUnsupported
  end.

Lemma printf_fields fmt vals e t : printf_text fmt vals e = FOk t <-> fill fmt vals e = FOk t.
Proof.
  unfold printf_text. split.
  - destruct (parse_format (unescape_nl fmt)) as [ps| |] eqn:Ep; try discriminate.
    apply printf_text_spec. exact Ep.
  - intros H. destruct (printf_text_model fmt vals e t H) as (ps & Hp & Hf). rewrite Hp. exact Hf.
Qed.

(* the OUT PRINTF instruction writes that text as one output and removes exactly its
   own values from the pending list *)
Lemma printf_instruction fmt e u vals t st :
  aborted st = false -> unnamed st = u ++ vals ->
  compile_count fmt = Some (length vals) -> fill fmt vals e = FOk t ->
  vm_out current_cfg (OpPrintf fmt e) st = set_unnamed (sink_out current_cfg t st) u.
Proof. rewrite cfg_current. apply vm_out_printf. Qed.

(* ---------- non-vacuity, and what the other accepted source texts do ---------- *)

Definition iv (z : Z) : arg := Arg [] (OInt z).

(* print hue print saturation, println, printf with a named field and a spec, "\n" *)
Definition demo_events : list out_event :=
  [EPrint (iv 120); EDevice 1; EPrint (iv 50); EPrintln0;
   EPrintf "a\n{} {x:>4}|{:.2f}" [iv 1; Arg [] (OFloat "2.675" (0x1.5666666666666p+1)%float)] [("x", OStr "ab")];
   EPrintf "b\n" [] []; EPrint (Arg [] (OBool true)); EPrintln (Arg [] ONone)].

Example demo_spec :
  render_spec demo_events = Some ("120 50" +++ nl +++ "a" +++ nl +++ "1   ab|2.67 b" +++ nl +++ "True None" +++ nl)
  /\ marks_spec demo_events = Some [(1, "120")].
Proof. split; vm_compute; reflexivity. Qed.

(* a routine that prints, called in the middle of a printf value list (D39) *)
Definition nested_events : list out_event :=
  [EPrintf "{} {}" [iv 1; Arg [EPrint (iv 9)] (OInt 5)] []].

Example nested_spec : render_spec nested_events = Some "9 1 5".
Proof. vm_compute. reflexivity. Qed.

Example nested_model : written (run_io repaired_cfg nested_events) = "9 1 5".
Proof. vm_compute. reflexivity. Qed.

(* the pinned tree: class binding, separator always owed after out, flush ends the line *)
Definition pinned_cfg : cfg :=
  {| c_one_sink := false; c_out_tracks_nl := false; c_sink_flush_forgets := false;
     c_reset_flushes_sink := false; c_flush_flushes_sink := true; c_print_takes_last := false;
     c_printf_takes_last_k := false; c_machine_reset_io := false |}.

(* D29: `print 120 print 50` writes 12050 *)
Example d29_pinned :
  written (run_io pinned_cfg [EPrint (iv 120); EPrint (iv 50)]) = "12050"
  /\ render_spec [EPrint (iv 120); EPrint (iv 50)] = Some "120 50".
Proof. split; vm_compute; reflexivity. Qed.

(* D35, visible once the sink is persistent (candidate fix 0014 alone): `printf "a\n" print 2` *)
Definition cfg_0014_only : cfg :=
  {| c_one_sink := true; c_out_tracks_nl := false; c_sink_flush_forgets := true;
     c_reset_flushes_sink := false; c_flush_flushes_sink := true; c_print_takes_last := false;
     c_printf_takes_last_k := false; c_machine_reset_io := false |}.

Example d35_after_0014 :
  written (run_io cfg_0014_only [EPrintf "a\n" [] []; EPrint (iv 2)]) = "a" +++ nl +++ " 2"
  /\ render_spec [EPrintf "a\n" [] []; EPrint (iv 2)] = Some ("a" +++ nl +++ "2").
Proof. split; vm_compute; reflexivity. Qed.

(* D39, with every other repair in place: the routine's PRINT takes the outer value *)
Definition cfg_before_0036 : cfg :=
  {| c_one_sink := true; c_out_tracks_nl := true; c_sink_flush_forgets := true;
     c_reset_flushes_sink := true; c_flush_flushes_sink := false; c_print_takes_last := false;
     c_printf_takes_last_k := false; c_machine_reset_io := true |}.

Example d39_before_0036 :
  written (run_io cfg_before_0036 nested_events) = "1" /\ aborted (run_io cfg_before_0036 nested_events) = true.
Proof. split; vm_compute; reflexivity. Qed.

(* D38: an aborted job leaves a pending separator to the next job unless reset flushes the sink *)
Definition cfg_before_0035 : cfg :=
  {| c_one_sink := true; c_out_tracks_nl := true; c_sink_flush_forgets := true;
     c_reset_flushes_sink := false; c_flush_flushes_sink := true; c_print_takes_last := false;
     c_printf_takes_last_k := false; c_machine_reset_io := true |}.

Definition aborting_job : list out_event :=
  [EPrint (iv 1); EPrintf "{:d}" [Arg [] (OFloat "2.5" (0x1.4p+1)%float)] []].

Example d38_before_0035 :
  written (run_jobs cfg_before_0035 [aborting_job; [EPrint (iv 3)]]) = "1 3"
  /\ written (run_jobs repaired_cfg [aborting_job; [EPrint (iv 3)]]) = "13".
Proof. split; vm_compute; reflexivity. Qed.

(* formats: the count, mixed numbering, an index out of range *)
Example count_examples :
  compile_count "{} {hue} {0:>5}\n{{}}" = Some 2%nat /\ compile_count "{" = None /\ compile_count "a}" = None
  /\ fill "{0}{}" [OInt 1; OInt 2] [] = FError
  /\ fill "{1}" [OInt 1] [] = FError
  /\ fill "{2} {1} {0}" [OInt 75; OInt 50; OInt 120] [] = FOk "120 50 75"
  /\ fill "{x} {} {}" [OInt 200; OFloat "150.0" (0x1.2cp+7)%float] [("x", OInt 100)] = FOk "100 200 150.0".
Proof. repeat split; vm_compute; reflexivity. Qed.
