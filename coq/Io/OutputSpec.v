(* C19 SPECIFICATION: the text a script's print / println / printf statements put on
   standard output.  Written from the property text and DESIGN section 7 (Reading of
   C19), not from the implementation; independent of Gen/*.  No proofs here.

     "Each print writes the text of its value, successive outputs on one line being
      separated by a single space, and println (with or without a value) ends the
      line.  printf writes its format string filled in as Python's str.format would:
      positional fields take the following values in order, named fields take the
      current register or variable of that name, and \n in the format means a line
      break.  Output appears in program order relative to device commands and has
      all been written when the script ends."

   Reading.  Standard output is a sequence of LINES; a line is the list of the
   outputs put on it, and its text is those outputs joined by single spaces.
   println ends the current line with a line break.  An output whose own text ends
   in a line break (printf "...\n") ends the line by itself: what follows starts a
   new line, so no space is owed.  printf adds no line break of its own.  When the
   script ends, the open line has been written as it stands (no line break is
   added), and the next job starts on a fresh line state. *)
From Coq Require Import ZArith String Ascii List Bool Floats.
From Bardolph Require Import Base.PyStr Run.Show Io.Format.
Open Scope string_scope.
Open Scope list_scope.
Import ListNotations.
Open Scope Z_scope.
Open Scope bool_scope.

(* ---------- what a script does, as far as output is concerned ---------- *)

(* The registers and variables by name at the moment a printf runs; a name that is
   neither reads as None (as the language's variables do before assignment). *)
Definition env := list (string * oval).
Definition env_get (e : env) (name : string) : oval :=
  match kw_get e name with Some v => v | None => ONone end.

(* Output statements and device commands in evaluation order.  The value of an
   argument may be computed by a routine call whose body itself runs statements:
   [Arg pre v] = first the statements pre, then the value v.  For literals,
   registers, variables and plain expressions pre is empty. *)
Inductive out_event :=
| EPrint0                                                 (* print      (no value) *)
| EPrint (a : arg)                                        (* print e    *)
| EPrintln0                                               (* println    *)
| EPrintln (a : arg)                                      (* println e  *)
| EPrintf (fmt : string) (args : list arg) (e : env)      (* printf fmt a1 ... ak *)
| EDevice (d : Z)                                         (* a device command *)
with arg :=
| Arg (pre : list out_event) (v : oval).

Definition arg_val (a : arg) : oval := match a with Arg _ v => v end.

(* ---------- printf: the format string filled in ---------- *)

Fixpoint has_auto (ps : list piece) : bool :=
  match ps with
  | [] => false
  | Field name _ :: r => match classify name with NAuto => true | _ => has_auto r end
  | _ :: r => has_auto r
  end.
Fixpoint has_index (ps : list piece) : bool :=
  match ps with
  | [] => false
  | Field name _ :: r => match classify name with NIndex _ => true | _ => has_index r end
  | _ :: r => has_index r
  end.

(* The i-th "{}" takes the i-th value, "{n}" takes value number n, "{name}" takes
   the register or variable of that name; each is formatted by its spec. *)
Fixpoint fill_pieces (ps : list piece) (next : Z) (vals : list oval) (e : env) : fres :=
  match ps with
  | [] => FOk EmptyString
  | Lit t :: r => fres_app (FOk t) (fill_pieces r next vals e)
  | Field name spec :: r =>
      match classify name with
      | NAuto => fres_app (fmt_opt (nth_z vals next) spec) (fill_pieces r (next + 1) vals e)
      | NIndex i => fres_app (fmt_opt (nth_z vals i) spec) (fill_pieces r next vals e)
      | NNamed n => fres_app (format_value (env_get e n) spec) (fill_pieces r next vals e)
      | NUnsup => FUnsupported
      end
  end.

(* "{}" and "{n}" in one format string are rejected by str.format *)
Definition fill (fmt : string) (vals : list oval) (e : env) : fres :=
  match parse_format (unescape_nl fmt) with
  | POk ps =>
      match fill_pieces ps 0 vals e with
      | FUnsupported => FUnsupported
      | r => if has_auto ps && has_index ps then FError else r
      end
  | PError => FError
  | PUnsupported => FUnsupported
  end.

(* The most literal reading of "positional fields take the following values in
   order", for formats without numbered fields: each "{}" takes the next value off the
   front of the list.  None = the values ran out; the second component is what is left
   over.  (Io/OutputProofs.v shows that with exactly as many values as the compiler
   counts positional fields this agrees with [fill_pieces], never runs out and leaves
   nothing over.) *)
Fixpoint fill_in_order (ps : list piece) (vals : list oval) (e : env) : option (fres * list oval) :=
  match ps with
  | [] => Some (FOk EmptyString, vals)
  | Lit t :: r =>
      match fill_in_order r vals e with
      | Some (x, rest) => Some (fres_app (FOk t) x, rest)
      | None => None
      end
  | Field name spec :: r =>
      match classify name with
      | NAuto =>
          match vals with
          | v :: vs =>
              match fill_in_order r vs e with
              | Some (x, rest) => Some (fres_app (format_value v spec) x, rest)
              | None => None
              end
          | [] => None
          end
      | NNamed n =>
          match fill_in_order r vals e with
          | Some (x, rest) => Some (fres_app (format_value (env_get e n) spec) x, rest)
          | None => None
          end
      | _ =>
          match fill_in_order r vals e with
          | Some (x, rest) => Some (FUnsupported, rest)
          | None => None
          end
      end
  end.

(* ---------- lines ---------- *)

Record lines := {
  closed : string;             (* the text of the lines that have ended *)
  open_line : list string;     (* the outputs on the current line *)
  dev_marks : list (Z * string)  (* device commands so far, each with the text that was on
                                    standard output when it was issued *)
}.

Definition no_lines : lines := {| closed := EmptyString; open_line := []; dev_marks := [] |}.

Fixpoint join_sp (l : list string) : string :=
  match l with
  | [] => EmptyString
  | [x] => x
  | x :: r => x +++ " " +++ join_sp r
  end.

(* everything that is on standard output *)
Definition text_of (s : lines) : string := closed s +++ join_sp (open_line s).

(* one more output on the current line *)
Definition add_output (t : string) (s : lines) : lines :=
  if ends_nl t
  then {| closed := closed s +++ join_sp (open_line s ++ [t]); open_line := []; dev_marks := dev_marks s |}
  else {| closed := closed s; open_line := open_line s ++ [t]; dev_marks := dev_marks s |}.

(* println's line break *)
Definition end_line (s : lines) : lines :=
  {| closed := closed s +++ join_sp (open_line s) +++ nl; open_line := []; dev_marks := dev_marks s |}.

Definition device (d : Z) (s : lines) : lines :=
  {| closed := closed s; open_line := open_line s; dev_marks := dev_marks s ++ [(d, text_of s)] |}.

(* None: the script is outside what the specification speaks about (a printf whose
   format is malformed, unsupported, fails to format, or whose number of values is
   not the number of its positional fields) *)
Fixpoint sem_ev (e : out_event) (s : lines) : option lines :=
  match e with
  | EPrint0 => Some s
  | EPrint a =>
      match sem_arg a s with
      | Some s1 => Some (add_output (py_str (arg_val a)) s1)
      | None => None
      end
  | EPrintln0 => Some (end_line s)
  | EPrintln a =>
      match sem_arg a s with
      | Some s1 => Some (end_line (add_output (py_str (arg_val a)) s1))
      | None => None
      end
  | EPrintf fmt args en =>
      match (fix sem_args_ (l : list arg) (s : lines) : option lines :=
               match l with
               | [] => Some s
               | a :: r => match sem_arg a s with Some s1 => sem_args_ r s1 | None => None end
               end) args s with
      | Some s1 =>
          match compile_count fmt with
          | Some k =>
              if Nat.eqb k (length args) then
                match fill fmt (map arg_val args) en with
                | FOk t => Some (add_output t s1)
                | _ => None
                end
              else None
          | None => None
          end
      | None => None
      end
  | EDevice d => Some (device d s)
  end
with sem_arg (a : arg) (s : lines) : option lines :=
  match a with
  | Arg pre _ =>
      (fix sem_evs_ (l : list out_event) (s : lines) : option lines :=
         match l with
         | [] => Some s
         | e :: r => match sem_ev e s with Some s1 => sem_evs_ r s1 | None => None end
         end) pre s
  end.

Fixpoint sem_evs (l : list out_event) (s : lines) : option lines :=
  match l with
  | [] => Some s
  | e :: r => match sem_ev e s with Some s1 => sem_evs r s1 | None => None end
  end.
Fixpoint sem_args (l : list arg) (s : lines) : option lines :=
  match l with
  | [] => Some s
  | a :: r => match sem_arg a s with Some s1 => sem_args r s1 | None => None end
  end.

(* The text one job puts on standard output. *)
Definition render_spec (events : list out_event) : option string :=
  match sem_evs events no_lines with
  | Some s => Some (text_of s)
  | None => None
  end.

(* For each device command of the job, in order: the text on standard output at the
   moment the command was issued. *)
Definition marks_spec (events : list out_event) : option (list (Z * string)) :=
  match sem_evs events no_lines with
  | Some s => Some (dev_marks s)
  | None => None
  end.

(* Jobs run one after the other in one process: each one's text, nothing in between. *)
Fixpoint render_jobs_spec (jobs : list (list out_event)) : option string :=
  match jobs with
  | [] => Some EmptyString
  | j :: r =>
      match render_spec j, render_jobs_spec r with
      | Some a, Some b => Some (a +++ b)
      | _, _ => None
      end
  end.
