(* Model of Python's str.format / string.Formatter().parse / format(value, spec)
   for the subset the output commands are checked on (C19).  No proofs here.

   VALUES.  [oval]: int, float, str, bool, None.  A float carries BOTH the text
   Python's str() gives for it (data supplied by the harness: shortest round-trip
   printing is not reproduced in Coq) and its binary64 value (a PrimFloat), from
   which fixed-point renderings are computed exactly.

   FORMAT STRINGS (all of them are parsed; [PUnsupported] marks what is outside):
     literal text, "{{" and "}}" escapes, replacement fields "{" name [":" spec] "}"
     - name: empty (automatic numbering), ASCII decimal digits (index), or any other
       text without "." "[" "!" "{" "}" ":" (keyword);  names containing "." or "["
       (attribute / item access), conversions "!r" "!s" "!a" and nested fields inside a
       spec are UNSUPPORTED;
     - a single "}" outside a field, a "{" that is not closed, "{" inside a field
       name, and end of text inside a field are ERRORS (ValueError in Python).
   FORMAT SPECS:   [align] [width] ["." precision] [type]
       align in "<" ">" "^";  width = decimal digits not starting with "0";
       type in  (none) "d" "f" "s";  precision only together with "f".
     This contains the forms  (empty) d  [<>^]N  N  [<>^]Nd  .Nf  [<>^]N.Nf  N.Nf  f
     s  Ns  [<>^]Ns.  Everything else (fill characters, "=", sign, "#", "0", ",", "_",
     other type letters, precision without "f") is UNSUPPORTED.
   VALUE x SPEC (as CPython 3.12):
       empty spec            str(value) for every value
       int, bool             (none)/d: decimal digits (bool as 0/1 unless the spec is
                             empty); f: exact, for |n| < 2^53 (else UNSUPPORTED); s: ERROR
       float                 (none): the str() text; f: the binary value rounded
                             half-to-even at the given number of places (default 6),
                             computed exactly from Prim2SF; inf/nan UNSUPPORTED; d, s: ERROR
       str                   (none)/s: the text; d, f: ERROR
       None                  any non-empty spec: ERROR (TypeError)
       padding to the width: numbers right-aligned, strings left-aligned by default;
       "^" puts the smaller half on the left.
   Texts are byte strings; the correspondence runs stay inside ASCII. *)
From Coq Require Import ZArith String Ascii List Bool Floats.
From Bardolph Require Import Base.PyStr Run.Show.
Open Scope string_scope.
Open Scope list_scope.
Import ListNotations.
Open Scope Z_scope.
Open Scope bool_scope.

(* ---------- values ---------- *)

Inductive oval :=
| OInt (z : Z)
| OFloat (text : string) (v : float)
| OStr (s : string)
| OBool (b : bool)
| ONone.

Definition LF : ascii := "010"%char.
Definition nl : string := String LF EmptyString.

(* str(value) *)
Definition py_str (v : oval) : string :=
  match v with
  | OInt z => show_Z z
  | OFloat t _ => t
  | OStr s => s
  | OBool true => "True"
  | OBool false => "False"
  | ONone => "None"
  end.

(* text.endswith('\n') *)
Fixpoint ends_nl (s : string) : bool :=
  match s with
  | EmptyString => false
  | String c EmptyString => Ascii.eqb c LF
  | String _ r => ends_nl r
  end.

(* ---------- the "\n" two-character escape of printf formats ---------- *)

Definition BSL : ascii := "092"%char.
Definition LOWER_N : ascii := "n"%char.

(* format_str.replace('\\n', '\n') *)
Fixpoint unescape_nl (s : string) : string :=
  match s with
  | EmptyString => EmptyString
  | String c r =>
      if Ascii.eqb c BSL then
        match r with
        | String d r' => if Ascii.eqb d LOWER_N then String LF (unescape_nl r') else String c (unescape_nl r)
        | EmptyString => String c EmptyString
        end
      else String c (unescape_nl r)
  end.

(* ---------- string.Formatter().parse ---------- *)

Inductive piece :=
| Lit (text : string)
| Field (name spec : string).

Inductive presult :=
| POk (ps : list piece)
| PError            (* ValueError *)
| PUnsupported.

Inductive pmode :=
| MLit (acc : string)            (* inside literal text *)
| MOpen (acc : string)           (* a "{" was read after the literal acc *)
| MClose (acc : string)          (* a "}" was read after the literal acc *)
| MName (name : string)          (* inside a field name *)
| MSpec (name spec : string).    (* inside a format spec *)

Definition snoc (s : string) (c : ascii) : string := s +++ String c EmptyString.

Definition push_lit (acc : string) (out : list piece) : list piece :=
  match acc with EmptyString => out | _ => Lit acc :: out end.

Definition LBRACE : ascii := "{"%char.
Definition RBRACE : ascii := "}"%char.
Definition COLON : ascii := ":"%char.
Definition BANG : ascii := "!"%char.
Definition LBRACKET : ascii := "["%char.

(* One character inside a field name (shared by the first character after "{" and
   the following ones).  [inl] = go on in this mode/output, [inr] = stop with a result. *)
Definition name_char (c : ascii) (name : string) (out : list piece) : (pmode * list piece) + presult :=
  if Ascii.eqb c RBRACE then inl (MLit EmptyString, Field name EmptyString :: out)
  else if Ascii.eqb c COLON then inl (MSpec name EmptyString, out)
  else if Ascii.eqb c BANG then inr PUnsupported
  else if Ascii.eqb c LBRACKET then inr PUnsupported
  else if Ascii.eqb c LBRACE then inr PError
  else inl (MName (snoc name c), out).

(* One character in a given mode. *)
Definition pstep (c : ascii) (m : pmode) (out : list piece) : (pmode * list piece) + presult :=
  match m with
  | MLit acc =>
      if Ascii.eqb c LBRACE then inl (MOpen acc, out)
      else if Ascii.eqb c RBRACE then inl (MClose acc, out)
      else inl (MLit (snoc acc c), out)
  | MOpen acc =>
      if Ascii.eqb c LBRACE then inl (MLit (snoc acc LBRACE), out)
      else name_char c EmptyString (push_lit acc out)
  | MClose acc =>
      if Ascii.eqb c RBRACE then inl (MLit (snoc acc RBRACE), out)
      else inr PError
  | MName name => name_char c name out
  | MSpec name spec =>
      if Ascii.eqb c RBRACE then inl (MLit EmptyString, Field name spec :: out)
      else if Ascii.eqb c LBRACE then inr PUnsupported
      else inl (MSpec name (snoc spec c), out)
  end.

Definition pfinish (m : pmode) (out : list piece) : presult :=
  match m with
  | MLit acc => POk (rev (push_lit acc out))
  | _ => PError
  end.

Fixpoint pgo (s : string) (m : pmode) (out : list piece) : presult :=
  match s with
  | EmptyString => pfinish m out
  | String c r =>
      match pstep c m out with
      | inl (m', out') => pgo r m' out'
      | inr res => res
      end
  end.

(* The pieces of a format string: literal texts (escapes resolved, adjacent literal
   runs merged) and fields, in order. *)
Definition parse_format (s : string) : presult := pgo s (MLit EmptyString) [].

(* ---------- field names ---------- *)

Definition all_digits (s : string) : bool := all_chars is_digit_ascii s.

(* io_parser.printf / VmIo._printf:  len(name) == 0 or name.isdecimal() *)
Definition is_positional (name : string) : bool :=
  match name with EmptyString => true | _ => all_digits name end.

Fixpoint positional_count (ps : list piece) : nat :=
  match ps with
  | [] => O
  | Lit _ :: r => positional_count r
  | Field name _ :: r => if is_positional name then S (positional_count r) else positional_count r
  end.

(* The number of values io_parser.printf takes after the format string:
   sum(1 for field in Formatter().parse(fmt) if field[1] is not None and
   (len(field[1]) == 0 or field[1].isdecimal())); None when parse raises. *)
Definition compile_count (fmt : string) : option nat :=
  match parse_format fmt with
  | POk ps => Some (positional_count ps)
  | _ => None
  end.

Fixpoint has_char (c : ascii) (s : string) : bool :=
  match s with EmptyString => false | String d r => Ascii.eqb c d || has_char c r end.

Inductive fname :=
| NAuto                    (* {}      *)
| NIndex (i : Z)           (* {3}     *)
| NNamed (name : string)   (* {hue}   *)
| NUnsup.                  (* {a.b}   *)

Definition classify (name : string) : fname :=
  match name with
  | EmptyString => NAuto
  | _ => if all_digits name then NIndex (py_int name)
         else if has_char "."%char name || has_char LBRACKET name then NUnsup
         else NNamed name
  end.

(* ---------- format(value, spec) ---------- *)

Inductive fres :=
| FOk (text : string)
| FError            (* ValueError / TypeError / IndexError / KeyError *)
| FUnsupported.

Inductive ftype := TNone | TD | TF | TS.
Inductive falign := ALeft | ARight | ACenter.

Record fspec := {
  fs_align : option falign;
  fs_width : option Z;
  fs_prec : option Z;
  fs_type : ftype
}.

Fixpoint take_digits (s : string) : string * string :=
  match s with
  | String c r => if is_digit_ascii c then let '(d, rest) := take_digits r in (String c d, rest) else (EmptyString, s)
  | EmptyString => (EmptyString, EmptyString)
  end.

Definition align_of (c : ascii) : option falign :=
  if Ascii.eqb c "<"%char then Some ALeft
  else if Ascii.eqb c ">"%char then Some ARight
  else if Ascii.eqb c "^"%char then Some ACenter
  else None.

Definition is_align_char (c : ascii) : bool :=
  match align_of c with Some _ => true | None => Ascii.eqb c "="%char end.

Definition type_of (s : string) : option ftype :=
  match s with
  | EmptyString => Some TNone
  | String c EmptyString =>
      if Ascii.eqb c "d"%char then Some TD
      else if Ascii.eqb c "f"%char then Some TF
      else if Ascii.eqb c "s"%char then Some TS
      else None
  | _ => None
  end.

(* None = outside the modelled subset *)
Definition parse_spec (s : string) : option fspec :=
  let fill :=
    match s with
    | String _ (String c2 _) => is_align_char c2
    | _ => false
    end in
  if fill then None else
  let '(al, s1) :=
    match s with
    | String c r => match align_of c with Some a => (Some a, r) | None => (None, s) end
    | EmptyString => (None, s)
    end in
  let '(w, s2) := take_digits s1 in
  if prefixb "0" w then None else
  let width := match w with EmptyString => None | _ => Some (py_int w) end in
  let with_prec (prec : option Z) (s3 : string) :=
    match type_of s3 with
    | Some t =>
        match prec, t with
        | Some _, TF => Some {| fs_align := al; fs_width := width; fs_prec := prec; fs_type := t |}
        | Some _, _ => None
        | None, _ => Some {| fs_align := al; fs_width := width; fs_prec := None; fs_type := t |}
        end
    | None => None
    end in
  match s2 with
  | String c r =>
      if Ascii.eqb c "."%char then
        let '(p, s3) := take_digits r in
        match p with
        | EmptyString => None
        | _ => with_prec (Some (py_int p)) s3
        end
      else with_prec None s2
  | EmptyString => with_prec None s2
  end.

Fixpoint rep_char (c : ascii) (n : nat) : string :=
  match n with O => EmptyString | S k => String c (rep_char c k) end.

Definition pad (al : falign) (width : option Z) (body : string) : string :=
  match width with
  | None => body
  | Some w =>
      let len := zlen body in
      if w <=? len then body else
      let total := w - len in
      match al with
      | ALeft => body +++ rep_char " "%char (Z.to_nat total)
      | ARight => rep_char " "%char (Z.to_nat total) +++ body
      | ACenter => rep_char " "%char (Z.to_nat (total / 2)) +++ body +++ rep_char " "%char (Z.to_nat (total - total / 2))
      end
  end.

(* round(num/den) to the nearest integer, ties to even; num >= 0, den > 0 *)
Definition div_half_even (num den : Z) : Z :=
  let q := num / den in
  let r := num mod den in
  if 2 * r <? den then q
  else if den <? 2 * r then q + 1
  else if Z.even q then q else q + 1.

(* the digits of q = round(|x| * 10^n) written with n places *)
Definition fixed_text (neg : bool) (q n : Z) : string :=
  let ds := show_Z q in
  let ds := rep_char "0"%char (Z.to_nat (n + 1 - zlen ds)) +++ ds in
  let k := Z.to_nat (zlen ds - n) in
  let ip := substring 0 k ds in
  let fp := substring k (Z.to_nat n) ds in
  (if neg then "-" else "") +++ ip +++ (if n =? 0 then "" else "." +++ fp).

Definition two53 : Z := 9007199254740992.

Definition int_fixed (z n : Z) : option string :=
  if Z.abs z <? two53 then Some (fixed_text (z <? 0) (Z.abs z * 10 ^ n) n) else None.

(* format(x, '.nf') for a binary64 x, exactly *)
Definition float_fixed (x : float) (n : Z) : option string :=
  match Prim2SF x with
  | S754_zero s => Some (fixed_text s 0 n)
  | S754_finite s m e =>
      let q := if 0 <=? e then Zpos m * 2 ^ e * 10 ^ n
               else div_half_even (Zpos m * 10 ^ n) (2 ^ (- e)) in
      Some (fixed_text s q n)
  | _ => None
  end.

Definition spec_is_empty (fs : fspec) : bool :=
  match fs_align fs, fs_width fs, fs_prec fs, fs_type fs with
  | None, None, None, TNone => true
  | _, _, _, _ => false
  end.

Definition default_align (numeric : bool) (fs : fspec) : falign :=
  match fs_align fs with Some a => a | None => if numeric then ARight else ALeft end.

Definition fprec (fs : fspec) : Z := match fs_prec fs with Some p => p | None => 6 end.

Definition format_int (z : Z) (fs : fspec) : fres :=
  match fs_type fs with
  | TNone | TD => FOk (pad (default_align true fs) (fs_width fs) (show_Z z))
  | TF => match int_fixed z (fprec fs) with
          | Some t => FOk (pad (default_align true fs) (fs_width fs) t)
          | None => FUnsupported
          end
  | TS => FError
  end.

Definition format_value_spec (v : oval) (fs : fspec) : fres :=
  if spec_is_empty fs then FOk (py_str v) else
  match v with
  | OInt z => format_int z fs
  | OBool b => format_int (if b then 1 else 0) fs
  | OFloat t x =>
      match fs_type fs with
      | TNone => FOk (pad (default_align true fs) (fs_width fs) t)
      | TF => match float_fixed x (fprec fs) with
              | Some r => FOk (pad (default_align true fs) (fs_width fs) r)
              | None => FUnsupported
              end
      | TD | TS => FError
      end
  | OStr s =>
      match fs_type fs with
      | TNone | TS => FOk (pad (default_align false fs) (fs_width fs) s)
      | TD | TF => FError
      end
  | ONone => FError
  end.

(* format(value, spec) *)
Definition format_value (v : oval) (spec : string) : fres :=
  match parse_spec spec with
  | Some fs => format_value_spec v fs
  | None => FUnsupported
  end.

(* ---------- str.format with positional and keyword arguments ---------- *)

(* results of the parts of one format call are combined so that "unsupported"
   anywhere wins over "error" anywhere (nothing is claimed about such a call) *)
Definition fres_app (a b : fres) : fres :=
  match a, b with
  | FUnsupported, _ | _, FUnsupported => FUnsupported
  | FError, _ | _, FError => FError
  | FOk x, FOk y => FOk (x +++ y)
  end.

Definition nth_z {A} (l : list A) (i : Z) : option A :=
  if (0 <=? i) && (i <? Z.of_nat (length l)) then nth_error l (Z.to_nat i) else None.

Definition kwargs := list (string * oval).

Fixpoint kw_get (kw : kwargs) (name : string) : option oval :=
  match kw with
  | [] => None
  | (k, v) :: r => if String.eqb k name then Some v else kw_get r name
  end.

Definition fmt_opt (o : option oval) (spec : string) : fres :=
  match o with Some v => format_value v spec | None => FError end.

(* CPython's AutoNumber state *)
Inductive numbering := NumInit | NumAuto | NumManual.

Fixpoint format_pieces (ps : list piece) (st : numbering) (next : Z) (args : list oval) (kw : kwargs) : fres :=
  match ps with
  | [] => FOk EmptyString
  | Lit t :: r => fres_app (FOk t) (format_pieces r st next args kw)
  | Field name spec :: r =>
      match classify name with
      | NAuto =>
          fres_app (match st with NumManual => FError | _ => fmt_opt (nth_z args next) spec end)
                   (format_pieces r NumAuto (next + 1) args kw)
      | NIndex i =>
          fres_app (match st with NumAuto => FError | _ => fmt_opt (nth_z args i) spec end)
                   (format_pieces r NumManual next args kw)
      | NNamed n => fres_app (fmt_opt (kw_get kw n) spec) (format_pieces r st next args kw)
      | NUnsup => FUnsupported
      end
  end.

(* fmt.format(args..., kw...) *)
Definition py_format (fmt : string) (args : list oval) (kw : kwargs) : fres :=
  match parse_format fmt with
  | POk ps => format_pieces ps NumInit 0 args kw
  | PError => FError
  | PUnsupported => FUnsupported
  end.
