(* Model of the output path (C19): bardolph/lib/std_out_output.py (StdOutOutput and
   its binding), bardolph/vm/vm_io.py (VmIo), the OUT instructions io_parser.py emits,
   and the reset/flush calls of Machine.  No proofs here.

   The text of each modelled method is compared with the accepted texts by
   tools/gen_output.py on every run (Gen/OutputGen.v, shape_* booleans).  Where
   two texts are accepted -- the pinned one and the repaired one -- the model branches
   on a configuration record read from those booleans ([current_cfg]), so that the
   model of a tree expresses that tree's behaviour.  The theorems are proved for
   [repaired_cfg]; Io/OutputProofs.v requires [current_cfg = repaired_cfg]. *)
From Coq Require Import ZArith String Ascii List Bool Floats.
From Bardolph Require Import Base.PyStr Run.Show Io.Format Gen.OutputGen.
From Bardolph Require Export Io.OutputSpec.
Open Scope string_scope.
Open Scope list_scope.
Import ListNotations.
Open Scope Z_scope.
Open Scope bool_scope.

(* ---------- which of the accepted source texts are in force ---------- *)

Record cfg := {
  (* std_out_output.configure: bind_instance(StdOutOutput()) (one object for the
     whole process) or bind(StdOutOutput) (provide() calls the constructor, so every
     injected call gets a new object whose _line_pending is False) *)
  c_one_sink : bool;
  (* StdOutOutput.out: _line_pending = not str(output).endswith('\n')  (else: = True) *)
  c_out_tracks_nl : bool;
  (* StdOutOutput.flush: _line_pending = False  (else: if _line_pending: newline()) *)
  c_sink_flush_forgets : bool;
  (* VmIo.reset: clears the pending values and calls output.flush()  (else: only clears) *)
  c_reset_flushes_sink : bool;
  (* VmIo.flush: ...; output.flush(); self.reset()  (else: ...; self.reset()) *)
  c_flush_flushes_sink : bool;
  (* VmIo.out PRINT: writes the value pushed last and removes only it
     (else: writes the first pending value and clears the list) *)
  c_print_takes_last : bool;
  (* VmIo._printf: formats the last k pending values, k = positional fields of its
     format, and removes only those  (else: formats all pending values, clears the list) *)
  c_printf_takes_last_k : bool;
  (* Machine.reset calls VmIo.reset *)
  c_machine_reset_io : bool
}.

Definition current_cfg : cfg := {|
  c_one_sink := shape_bind_instance;
  c_out_tracks_nl := shape_sink_out_tracks_newline;
  c_sink_flush_forgets := shape_sink_flush_forgets;
  c_reset_flushes_sink := shape_vmio_reset_flushes_sink;
  c_flush_flushes_sink := shape_vmio_flush_flushes_sink;
  c_print_takes_last := shape_vmio_print_takes_last;
  c_printf_takes_last_k := shape_vmio_printf_takes_last_k;
  c_machine_reset_io := shape_machine_reset_clears_io
|}.

(* every modelled method has one of the accepted texts *)
Definition source_known : bool :=
  shape_sink_methods_known && shape_sink_init && shape_sink_out_known && shape_sink_newline
  && shape_sink_flush_known && shape_bind_known && shape_injection
  && shape_vmio_methods_known && shape_vmio_init && shape_vmio_out_known && shape_vmio_reset_known
  && shape_vmio_flush_known && shape_vmio_printf_known
  && shape_parser_print && shape_parser_println && shape_parser_printf && shape_parser_out_rvalue
  && shape_machine_out && shape_machine_run_flushes_last && shape_light_module_binds_stdout.

Definition repaired_cfg : cfg := {|
  c_one_sink := true;
  c_out_tracks_nl := true;
  c_sink_flush_forgets := true;
  c_reset_flushes_sink := true;
  c_flush_flushes_sink := false;
  c_print_takes_last := true;
  c_printf_takes_last_k := true;
  c_machine_reset_io := true
|}.

(* ---------- state ---------- *)

Record iostate := {
  written : string;          (* everything written to sys.stdout so far *)
  line_pending : bool;       (* StdOutOutput._line_pending of the sink object *)
  unnamed : list oval;       (* VmIo._unnamed *)
  marks : list (Z * string); (* device commands seen, each with the text written before it *)
  aborted : bool             (* an exception left Machine.run's loop *)
}.

Definition init_state : iostate :=
  {| written := EmptyString; line_pending := false; unnamed := []; marks := []; aborted := false |}.

Definition set_sink (st : iostate) (w : string) (p : bool) : iostate :=
  {| written := w; line_pending := p; unnamed := unnamed st; marks := marks st; aborted := aborted st |}.
Definition set_unnamed (st : iostate) (u : list oval) : iostate :=
  {| written := written st; line_pending := line_pending st; unnamed := u; marks := marks st; aborted := aborted st |}.
Definition set_aborted (st : iostate) (a : bool) : iostate :=
  {| written := written st; line_pending := line_pending st; unnamed := unnamed st; marks := marks st; aborted := a |}.
Definition add_mark (st : iostate) (d : Z) : iostate :=
  {| written := written st; line_pending := line_pending st; unnamed := unnamed st;
     marks := marks st ++ [(d, written st)]; aborted := aborted st |}.

(* ---------- StdOutOutput ---------- *)

(* provide(Output) at the entry of an @inject(Output) method *)
Definition provide (c : cfg) (st : iostate) : iostate :=
  if c_one_sink c then st else set_sink st (written st) false.

(* StdOutOutput.out(text): print(' ', end='') when a line is pending; print(text, end='') *)
Definition sink_out (c : cfg) (text : string) (st : iostate) : iostate :=
  let sep := if line_pending st then " " else "" in
  set_sink st (written st +++ sep +++ text)
           (if c_out_tracks_nl c then negb (ends_nl text) else true).

(* StdOutOutput.newline(): print() *)
Definition sink_newline (st : iostate) : iostate :=
  set_sink st (written st +++ nl) false.

(* StdOutOutput.flush() *)
Definition sink_flush (c : cfg) (st : iostate) : iostate :=
  if c_sink_flush_forgets c then set_sink st (written st) false
  else if line_pending st then sink_newline st else st.

(* ---------- VmIo ---------- *)

Inductive io_op :=
| OpLiteral (v : oval)               (* OUT LITERAL v *)
| OpRegister (v : oval)              (* OUT REGISTER r, v = the register's value then *)
| OpPrint                            (* OUT PRINT *)
| OpPrintEnd                         (* OUT PRINT_END *)
| OpPrintf (fmt : string) (e : env)  (* OUT PRINTF fmt, e = registers/variables then *)
| OpDevice (d : Z).                  (* any device command (not an OUT instruction) *)

Fixpoint last_opt {A} (l : list A) : option A :=
  match l with [] => None | [x] => Some x | _ :: r => last_opt r end.

(* the names the run-time scan puts into `named`, each with its current value *)
Fixpoint build_named (ps : list piece) (e : env) : kwargs :=
  match ps with
  | [] => []
  | Lit _ :: r => build_named r e
  | Field name _ :: r =>
      if is_positional name then build_named r e else (name, env_get e name) :: build_named r e
  end.

(* VmIo.reset (without the @inject of the repaired text when it does not flush) *)
Definition vm_reset (c : cfg) (st : iostate) : iostate :=
  if c_reset_flushes_sink c then sink_flush c (provide c (set_unnamed st []))
  else set_unnamed st [].

(* VmIo._printf *)
Definition vm_printf (c : cfg) (fmt : string) (e : env) (st0 : iostate) : iostate :=
  let st := provide c st0 in
  let f := unescape_nl fmt in
  match parse_format f with
  | POk ps =>
      let named := build_named ps e in
      let k := positional_count ps in
      let u := unnamed st in
      let keep := if c_printf_takes_last_k c then firstn (length u - k) u else [] in
      let args := if c_printf_takes_last_k c then skipn (length u - k) u else u in
      match py_format f args named with
      | FOk text => set_unnamed (sink_out c text st) keep
      | _ => set_aborted st true
      end
  | _ => set_aborted st true
  end.

(* VmIo.out *)
Definition vm_out (c : cfg) (op : io_op) (st0 : iostate) : iostate :=
  if aborted st0 then st0 else
  match op with
  | OpDevice d => add_mark st0 d
  | _ =>
    let st := provide c st0 in
    match op with
    | OpLiteral v | OpRegister v => set_unnamed st (unnamed st ++ [v])
    | OpPrint =>
        if c_print_takes_last c then
          match last_opt (unnamed st) with
          | Some v => set_unnamed (sink_out c (py_str v) st) (removelast (unnamed st))
          | None => st
          end
        else
          match unnamed st with
          | v :: _ => set_unnamed (sink_out c (py_str v) st) []
          | [] => st
          end
    | OpPrintEnd => sink_newline st
    | OpPrintf fmt e => vm_printf c fmt e st
    | OpDevice _ => st
    end
  end.

(* VmIo.flush *)
Definition vm_flush (c : cfg) (st0 : iostate) : iostate :=
  let st := provide c st0 in
  let st1 := fold_left (fun s v => sink_out c (py_str v) s) (unnamed st) st in
  let st2 := if c_flush_flushes_sink c then sink_flush c st1 else st1 in
  vm_reset c st2.

Definition run_ops (c : cfg) (ops : list io_op) (st : iostate) : iostate :=
  fold_left (fun s op => vm_out c op s) ops st.

(* ScriptJob.execute on a Machine that may have run before: Machine.reset, then
   Machine.run (the OUT instructions in execution order, then VmIo.flush unless an
   exception left the loop). *)
Definition execute (c : cfg) (ops : list io_op) (st0 : iostate) : iostate :=
  let st := set_aborted st0 false in
  let st := if c_machine_reset_io c then vm_reset c st else st in
  let st := run_ops c ops st in
  if aborted st then st else vm_flush c st.

(* A new ScriptJob has a new Machine, hence a new VmIo; the sink belongs to the process. *)
Definition new_job (st : iostate) : iostate := set_unnamed st [].

(* ---------- the OUT instructions io_parser emits (DESIGN Appendix A) ---------- *)

Fixpoint compile_ev (e : out_event) : list io_op :=
  match e with
  | EPrint0 => []
  | EPrint a => compile_arg a ++ [OpPrint]
  | EPrintln0 => [OpPrintEnd]
  | EPrintln a => compile_arg a ++ [OpPrint; OpPrintEnd]
  | EPrintf fmt args en =>
      (fix cargs (l : list arg) : list io_op :=
         match l with [] => [] | a :: r => compile_arg a ++ cargs r end) args ++ [OpPrintf fmt en]
  | EDevice d => [OpDevice d]
  end
with compile_arg (a : arg) : list io_op :=
  match a with
  | Arg pre v =>
      (fix cevs (l : list out_event) : list io_op :=
         match l with [] => [] | e :: r => compile_ev e ++ cevs r end) pre ++ [OpRegister v]
  end.

Fixpoint compile_evs (l : list out_event) : list io_op :=
  match l with [] => [] | e :: r => compile_ev e ++ compile_evs r end.
Fixpoint compile_args (l : list arg) : list io_op :=
  match l with [] => [] | a :: r => compile_arg a ++ compile_args r end.

(* one job, started in a process whose sink is in state st *)
Definition run_job (c : cfg) (events : list out_event) (st : iostate) : iostate :=
  execute c (compile_evs events) (new_job st).

(* one job in a fresh process *)
Definition run_io (c : cfg) (events : list out_event) : iostate := run_job c events init_state.

(* several jobs one after the other in one process *)
Definition run_jobs (c : cfg) (jobs : list (list out_event)) : iostate :=
  fold_left (fun st evs => run_job c evs st) jobs init_state.
