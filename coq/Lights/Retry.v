(* Model of bardolph/lib/retry.py: the decorator `tries(num_tries, ex_type, fail_value)`
   over a fault oracle.  No proofs here.

   The oracle is an outcome stream: the list of outcomes (true = the call returns,
   false = it raises ex_type) of the successive attempts; beyond the end of the list every
   attempt succeeds.  `tries n call fv s` is what the wrapped function does when the
   undecorated function would return `call`:

       tries_remaining = num_tries
       while tries_remaining > 0:
           try: return fn(...)            -- consumes one outcome of the stream
           except ex_type: tries_remaining -= 1
       return fail_value                   -- after logging 'Giving up after n tries.'
*)
From Coq Require Import List Bool Arith.
Import ListNotations.

Definition stream := list bool.

(* outcome of the next attempt / the stream after it *)
Definition next_ok (s : stream) : bool := match s with [] => true | b :: _ => b end.
Definition after (s : stream) : stream := match s with [] => [] | _ :: r => r end.

Inductive tried (A : Type) : Type :=
| Answered (a : A)         (* an attempt returned: its value *)
| GaveUp (fail_value : A). (* all attempts raised: the decorator's fail value, logged *)
Arguments Answered {A} a.
Arguments GaveUp {A} fail_value.

Definition gave_up {A} (t : tried A) : bool := match t with GaveUp _ => true | Answered _ => false end.
Definition tried_value {A} (t : tried A) : A := match t with GaveUp v => v | Answered v => v end.

(* (result | fail_value, attempts used, remaining stream) *)
Fixpoint tries_loop {A} (remaining : nat) (call fail_value : A) (s : stream) (used : nat)
  : tried A * nat * stream :=
  match remaining with
  | O => (GaveUp fail_value, used, s)
  | S k =>
      if next_ok s then (Answered call, S used, after s)
      else tries_loop k call fail_value (after s) (S used)
  end.

Definition tries {A} (num_tries : nat) (call fail_value : A) (s : stream) : tried A * nat * stream :=
  tries_loop num_tries call fail_value s 0.

(* the outcomes of the attempts actually made, in order (what the network sees) *)
Fixpoint tries_outcomes (remaining : nat) (s : stream) : list bool :=
  match remaining with
  | O => []
  | S k => if next_ok s then [true] else false :: tries_outcomes k (after s)
  end.

(* an undecorated call: one attempt; None stands for the exception propagating *)
Definition once {A} (call : A) (s : stream) : option A * stream :=
  (if next_ok s then Some call else None, after s).
