(* C12 -- proofs about Lights/Retry.v and Lights/Faults.v. *)
From Coq Require Import ZArith String List Bool Arith Lia.
From Bardolph Require Import Gen.FaultsGen Lights.Retry Lights.FaultsSpec Lights.Faults.
Open Scope string_scope.
Open Scope list_scope.
Import ListNotations.
Open Scope Z_scope.
Open Scope bool_scope.

(* ---------- ties to the source text (break when the source changes shape) ---------- *)

(* what the proofs below need from the code: bound 3, every device request method and both
   broadcasts retried (D47), a usable fail value for get_color, the capability check in
   _color_matrix_light (D23), the guarded zone count in MultizoneLight.__init__ (D24), the
   size guard in _matrix / _color_matrix_light (D48) *)
Definition good (sh : shapes) : Prop :=
  sh_max_tries sh = 3%nat /\ (forall k, sh_wrapped sh k = wrapped_all k) /\
  sh_get_fail_ok sh = true /\ sh_matrix_checked sh = true /\ sh_mz_guarded sh = true /\
  sh_size_guarded sh = true.

Lemma current_good : good current.
Proof. unfold good. split; [reflexivity|]. split; [intros []; reflexivity|]. repeat split; reflexivity. Qed.

Lemma repaired_good : good repaired.
Proof. unfold good. split; [reflexivity|]. split; [intros []; reflexivity|]. repeat split; reflexivity. Qed.

Lemma source_texts_current :
  shape_tries_loop = true /\ shape_wrapper_bodies = true /\ other_fail_values_none = true /\
  shape_lan_api = true /\ shape_light_set = true /\ shape_vm_handlers = true /\
  shape_run_blanket_except = true.
Proof. repeat split; reflexivity. Qed.

(* ---------- retry.tries ---------- *)

Definition all_fail (n : nat) (s : stream) : Prop := forall i, (i < n)%nat -> nth i s true = false.

Lemma nth_after i s : nth i (after s) true = nth (S i) s true.
Proof. destruct s; [destruct i|]; reflexivity. Qed.

Lemma next_ok_nth s : next_ok s = nth 0 s true.
Proof. destruct s; reflexivity. Qed.

Lemma tries_loop_spec {A} (call fv : A) : forall n s used,
  let '(r, u, rest) := tries_loop n call fv s used in
  (used <= u <= used + n)%nat /\
  (gave_up r = true <-> all_fail n s) /\
  (gave_up r = true -> r = GaveUp fv /\ u = (used + n)%nat) /\
  (gave_up r = false -> r = Answered call) /\
  rest = skipn (u - used) s.
Proof.
  induction n as [|n IH]; intros s used; cbn [tries_loop].
  - repeat split; try lia; try discriminate.
    + intros _ i Hi. lia.
    + rewrite Nat.sub_diag. reflexivity.
  - destruct (next_ok s) eqn:Hn.
    + repeat split; try lia; try discriminate.
      * cbn. intros H. specialize (H 0%nat ltac:(lia)). rewrite <- next_ok_nth in H. congruence.
      * replace (S used - used)%nat with 1%nat by lia. destruct s; reflexivity.
    + specialize (IH (after s) (S used)).
      destruct (tries_loop n call fv (after s) (S used)) as [[r u] rest].
      destruct IH as (Hu & Hg & Hg1 & Hg2 & Hr).
      repeat split; try lia.
      * intros H i Hi. destruct i as [|i]; [rewrite <- next_ok_nth; exact Hn|].
        rewrite <- nth_after. apply Hg; [exact H|lia].
      * intros H. apply Hg. intros i Hi. rewrite nth_after. apply H. lia.
      * apply Hg1; assumption.
      * destruct (Hg1 H) as [_ ->]. lia.
      * exact Hg2.
      * rewrite Hr. replace (u - used)%nat with (S (u - S used))%nat by lia.
        destruct s; [destruct (u - S used)%nat|]; reflexivity.
Qed.

(* tries_bound: at most n attempts; the fail value is returned exactly when the first n
   outcomes all fail.  For every n. *)
Lemma tries_bound {A} (n : nat) (call fv : A) (s : stream) :
  let '(r, attempts, rest) := tries n call fv s in
  (attempts <= n)%nat /\ (gave_up r = true <-> all_fail n s) /\
  (gave_up r = true -> r = GaveUp fv /\ attempts = n) /\ (gave_up r = false -> r = Answered call) /\
  rest = skipn attempts s.
Proof.
  unfold tries. pose proof (tries_loop_spec call fv n s 0) as H.
  destruct (tries_loop n call fv s 0) as [[r u] rest].
  destruct H as (Hu & Hg & Hg1 & Hg2 & Hr). rewrite Nat.sub_0_r in Hr.
  repeat split; try lia; try tauto.
Qed.

(* the outcomes seen by the network: k failures then one answer (k < n), or n failures *)
Lemma tries_outcomes_loop : forall n s used,
  (length (tries_outcomes n s) + used)%nat = snd (fst (tries_loop n tt tt s used)) /\
  (length (tries_outcomes n s) <= n)%nat /\
  stops_at_answer (tries_outcomes n s) = true /\
  (gave_up (fst (fst (tries_loop n tt tt s used))) = true -> forallb negb (tries_outcomes n s) = true) /\
  (gave_up (fst (fst (tries_loop n tt tt s used))) = false ->
     exists k, tries_outcomes n s = repeat false k ++ [true]).
Proof.
  induction n as [|n IH]; intros s used; cbn [tries_outcomes tries_loop].
  - cbn. repeat split; try lia; try discriminate.
  - destruct (next_ok s) eqn:Hn; cbn [length fst snd gave_up].
    + repeat split; try lia; try discriminate. intros _. exists 0%nat. reflexivity.
    + destruct (IH (after s) (S used)) as (H1 & H2 & H3 & H4 & H5).
      repeat split; try lia.
      * cbn [stops_at_answer]. exact H3.
      * intros H. cbn [forallb negb]. rewrite (H4 H). reflexivity.
      * intros H. destruct (H5 H) as [k Hk]. exists (S k). rewrite Hk. reflexivity.
Qed.

Lemma tries_outcomes_spec : forall n s,
  length (tries_outcomes n s) = snd (fst (tries n tt tt s)) /\
  (length (tries_outcomes n s) <= n)%nat /\
  stops_at_answer (tries_outcomes n s) = true /\
  (gave_up (fst (fst (tries n tt tt s))) = true -> forallb negb (tries_outcomes n s) = true) /\
  (gave_up (fst (fst (tries n tt tt s))) = false ->
     exists k, tries_outcomes n s = repeat false k ++ [true]).
Proof.
  intros n s. unfold tries. destruct (tries_outcomes_loop n s 0%nat) as (H1 & H2 & H3 & H4 & H5).
  repeat split; try assumption. lia.
Qed.

Ltac splits := repeat match goal with |- _ /\ _ => split end.

(* ---------- plans ---------- *)

Lemma rkind_eqb_eq a b : rkind_eqb a b = true <-> a = b.
Proof. destruct a, b; cbn; split; intros H; try reflexivity; try discriminate. Qed.

Lemma plan_set_same p d k s : plan_set p d k s d k = s.
Proof. unfold plan_set, rkind_eqb. rewrite !Z.eqb_refl. reflexivity. Qed.

Lemma plan_set_other_dev p d k s d' k' : d' <> d -> plan_set p d k s d' k' = p d' k'.
Proof. intros H. unfold plan_set. destruct (Z.eqb_spec d' d); [contradiction|reflexivity]. Qed.

Lemma plan_set_cases p d k s d' k' :
  plan_set p d k s d' k' = s \/ plan_set p d k s d' k' = p d' k'.
Proof. unfold plan_set. destruct ((d' =? d) && rkind_eqb k' k); auto. Qed.

Lemma Forall_skipn {A} (P : A -> Prop) n : forall l, Forall P l -> Forall P (skipn n l).
Proof.
  induction n as [|n IH]; intros l H; [exact H|].
  destruct l; [exact H|]. cbn. apply IH. inversion H; assumption.
Qed.

Definition all_ok (s : stream) : Prop := Forall (fun b => b = true) s.

Lemma healthy_plan_set_skipn p d k n h :
  healthy p h -> healthy (plan_set p d k (skipn n (p d k))) h.
Proof.
  intros H k'. unfold plan_set.
  destruct (Z.eqb_spec h d) as [->|Hne]; cbn [andb]; [|apply H].
  destruct (rkind_eqb k' k); [|apply H]. apply Forall_skipn. apply H.
Qed.

Lemma all_ok_next s : all_ok s -> next_ok s = true.
Proof. destruct s; [reflexivity|]. intros H. inversion H. assumption. Qed.

Lemma after_skipn s : after s = skipn 1 s.
Proof. destruct s; reflexivity. Qed.

(* ---------- one request ---------- *)

Section WithShapes.
Variable sh : shapes.
Hypothesis Hgood : good sh.

Lemma max_tries_3 : sh_max_tries sh = 3%nat.
Proof. exact (proj1 Hgood). Qed.
Lemma wrapped_eq k : sh_wrapped sh k = wrapped_all k.
Proof. exact (proj1 (proj2 Hgood) k). Qed.

Definition plan_stepped (st st' : state) (d : dev) (k : rkind) : Prop :=
  exists n, s_plan st' = plan_set (s_plan st) d k (skipn n (s_plan st d k)).

Lemma send_spec st d k pl :
  let '(st', sn, rq) := send sh st d k pl in
  r_dev rq = d /\ r_kind rq = k /\ r_payload rq = pl /\
  plan_stepped st st' d k /\
  s_regs st' = s_regs st /\ s_dirty st' = s_dirty st /\
  (length (r_outcomes rq) <= 3)%nat /\ stops_at_answer (r_outcomes rq) = true /\
  match sn with
  | SAnswered => st' = deliver (with_plan st (s_plan st')) d k pl /\ filter (fun b : bool => b) (r_outcomes rq) = [true]
  | SAbandoned => sh_wrapped sh k = true /\ st' = taint (with_plan st (s_plan st')) d /\ filter (fun b : bool => b) (r_outcomes rq) = []
  | SRaised => sh_wrapped sh k = false /\ st' = taint (with_plan st (s_plan st')) d /\ filter (fun b : bool => b) (r_outcomes rq) = []
  end /\
  (all_ok (s_plan st d k) -> sn = SAnswered /\ r_outcomes rq = [true]).
Proof.
  unfold send. set (s := s_plan st d k).
  destruct (sh_wrapped sh k) eqn:Hw.
  - pose proof (tries_bound (sh_max_tries sh) tt tt s) as Hb.
    pose proof (tries_outcomes_spec (sh_max_tries sh) s) as Ho.
    destruct (tries (sh_max_tries sh) tt tt s) as [[r u] rest] eqn:Ht.
    cbn [fst snd] in Ho. destruct Hb as (Hu & Hg & Hg1 & Hg2 & Hr).
    destruct Ho as (Hl & Hle & Hst & Hab & Hans). rewrite max_tries_3 in *.
    assert (Hok : all_ok s -> gave_up r = false /\ tries_outcomes 3 s = [true]).
    { intros Hs. cbn [tries_outcomes]. rewrite (all_ok_next s Hs). split; [|reflexivity].
      destruct (gave_up r) eqn:E; [|reflexivity].
      pose proof (proj1 Hg eq_refl 0%nat ltac:(lia)) as E'. rewrite <- next_ok_nth in E'.
      rewrite (all_ok_next s Hs) in E'. discriminate. }
    destruct (gave_up r) eqn:Eg; cbn [r_dev r_kind r_payload r_outcomes].
    + splits; try reflexivity; try assumption.
      * exists u. cbn. rewrite Hr. reflexivity.
      * clear -Hab. specialize (Hab eq_refl). induction (tries_outcomes 3 s) as [|b l IH]; [reflexivity|].
        cbn in Hab. apply andb_prop in Hab. destruct Hab as [Hb Hl]. destruct b; [discriminate|]. cbn. apply IH. exact Hl.
      * intros Hs. destruct (Hok Hs). discriminate.
    + splits; try reflexivity; try assumption.
      * exists u. destruct k; cbn; rewrite Hr; reflexivity.
      * destruct k; reflexivity.
      * destruct k; reflexivity.
      * destruct k; reflexivity.
      * destruct (Hans eq_refl) as [j ->]. clear. induction j; [reflexivity|exact IHj].
      * intros Hs. split; [reflexivity|]. apply Hok. exact Hs.
  - destruct (next_ok s) eqn:Hn; cbn [r_dev r_kind r_payload r_outcomes].
    + splits; try reflexivity.
      * exists 1%nat. subst s. destruct k; cbn; rewrite after_skipn; reflexivity.
      * destruct k; reflexivity.
      * destruct k; reflexivity.
      * cbn. lia.
      * destruct k; reflexivity.
      * intros _. split; reflexivity.
    + splits; try reflexivity.
      * exists 1%nat. subst s. cbn. rewrite after_skipn. reflexivity.
      * cbn. lia.
      * intros Hs. rewrite (all_ok_next s Hs) in Hn. discriminate.
Qed.

(* ---------- generic induction over `each` and `run` ---------- *)

Definition req_ok (r : request) : Prop :=
  (attempts r <= retry_bound)%nat /\ stops_at_answer (r_outcomes r) = true.

Lemma each_inv (I : state -> Prop) (P : request -> Prop) (Q : result -> Prop) f :
  Q Continue ->
  (forall st w, I st -> let '(st', res, t) := f st w in I st' /\ Forall P t /\ Q res) ->
  forall ws st, I st -> let '(st', res, t) := each f st ws in I st' /\ Forall P t /\ Q res.
Proof.
  intros HQ Hf. induction ws as [|w ws IH]; intros st HI; cbn [each].
  - auto.
  - specialize (Hf st w HI). destruct (f st w) as [[st1 res] t1]. destruct Hf as (HI1 & HP1 & HQ1).
    destruct res.
    + specialize (IH st1 HI1). destruct (each f st1 ws) as [[st2 res2] t2]. destruct IH as (HI2 & HP2 & HQ2).
      splits; try assumption. apply Forall_app. split; assumption.
    + auto.
Qed.

Lemma run_inv (I : state -> Prop) (P : request -> Prop) (Q : result -> Prop) dir :
  Q Continue ->
  (forall st c, I st -> let '(st', res, t) := step sh dir st c in I st' /\ Forall P t /\ Q res) ->
  forall cs st, I st -> let '(st', res, t) := run sh dir st cs in I st' /\ Forall P t /\ Q res.
Proof.
  intros HQ Hf. induction cs as [|c cs IH]; intros st HI; cbn [run].
  - auto.
  - specialize (Hf st c HI). destruct (step sh dir st c) as [[st1 res] t1]. destruct Hf as (HI1 & HP1 & HQ1).
    destruct res.
    + specialize (IH st1 HI1). destruct (run sh dir st1 cs) as [[st2 res2] t2]. destruct IH as (HI2 & HP2 & HQ2).
      splits; try assumption. apply Forall_app. split; assumption.
    + auto.
Qed.

(* ---------- at most three attempts, and the script survives ---------- *)

Definition lan_ok (st : state) : Prop := healthy (s_plan st) lan.

(* the reasons the device layer can give for an abort *)
Definition device_abort (r : result) : Prop :=
  r = Abort AbWorkflow \/ r = Abort AbAttribute \/ r = Abort AbType.
Definition survives (r : result) : Prop := ~ device_abort r.

Lemma stepped_healthy st st' d k h : plan_stepped st st' d k -> healthy (s_plan st) h -> healthy (s_plan st') h.
Proof. intros [n ->] H. apply healthy_plan_set_skipn. exact H. Qed.

(* a request through a retried method never ends the script *)
Definition anyst (st : state) : Prop := True.

Lemma request_then_ok st d k pl :
  wrapped_all k = true ->
  let '(st', res, t) := request_then sh st d k pl in
  anyst st' /\ Forall req_ok t /\ res = Continue.
Proof.
  intros Hk. unfold request_then. pose proof (send_spec st d k pl) as H.
  destruct (send sh st d k pl) as [[st' sn] rq].
  destruct H as (_ & _ & _ & Hp & _ & _ & Hlen & Hstop & Hsn & Hall).
  splits.
  - exact I.
  - constructor; [|constructor]. split; assumption.
  - destruct sn; try reflexivity. destruct Hsn as (Hw & _). rewrite wrapped_eq in Hw. congruence.
Qed.

(* the matrix commands address cells inside the matrix they are staged on (the light's own,
   or the 255 x 255 scratch matrix of a target that is not a matrix light of known size) *)
Definition matrix_ready (dir : directory) (c : cmd) : bool :=
  match c with
  | CMatrix n rows cols _ =>
      match find_light dir n with
      | Some w =>
          match w_kind w with
          | WMatrix (Some (h, wd)) => rect_ok (span rows h) (span cols wd) h wd
          | _ => rect_ok (span rows 255) (span cols 255) 255 255
          end
      | None => rect_ok (span rows 255) (span cols 255) 255 255
      end
  | _ => true
  end.

Definition script_abort (dir : directory) (c : cmd) (res : result) : Prop :=
  (matrix_ready dir c = true /\ res = Continue) \/ (matrix_ready dir c = false /\ res = Abort AbIndex).

Lemma step_ok dir st c :
  let '(st', res, t) := step sh dir st c in
  anyst st' /\ Forall req_ok t /\ script_abort dir c res.
Proof.
  assert (Hlan : anyst st) by exact I. unfold script_abort.
  assert (Hone : forall dur st w, anyst st ->
            let '(st', res, t) := color_one sh dur st w in anyst st' /\ Forall req_ok t /\ res = Continue).
  { intros dur st0 w H0. unfold color_one. apply request_then_ok; reflexivity. }
  assert (Hpow : forall on dur st w, anyst st ->
            let '(st', res, t) := power_one sh on dur st w in anyst st' /\ Forall req_ok t /\ res = Continue).
  { intros on dur st0 w H0. unfold power_one. apply request_then_ok; reflexivity. }
  assert (Hrt : forall d k pl, wrapped_all k = true ->
            let '(st', res, t) := request_then sh st d k pl in
            anyst st' /\ Forall req_ok t /\ ((true = true /\ res = Continue) \/ (true = false /\ res = Abort AbIndex))).
  { intros d k pl Hk. pose proof (request_then_ok st d k pl Hk) as H.
    destruct (request_then sh st d k pl) as [[st' res] t]. destruct H as (? & ? & ?). auto. }
  assert (Hskip : anyst st /\ Forall req_ok (@nil request) /\
                  ((true = true /\ Continue = Continue) \/ (true = false /\ Continue = Abort AbIndex))) by auto.
  assert (Heach : forall f ws, (forall st w, anyst st -> let '(st', res, t) := f st w in anyst st' /\ Forall req_ok t /\ res = Continue) ->
            let '(st', res, t) := each f st ws in
            anyst st' /\ Forall req_ok t /\ ((true = true /\ res = Continue) \/ (true = false /\ res = Abort AbIndex))).
  { intros f ws Hf. pose proof (each_inv anyst req_ok (fun r => r = Continue) f eq_refl Hf ws st Hlan) as H.
    destruct (each f st ws) as [[st' res] t]. destruct H as (? & ? & ?). auto. }
  destruct c as [v | t dur | t on dur | n first last dur | n rows cols dur | n]; cbn [step].
  - auto.
  - destruct t; cbn [resolve].
    + apply Hrt. reflexivity.
    + destruct (find_light dir n); [|exact Hskip]. apply Heach. intros; apply Hone; assumption.
    + destruct (members w_group dir n); [|exact Hskip]. apply Heach. intros; apply Hone; assumption.
    + destruct (members w_loc dir n); [|exact Hskip]. apply Heach. intros; apply Hone; assumption.
  - destruct t; cbn [resolve].
    + apply Hrt. reflexivity.
    + destruct (find_light dir n); [|exact Hskip]. apply Heach. intros; apply Hpow; assumption.
    + destruct (members w_group dir n); [|exact Hskip]. apply Heach. intros; apply Hpow; assumption.
    + destruct (members w_loc dir n); [|exact Hskip]. apply Heach. intros; apply Hpow; assumption.
  - destruct (find_light dir n) as [w|]; [|exact Hskip].
    destruct (w_kind w); try exact Hskip. apply Hrt. reflexivity.
  - cbn [matrix_ready]. destruct (find_light dir n) as [w|].
    + destruct (w_kind w) as [|z|[[h wd]|]].
      * destruct (rect_ok _ _ _ _); cbn [negb]; [|auto 6]. destruct Hgood as (_ & _ & _ & -> & _). splits; auto.
      * destruct (rect_ok _ _ _ _); cbn [negb]; [|auto 6]. destruct Hgood as (_ & _ & _ & -> & _). splits; auto.
      * destruct (rect_ok _ _ _ _); cbn [negb]; [|auto 6].
        pose proof (Hrt (w_dev w) KSetTile (cells h wd (span rows h) (span cols wd) (raw_color (s_regs st)) ++ [clamp32 dur; wd; h]) eq_refl) as H.
        destruct (request_then sh st (w_dev w) KSetTile _) as [[st' res] t]. destruct H as (? & ? & [[_ ?]|[? _]]); [auto 6|discriminate].
      * destruct Hgood as (_ & _ & _ & _ & _ & ->).
        destruct (rect_ok _ _ _ _); cbn [negb]; [|auto 6]. splits; auto.
    + destruct (rect_ok _ _ _ _); cbn [negb]; [|auto 6]. splits; auto.
  - destruct (find_light dir n) as [w|]; [|exact Hskip].
    destruct (w_kind w); try exact Hskip.
    pose proof (send_spec st (w_dev w) KGetColor []) as H.
    destruct (send sh st (w_dev w) KGetColor []) as [[st' sn] rq].
    destruct H as (_ & _ & _ & Hp & _ & _ & Hlen & Hstop & Hsn & Hall).
    assert (Hl' : anyst st') by exact I.
    assert (Hrq : Forall req_ok [rq]) by (constructor; [split; assumption|constructor]).
    destruct sn.
    + destruct (tainted st (w_dev w)); splits; auto.
    + destruct Hgood as (_ & _ & -> & _). splits; auto.
    + destruct Hsn as (Hw & _). rewrite wrapped_eq in Hw. discriminate.
Qed.

(* without any assumption on the plan: every request is attempted at most three times *)
Lemma send_req_ok st d k pl : req_ok (snd (send sh st d k pl)).
Proof.
  pose proof (send_spec st d k pl) as H. destruct (send sh st d k pl) as [[st' sn] rq].
  destruct H as (_ & _ & _ & _ & _ & _ & Hlen & Hstop & _). split; assumption.
Qed.

Lemma request_then_trace st d k pl :
  let '(st', res, t) := request_then sh st d k pl in True /\ Forall req_ok t /\ True.
Proof.
  unfold request_then. pose proof (send_req_ok st d k pl) as H.
  destruct (send sh st d k pl) as [[st' sn] rq]. splits; auto.
Qed.

Lemma step_trace dir st c :
  let '(st', res, t) := step sh dir st c in True /\ Forall req_ok t /\ True.
Proof.
  assert (Hskip : True /\ Forall req_ok (@nil request) /\ True) by auto.
  assert (Heach1 : forall dur ws, let '(st', res, t) := each (color_one sh dur) st ws in True /\ Forall req_ok t /\ True).
  { intros dur ws. apply (each_inv (fun _ => True) req_ok (fun _ => True)); auto.
    intros st0 w _. apply request_then_trace. }
  assert (Heach2 : forall on dur ws, let '(st', res, t) := each (power_one sh on dur) st ws in True /\ Forall req_ok t /\ True).
  { intros on dur ws. apply (each_inv (fun _ => True) req_ok (fun _ => True)); auto.
    intros st0 w _. apply request_then_trace. }
  destruct c as [v | t dur | t on dur | n first last dur | n rows cols dur | n]; cbn [step].
  - auto.
  - destruct t; cbn [resolve]; try apply request_then_trace.
    + destruct (find_light dir n); [apply Heach1|exact Hskip].
    + destruct (members w_group dir n); [apply Heach1|exact Hskip].
    + destruct (members w_loc dir n); [apply Heach1|exact Hskip].
  - destruct t; cbn [resolve]; try apply request_then_trace.
    + destruct (find_light dir n); [apply Heach2|exact Hskip].
    + destruct (members w_group dir n); [apply Heach2|exact Hskip].
    + destruct (members w_loc dir n); [apply Heach2|exact Hskip].
  - destruct (find_light dir n) as [w|]; [|exact Hskip].
    destruct (w_kind w); try exact Hskip. apply request_then_trace.
  - destruct (find_light dir n) as [w|].
    + destruct (w_kind w) as [|z|[[h wd]|]]; try exact Hskip;
        try (destruct (sh_size_guarded sh); [|exact Hskip]);
        destruct (negb (rect_ok _ _ _ _)); try exact Hskip; try apply request_then_trace;
        destruct (sh_matrix_checked sh); exact Hskip.
    + destruct (negb (rect_ok _ _ _ _)); exact Hskip.
  - destruct (find_light dir n) as [w|]; [|exact Hskip].
    destruct (w_kind w); try exact Hskip.
    pose proof (send_req_ok st (w_dev w) KGetColor []) as H.
    destruct (send sh st (w_dev w) KGetColor []) as [[st' sn] rq]. cbn [snd] in H.
    destruct sn; [destruct (tainted st (w_dev w))| destruct (sh_get_fail_ok sh) |]; splits; auto.
Qed.

(* THEOREM: each request of a run is attempted at most three times (and never re-sent
   once answered), whatever the plan, the directory and the commands. *)
Theorem run_attempts_bounded dir st cs :
  let '(st', res, t) := run sh dir st cs in attempts_bounded t /\ well_retried t.
Proof.
  pose proof (run_inv (fun _ => True) req_ok (fun _ => True) dir I (fun st c _ => step_trace dir st c) cs st I) as H.
  destruct (run sh dir st cs) as [[st' res] t]. destruct H as (_ & H & _).
  unfold attempts_bounded, well_retried. split; eapply Forall_impl; try exact H; intros r [H1 H2]; assumption.
Qed.

(* THEOREM: no device outcome, unknown name or capability mismatch ends the script, for
   every plan (broadcasts included) and every directory (matrix lights of unknown size
   included).  The only abort left is caused by the script's own row/column numbers
   (AbIndex: they lie outside the matrix the command is staged on). *)
Theorem run_survives dir st cs :
  let '(st', res, t) := run sh dir st cs in
  res = Continue \/ (res = Abort AbIndex /\ exists c, In c cs /\ matrix_ready dir c = false).
Proof.
  revert st. induction cs as [|c cs IH]; intros st; cbn [run]; [auto|].
  pose proof (step_ok dir st c) as H. destruct (step sh dir st c) as [[st1 res1] t1].
  destruct H as (_ & _ & [[_ ->] | [Hr ->]]).
  - specialize (IH st1). destruct (run sh dir st1 cs) as [[st2 res2] t2].
    destruct IH as [-> | [Hab (c' & Hin & Hc')]]; [auto|]. right. split; [exact Hab|]. exists c'. split; [right; exact Hin|exact Hc'].
  - right. split; [reflexivity|]. exists c. split; [left; reflexivity|exact Hr].
Qed.

(* in particular: when the matrix commands are addressable the script runs to its end *)
Corollary run_continues dir st cs :
  Forall (fun c => matrix_ready dir c = true) cs ->
  let '(st', res, t) := run sh dir st cs in res = Continue.
Proof.
  intros Hall. pose proof (run_survives dir st cs) as H.
  destruct (run sh dir st cs) as [[st' res] t]. destruct H as [H | [_ (c & Hin & Hc)]]; [exact H|].
  rewrite Forall_forall in Hall. rewrite (Hall c Hin) in Hc. discriminate.
Qed.

(* how a run ends is decided by the directory and the commands alone *)
Lemma run_result_independent dir cs : forall st1 st2,
  snd (fst (run sh dir st1 cs)) = snd (fst (run sh dir st2 cs)).
Proof.
  induction cs as [|c cs IH]; intros st1 st2; cbn [run]; [reflexivity|].
  pose proof (step_ok dir st1 c) as S1. pose proof (step_ok dir st2 c) as S2.
  destruct (step sh dir st1 c) as [[st1' r1] t1]. destruct (step sh dir st2 c) as [[st2' r2] t2].
  destruct S1 as (_ & _ & [[M1 ->] | [M1 ->]]); destruct S2 as (_ & _ & [[M2 ->] | [M2 ->]]); try congruence.
  - specialize (IH st1' st2').
    destruct (run sh dir st1' cs) as [[? ?] ?]. destruct (run sh dir st2' cs) as [[? ?] ?]. exact IH.
  - reflexivity.
Qed.

(* ---------- non-interference ---------- *)

(* run 1 under any plan, run 2 under a plan where every device (and the LAN) is healthy *)
Definition rel (st1 st2 : state) : Prop :=
  s_regs st1 = s_regs st2 /\
  (forall d, tainted st1 d = false -> s_colors st1 d = s_colors st2 d) /\
  (forall d, healthy (s_plan st2) d) /\ s_dirty st1 = false.

Lemma received_one h r : received h [r] = if r_dev r =? h then received_of r else [].
Proof. unfold received. cbn. rewrite app_nil_r. reflexivity. Qed.

Lemma received_app h t1 t2 : received h (t1 ++ t2) = received h t1 ++ received h t2.
Proof. unfold received. apply flat_map_app. Qed.

Lemma colors_deliver st p d k pl d' :
  s_colors (deliver (with_plan st p) d k pl) d' =
  match k with
  | KSetColor => if d' =? d then firstn 4 pl else s_colors st d'
  | KLanSetColorAll => firstn 4 pl
  | _ => s_colors st d'
  end.
Proof. destruct k; reflexivity. Qed.

Lemma tainted_deliver st p d k pl d' : tainted (deliver (with_plan st p) d k pl) d' = tainted st d'.
Proof. destruct k; reflexivity. Qed.

Lemma tainted_taint st p d d' :
  tainted (taint (with_plan st p) d) d' = false ->
  (d' =? d) = false /\ (lan =? d) = false /\ tainted st d' = false.
Proof.
  unfold tainted. cbn [s_tainted taint with_plan existsb]. intros H.
  apply orb_false_elim in H. destruct H as [H1 H2].
  apply orb_false_elim in H1. apply orb_false_elim in H2. destruct H1, H2.
  splits; try assumption. apply orb_false_intro; assumption.
Qed.

(* the broadcasts are addressed to the LAN *)
Definition lan_kind (k : rkind) : bool :=
  match k with KLanGetLights | KLanSetColorAll | KLanSetPowerAll => true | _ => false end.

Lemma send_rel st1 st2 d k pl :
  rel st1 st2 -> wrapped_all k = true -> (lan_kind k = true -> d = lan) ->
  let '(st1', s1, r1) := send sh st1 d k pl in
  let '(st2', s2, r2) := send sh st2 d k pl in
  rel st1' st2' /\ s1 <> SRaised /\
  (s1 = SAnswered -> (forall d', tainted st1' d' = tainted st1 d') /\ s_colors st1' = s_colors (deliver st1 d k pl)) /\
  (forall h, healthy (s_plan st1) h -> received h [r1] = received h [r2] /\ healthy (s_plan st1') h).
Proof.
  intros (Hregs & Hcol & Hh2 & Hdirty) Hk Hlk.
  pose proof (send_spec st1 d k pl) as H1. pose proof (send_spec st2 d k pl) as H2.
  destruct (send sh st1 d k pl) as [[st1' s1] r1]. destruct (send sh st2 d k pl) as [[st2' s2] r2].
  destruct H1 as (Hd1 & Hk1 & Hp1 & Hst1 & Hr1 & Hdi1 & _ & _ & Hs1 & Hall1).
  destruct H2 as (Hd2 & Hk2 & Hp2 & Hst2 & Hr2 & _ & _ & _ & Hs2 & Hall2).
  destruct (Hall2 (Hh2 d k)) as [-> Ho2]. destruct Hs2 as [Hs2 _].
  assert (Hnr : s1 <> SRaised).
  { intros ->. destruct Hs1 as (Hw & _). rewrite wrapped_eq in Hw. congruence. }
  assert (Hrec : forall h, healthy (s_plan st1) h -> received h [r1] = received h [r2] /\ healthy (s_plan st1') h).
  { intros h Hh. split; [|eapply stepped_healthy; eassumption].
    rewrite !received_one, Hd1, Hd2. destruct (Z.eqb_spec d h) as [->|]; [|reflexivity].
    destruct (Hall1 (Hh k)) as [_ Ho1]. unfold received_of. rewrite Hk1, Hk2, Hp1, Hp2, Ho1, Ho2. reflexivity. }
  splits; try assumption.
  - (* rel *)
    unfold rel. splits.
    + congruence.
    + intros d' Ht. destruct s1.
      * destruct Hs1 as [E1 _]. rewrite E1, Hs2, !colors_deliver. rewrite E1, tainted_deliver in Ht.
        destruct k; try (apply Hcol; exact Ht); try reflexivity.
        destruct (d' =? d); [reflexivity|apply Hcol; exact Ht].
      * destruct Hs1 as (Hw & E1 & _). rewrite E1 in Ht. apply tainted_taint in Ht.
        destruct Ht as (Hne & Hnl & Ht).
        rewrite E1, Hs2, colors_deliver. cbn [s_colors taint with_plan].
        destruct k; try (apply Hcol; exact Ht).
        -- (* an abandoned broadcast: it was addressed to the LAN, which is now tainted *)
           rewrite (Hlk eq_refl) in Hnl. cbn in Hnl. discriminate.
        -- rewrite Hne. apply Hcol. exact Ht.
      * contradiction.
    + intros d'. eapply stepped_healthy; [eassumption|apply Hh2].
    + congruence.
  - intros ->. destruct Hs1 as [E1 _]. split.
    + intros d'. rewrite E1. apply tainted_deliver.
    + rewrite E1. destruct k; reflexivity.
Qed.

Definition rel_h (h : dev) (st1 st2 : state) : Prop := rel st1 st2 /\ healthy (s_plan st1) h.

Definition both3 (h : dev) (o1 o2 : outcome3) : Prop :=
  let '(st1', res1, t1) := o1 in
  let '(st2', res2, t2) := o2 in
  rel_h h st1' st2' /\ res1 = Continue /\ res2 = Continue /\ received h t1 = received h t2.

Lemma request_then_rel h st1 st2 d k pl :
  rel_h h st1 st2 -> wrapped_all k = true -> (lan_kind k = true -> d = lan) ->
  both3 h (request_then sh st1 d k pl) (request_then sh st2 d k pl).
Proof.
  intros [Hrel Hh] Hk Hlk. unfold both3, request_then.
  pose proof (send_rel st1 st2 d k pl Hrel Hk Hlk) as H. pose proof (send_spec st2 d k pl) as H2.
  destruct (send sh st1 d k pl) as [[st1' s1] r1]. destruct (send sh st2 d k pl) as [[st2' s2] r2].
  destruct H as (Hr & Hnr & _ & Hrec). destruct (Hrec h Hh) as [He Hh'].
  destruct H2 as (_ & _ & _ & _ & _ & _ & _ & _ & _ & Hall2).
  assert (s2 = SAnswered) as ->
    by (destruct Hrel as (_ & _ & Hh2' & _); exact (proj1 (Hall2 (Hh2' d k)))).
  unfold rel_h. splits; try assumption; try reflexivity.
  destruct s1; try reflexivity. contradiction.
Qed.

Lemma each_rel h f1 f2 :
  (forall st1 st2 w, rel_h h st1 st2 -> both3 h (f1 st1 w) (f2 st2 w)) ->
  forall ws st1 st2, rel_h h st1 st2 -> both3 h (each f1 st1 ws) (each f2 st2 ws).
Proof.
  intros Hf. induction ws as [|w ws IH]; intros st1 st2 Hrel; cbn [each].
  - unfold both3. auto.
  - specialize (Hf st1 st2 w Hrel). unfold both3 in Hf.
    destruct (f1 st1 w) as [[st1' res1] t1]. destruct (f2 st2 w) as [[st2' res2] t2].
    destruct Hf as (Hrel' & -> & -> & He).
    specialize (IH st1' st2' Hrel'). unfold both3 in IH |- *.
    destruct (each f1 st1' ws) as [[st1'' res1'] t1']. destruct (each f2 st2' ws) as [[st2'' res2'] t2'].
    destruct IH as (? & ? & ? & He'). splits; try assumption.
    rewrite !received_app, He, He'. reflexivity.
Qed.

Lemma color_one_rel h dur st1 st2 w :
  rel_h h st1 st2 -> both3 h (color_one sh dur st1 w) (color_one sh dur st2 w).
Proof.
  intros Hrel. unfold color_one. destruct Hrel as [Hr Hh]. pose proof Hr as (Hregs & _). rewrite Hregs.
  apply request_then_rel; [split; assumption|reflexivity|discriminate].
Qed.

Lemma power_one_rel h on dur st1 st2 w :
  rel_h h st1 st2 -> both3 h (power_one sh on dur st1 w) (power_one sh on dur st2 w).
Proof. intros Hrel. unfold power_one. apply request_then_rel; [assumption|reflexivity|discriminate]. Qed.

(* one command in both runs *)
Definition step3 (h : dev) (o1 o2 : outcome3) : Prop :=
  let '(st1', res1, t1) := o1 in
  let '(st2', res2, t2) := o2 in
  res1 = res2 /\ received h t1 = received h t2 /\ (s_dirty st1' = false -> rel_h h st1' st2').

Lemma both3_step3 h o1 o2 : both3 h o1 o2 -> step3 h o1 o2.
Proof.
  destruct o1 as [[st1 r1] t1], o2 as [[st2 r2] t2]. unfold both3, step3.
  intros (? & -> & -> & ?). auto.
Qed.

Lemma step_rel h dir st1 st2 c :
  rel_h h st1 st2 -> step3 h (step sh dir st1 c) (step sh dir st2 c).
Proof.
  intros Hrel. pose proof Hrel as [Hr Hh]. pose proof Hr as (Hregs & Hcol & Hh2 & Hdirty).
  assert (Hskip : step3 h (st1, Continue, []) (st2, Continue, [])) by (unfold step3; auto).
  destruct c as [v | t dur | t on dur | n first last dur | n rows cols dur | n]; cbn [step].
  - unfold step3. splits; auto. intros _. split; [|exact Hh]. unfold rel. splits; auto.
  - destruct t; cbn [resolve].
    + rewrite Hregs. apply both3_step3, request_then_rel; [exact Hrel|reflexivity|reflexivity].
    + destruct (find_light dir n); [|exact Hskip]. apply both3_step3, each_rel; [|exact Hrel]. intros; apply color_one_rel; assumption.
    + destruct (members w_group dir n); [|exact Hskip]. apply both3_step3, each_rel; [|exact Hrel]. intros; apply color_one_rel; assumption.
    + destruct (members w_loc dir n); [|exact Hskip]. apply both3_step3, each_rel; [|exact Hrel]. intros; apply color_one_rel; assumption.
  - destruct t; cbn [resolve].
    + apply both3_step3, request_then_rel; [exact Hrel|reflexivity|reflexivity].
    + destruct (find_light dir n); [|exact Hskip]. apply both3_step3, each_rel; [|exact Hrel]. intros; apply power_one_rel; assumption.
    + destruct (members w_group dir n); [|exact Hskip]. apply both3_step3, each_rel; [|exact Hrel]. intros; apply power_one_rel; assumption.
    + destruct (members w_loc dir n); [|exact Hskip]. apply both3_step3, each_rel; [|exact Hrel]. intros; apply power_one_rel; assumption.
  - destruct (find_light dir n) as [w|]; [|exact Hskip].
    destruct (w_kind w); try exact Hskip.
    rewrite Hregs. apply both3_step3, request_then_rel; [exact Hrel|reflexivity|discriminate].
  - assert (Hab : forall r, step3 h (st1, Abort r, []) (st2, Abort r, [])) by (intros r; unfold step3; auto).
    destruct (find_light dir n) as [w|].
    + destruct (w_kind w) as [|z|[[hh wd]|]].
      * destruct (negb (rect_ok _ _ _ _)); [apply Hab|]. destruct (sh_matrix_checked sh); [exact Hskip|apply Hab].
      * destruct (negb (rect_ok _ _ _ _)); [apply Hab|]. destruct (sh_matrix_checked sh); [exact Hskip|apply Hab].
      * destruct (negb (rect_ok _ _ _ _)); [apply Hab|].
        rewrite Hregs. apply both3_step3, request_then_rel; [exact Hrel|reflexivity|discriminate].
      * destruct (sh_size_guarded sh); [|apply Hab]. destruct (negb (rect_ok _ _ _ _)); [apply Hab|exact Hskip].
    + destruct (negb (rect_ok _ _ _ _)); [apply Hab|exact Hskip].
  - destruct (find_light dir n) as [w|]; [|exact Hskip].
    destruct (w_kind w); try exact Hskip.
    pose proof (send_rel st1 st2 (w_dev w) KGetColor [] Hr eq_refl ltac:(discriminate)) as H.
    pose proof (send_spec st2 (w_dev w) KGetColor []) as H2.
    destruct (send sh st1 (w_dev w) KGetColor []) as [[st1' s1] r1].
    destruct (send sh st2 (w_dev w) KGetColor []) as [[st2' s2] r2].
    destruct H as (Hr' & Hnr & Hans & Hrec). destruct (Hrec h Hh) as [He Hh'].
    destruct H2 as (_ & _ & _ & _ & _ & _ & _ & _ & Hs2 & Hall2).
    destruct (Hall2 (Hh2 (w_dev w) KGetColor)) as [-> _]. destruct Hs2 as [Hs2 _].
    pose proof Hr' as (Hregs' & Hcol' & Hh2' & Hdirty').
    destruct s1.
    + destruct (Hans eq_refl) as [Ht Hc].
      destruct (tainted st1 (w_dev w)) eqn:Hta; destruct (tainted st2 (w_dev w)); unfold step3; splits; auto;
        try (cbn; discriminate);
        (intros _; split; [|exact Hh']; unfold rel; cbn [s_regs s_colors s_plan s_dirty with_regs soil tainted s_tainted lan_ok];
         splits; try assumption; apply Hcol'; rewrite Ht; exact Hta).
    + destruct Hgood as (_ & _ & -> & _). destruct (tainted st2 (w_dev w)); unfold step3; cbn; splits; auto; intros; discriminate.
    + contradiction.
Qed.

(* once a `get` has read something unreliable the run stays marked *)
Definition marked (st : state) : Prop := s_dirty st = true.

Lemma request_then_marked st d k pl :
  marked st -> let '(st', res, t) := request_then sh st d k pl in marked st' /\ Forall (fun _ => True) t /\ True.
Proof.
  intros Hm. unfold request_then. pose proof (send_spec st d k pl) as H.
  destruct (send sh st d k pl) as [[st' sn] rq]. destruct H as (_ & _ & _ & _ & _ & Hd & _).
  unfold marked in *. splits; auto. congruence.
Qed.

Lemma step_marked dir st c :
  marked st -> let '(st', res, t) := step sh dir st c in marked st' /\ Forall (fun _ => True) t /\ True.
Proof.
  intros Hm.
  assert (Hskip : marked st /\ Forall (fun _ : request => True) [] /\ True) by auto.
  assert (Heach1 : forall dur ws, let '(st', res, t) := each (color_one sh dur) st ws in marked st' /\ Forall (fun _ => True) t /\ True).
  { intros dur ws. apply (each_inv marked (fun _ => True) (fun _ => True)); auto.
    intros st0 w H0. apply request_then_marked. exact H0. }
  assert (Heach2 : forall on dur ws, let '(st', res, t) := each (power_one sh on dur) st ws in marked st' /\ Forall (fun _ => True) t /\ True).
  { intros on dur ws. apply (each_inv marked (fun _ => True) (fun _ => True)); auto.
    intros st0 w H0. apply request_then_marked. exact H0. }
  destruct c as [v | t dur | t on dur | n first last dur | n rows cols dur | n]; cbn [step].
  - auto.
  - destruct t; cbn [resolve]; try (apply request_then_marked; exact Hm).
    + destruct (find_light dir n); [apply Heach1|exact Hskip].
    + destruct (members w_group dir n); [apply Heach1|exact Hskip].
    + destruct (members w_loc dir n); [apply Heach1|exact Hskip].
  - destruct t; cbn [resolve]; try (apply request_then_marked; exact Hm).
    + destruct (find_light dir n); [apply Heach2|exact Hskip].
    + destruct (members w_group dir n); [apply Heach2|exact Hskip].
    + destruct (members w_loc dir n); [apply Heach2|exact Hskip].
  - destruct (find_light dir n) as [w|]; [|exact Hskip].
    destruct (w_kind w); try exact Hskip. apply request_then_marked; exact Hm.
  - destruct (find_light dir n) as [w|].
    + destruct (w_kind w) as [|z|[[h wd]|]]; try exact Hskip;
        try (destruct (sh_size_guarded sh); [|exact Hskip]);
        destruct (negb (rect_ok _ _ _ _)); try exact Hskip; try (apply request_then_marked; exact Hm);
        destruct (sh_matrix_checked sh); exact Hskip.
    + destruct (negb (rect_ok _ _ _ _)); exact Hskip.
  - destruct (find_light dir n) as [w|]; [|exact Hskip].
    destruct (w_kind w); try exact Hskip.
    pose proof (send_spec st (w_dev w) KGetColor []) as H.
    destruct (send sh st (w_dev w) KGetColor []) as [[st' sn] rq].
    destruct H as (_ & _ & _ & _ & _ & Hd & _). unfold marked in *.
    destruct sn; [destruct (tainted st (w_dev w))| destruct (sh_get_fail_ok sh) |]; cbn; splits; auto; congruence.
Qed.

Lemma run_marked dir cs st :
  marked st -> let '(st', res, t) := run sh dir st cs in marked st'.
Proof.
  intros Hm. pose proof (run_inv marked (fun _ => True) (fun _ => True) dir I (fun st c H => step_marked dir st c H) cs st Hm) as H.
  destruct (run sh dir st cs) as [[st' res] t]. tauto.
Qed.

Lemma run_rel h dir cs : forall st1 st2,
  rel_h h st1 st2 ->
  let '(st1', res1, t1) := run sh dir st1 cs in
  let '(st2', res2, t2) := run sh dir st2 cs in
  s_dirty st1' = false -> res1 = res2 /\ received h t1 = received h t2.
Proof.
  induction cs as [|c cs IH]; intros st1 st2 Hrel; cbn [run]; [auto|].
  pose proof (step_rel h dir st1 st2 c Hrel) as H. unfold step3 in H.
  destruct (step sh dir st1 c) as [[st1' res1] t1] eqn:E1. destruct (step sh dir st2 c) as [[st2' res2] t2] eqn:E2.
  destruct H as (<- & He & Hnext).
  destruct res1 as [|r].
  - destruct (s_dirty st1') eqn:Hd.
    + pose proof (run_marked dir cs st1' Hd) as Hm.
      destruct (run sh dir st1' cs) as [[st1'' res1'] t1']. destruct (run sh dir st2' cs) as [[st2'' res2'] t2'].
      unfold marked in Hm. intros Hf. congruence.
    + specialize (IH st1' st2' (Hnext eq_refl)).
      destruct (run sh dir st1' cs) as [[st1'' res1'] t1']. destruct (run sh dir st2' cs) as [[st2'' res2'] t2'].
      intros Hf. destruct (IH Hf) as [-> He']. split; [reflexivity|]. rewrite !received_app, He, He'. reflexivity.
  - auto.
Qed.

(* THEOREM (non-interference): a device the plan leaves alone receives, under the plan,
   exactly what it receives in the run where every request is answered -- for every
   directory, command list, starting registers and device colours, provided no `get` read an
   unreliable value (s_dirty = false at the end). *)
Theorem run_non_interference dir cs (p q : plan) regs colors h :
  (forall d, healthy q d) -> healthy p h ->
  let '(st1, res1, t1) := run sh dir (init_state p regs colors) cs in
  let '(st2, res2, t2) := run sh dir (init_state q regs colors) cs in
  s_dirty st1 = false -> res1 = res2 /\ received h t1 = received h t2.
Proof.
  intros Hq Hh. apply run_rel. split; [|exact Hh].
  unfold rel, init_state; cbn. splits; auto.
Qed.

(* ---------- unknown names and capability mismatches change nothing ---------- *)

Lemma idle_step dir st c :
  idle dir c = true -> addressable c = true -> step sh dir st c = (st, Continue, []).
Proof.
  destruct Hgood as (_ & _ & _ & Hchk & _ & Hsz).
  destruct c as [v | t dur | t on dur | n first last dur | n rows cols dur | n]; cbn [idle addressable step].
  - discriminate.
  - destruct t; try discriminate; cbn [resolve];
      [destruct (find_light dir n) | destruct (members w_group dir n) | destruct (members w_loc dir n)];
      intros; try discriminate; reflexivity.
  - destruct t; try discriminate; cbn [resolve];
      [destruct (find_light dir n) | destruct (members w_group dir n) | destruct (members w_loc dir n)];
      intros; try discriminate; reflexivity.
  - destruct (find_light dir n) as [w|]; [|reflexivity]. destruct (w_kind w); intros; try discriminate; reflexivity.
  - destruct (find_light dir n) as [w|].
    + destruct (w_kind w) as [|z|[[h wd]|]]; intros H1 H2; try discriminate;
        rewrite ?Hsz, H2, ?Hchk; reflexivity.
    + intros _ H2. rewrite H2. reflexivity.
  - destruct (find_light dir n) as [w|]; [|reflexivity]. destruct (w_kind w); intros; try discriminate; reflexivity.
Qed.

(* THEOREM: deleting the commands aimed at unknown or wrong-type targets changes neither the
   requests, nor the registers, nor the way the run ends. *)
Theorem run_without_idle dir cs : forall st,
  Forall (fun c => addressable c = true) cs ->
  run sh dir st cs = run sh dir st (filter (fun c => negb (idle dir c)) cs).
Proof.
  induction cs as [|c cs IH]; intros st Hall; [reflexivity|].
  inversion Hall as [|? ? Hc Hcs]; subst. cbn [filter].
  destruct (idle dir c) eqn:Hi; cbn [negb].
  - cbn [run]. rewrite (idle_step dir st c Hi Hc). rewrite <- (IH st Hcs).
    destruct (run sh dir st cs) as [[st' res] t]. reflexivity.
  - cbn [run]. destruct (step sh dir st c) as [[st1 res] t1]. destruct res; [|reflexivity].
    rewrite (IH st1 Hcs). reflexivity.
Qed.

(* ---------- discovery ---------- *)

Lemma build_light_total st nd :
  match snd (fst (build_light sh st nd)) with BRaise => False | _ => True end.
Proof.
  destruct Hgood as (_ & _ & _ & _ & Hg & _).
  unfold build_light. destruct (n_kind nd).
  - destruct (ask_all sh st (n_dev nd) _) as [[st1 ok] t1]. destruct (negb ok); exact I.
  - destruct (ask_all sh st (n_dev nd) _) as [[st1 ok] t1]. destruct (negb ok); [exact I|].
    destruct (send sh st1 (n_dev nd) KGetZones []) as [[st2 []] rq]; cbn; try exact I. rewrite Hg. exact I.
  - destruct (ask_all sh st (n_dev nd) _) as [[st1 ok] t1]. destruct (negb ok); [exact I|].
    destruct (send sh st1 (n_dev nd) KGetChain []) as [[st2 []] rq]; exact I.
Qed.

Lemma build_all_total net : forall st,
  match snd (fst (build_all sh st net)) with GLRaise => False | _ => True end.
Proof.
  induction net as [|nd net IH]; intros st; cbn [build_all]; [exact I|].
  pose proof (build_light_total st nd) as H. destruct (build_light sh st nd) as [[st1 b] t1]. cbn [fst snd] in H.
  destruct b; [|exact I|contradiction].
  specialize (IH st1). destruct (build_all sh st1 net) as [[st2 g] t2]. cbn [fst snd] in *. destruct g; auto.
Qed.

(* THEOREM: discovery reports a boolean for every plan, network and previous directory. *)
Theorem discover_total dir st net :
  discover_never_raises (snd (fst (fst (discover sh dir st net)))).
Proof.
  unfold discover, get_lights.
  destruct (send sh st lan KLanGetLights []) as [[st1 []] rq].
  - pose proof (build_all_total net st1) as H. destruct (build_all sh st1 net) as [[st2 g] t]. cbn [fst snd] in H.
    destruct g; cbn; [exists true|exists false|contradiction]; reflexivity.
  - exists false. reflexivity.
  - exists false. reflexivity.
Qed.

(* THEOREM: a discovery that reports failure leaves the directory as it was. *)
Theorem failed_discover_keeps_directory dir st net :
  let '(_, e, dir', _) := discover sh dir st net in
  e = Reported false -> dir' = dir /\ failed_discover_keeps e (view dir) (view dir').
Proof.
  unfold discover. destruct (get_lights sh st net) as [[st1 g] t].
  destruct g; intros H; try discriminate. split; [reflexivity|]. intros _. reflexivity.
Qed.

(* every request of a discovery is attempted at most three times as well *)
Lemma ask_all_trace ks : forall st d, Forall req_ok (snd (ask_all sh st d ks)).
Proof.
  induction ks as [|k ks IH]; intros st d; cbn [ask_all]; [constructor|].
  pose proof (send_req_ok st d k []) as H. destruct (send sh st d k []) as [[st1 sn] rq]. cbn [snd] in H.
  destruct sn; try (cbn; constructor; [exact H|constructor]).
  specialize (IH st1 d). destruct (ask_all sh st1 d ks) as [[st2 ok] t]. cbn [snd] in *. constructor; assumption.
Qed.

Lemma build_light_trace st nd : Forall req_ok (snd (build_light sh st nd)).
Proof.
  unfold build_light. destruct (n_kind nd).
  - pose proof (ask_all_trace ([KGetFeatures; KGetProductName; KGetFeatures] ++ init_requests) st (n_dev nd)) as H.
    destruct (ask_all sh st (n_dev nd) _) as [[st1 ok] t1]. destruct (negb ok); exact H.
  - pose proof (ask_all_trace ([KGetFeatures; KGetProductName] ++ init_requests) st (n_dev nd)) as H.
    destruct (ask_all sh st (n_dev nd) _) as [[st1 ok] t1]. cbn [snd] in H. destruct (negb ok); [exact H|].
    pose proof (send_req_ok st1 (n_dev nd) KGetZones []) as H2.
    destruct (send sh st1 (n_dev nd) KGetZones []) as [[st2 sn] rq]. cbn [snd] in H2.
    destruct sn; cbn [snd]; apply Forall_app; (split; [exact H|constructor; [exact H2|constructor]]).
  - pose proof (ask_all_trace ([KGetFeatures; KGetProductName; KGetFeatures] ++ init_requests) st (n_dev nd)) as H.
    destruct (ask_all sh st (n_dev nd) _) as [[st1 ok] t1]. cbn [snd] in H. destruct (negb ok); [exact H|].
    pose proof (send_req_ok st1 (n_dev nd) KGetChain []) as H2.
    destruct (send sh st1 (n_dev nd) KGetChain []) as [[st2 sn] rq]. cbn [snd] in H2.
    destruct sn; cbn [snd]; apply Forall_app; (split; [exact H|constructor; [exact H2|constructor]]).
Qed.

Lemma build_all_trace net : forall st, Forall req_ok (snd (build_all sh st net)).
Proof.
  induction net as [|nd net IH]; intros st; cbn [build_all]; [constructor|].
  pose proof (build_light_trace st nd) as H. destruct (build_light sh st nd) as [[st1 b] t1]. cbn [snd] in H.
  destruct b; try exact H.
  specialize (IH st1). destruct (build_all sh st1 net) as [[st2 g] t2]. cbn [snd] in *. apply Forall_app. split; assumption.
Qed.

Theorem discover_attempts_bounded dir st net :
  let '(_, _, _, t) := discover sh dir st net in attempts_bounded t /\ well_retried t.
Proof.
  assert (H : Forall req_ok (snd (discover sh dir st net))).
  { unfold discover, get_lights.
    pose proof (send_req_ok st lan KLanGetLights []) as H1.
    destruct (send sh st lan KLanGetLights []) as [[st1 sn] rq]. cbn [snd] in H1.
    destruct sn; try (cbn; constructor; [exact H1|constructor]).
    pose proof (build_all_trace net st1) as H2. destruct (build_all sh st1 net) as [[st2 g] t]. cbn [snd] in H2.
    destruct g; cbn; constructor; assumption. }
  destruct (discover sh dir st net) as [[[st' e] dir'] t]. cbn [snd] in H.
  unfold attempts_bounded, well_retried. split; eapply Forall_impl; try exact H; intros r [H1 H2]; assumption.
Qed.

End WithShapes.

(* ---------- the statements for the code as it is now ---------- *)

Lemma no_faults_healthy d : healthy no_faults d.
Proof. intros k. constructor. Qed.

(* what "first n outcomes all fail" means, for every bound n (tries_bound) *)
Theorem tries_bound_all {A} (n : nat) (call fv : A) (s : stream) :
  let '(r, attempts, rest) := tries n call fv s in
  (attempts <= n)%nat /\ (r = GaveUp fv <-> all_fail n s) /\ (r <> GaveUp fv -> r = Answered call) /\
  rest = skipn attempts s.
Proof.
  pose proof (tries_bound n call fv s) as H. destruct (tries n call fv s) as [[r u] rest].
  destruct H as (Hu & Hg & Hg1 & Hg2 & Hr). splits; try assumption.
  - split.
    + intros ->. apply Hg. reflexivity.
    + intros Hf. apply Hg1, Hg. exact Hf.
  - intros Hne. destruct (gave_up r) eqn:E; [|apply Hg2; reflexivity]. destruct (Hg1 eq_refl) as [-> _]. contradiction.
Qed.

(* non-interference in the specification's words, with the commands aimed at unknown or
   wrong-type targets deleted from the reference run *)
Theorem non_interference_current dir cs (p : plan) regs colors :
  Forall (fun c => addressable c = true) cs ->
  let '(st1, res1, t1) := run current dir (init_state p regs colors) cs in
  let '(st2, res2, t2) := run current dir (init_state no_faults regs colors)
                              (filter (fun c => negb (idle dir c)) cs) in
  res1 = res2 /\ (s_dirty st1 = false -> undisturbed (healthy p) t1 t2).
Proof.
  intros Hadd.
  rewrite <- (run_without_idle current current_good dir cs (init_state no_faults regs colors) Hadd).
  pose proof (run_result_independent current current_good dir cs (init_state p regs colors) (init_state no_faults regs colors)) as Hres.
  destruct (run current dir (init_state p regs colors) cs) as [[st1 res1] t1] eqn:E1.
  destruct (run current dir (init_state no_faults regs colors) cs) as [[st2 res2] t2] eqn:E2.
  split; [exact Hres|].
  intros Hd h Hh.
  pose proof (run_non_interference current current_good dir cs p no_faults regs colors h no_faults_healthy Hh) as H.
  rewrite E1, E2 in H. apply H. exact Hd.
Qed.

(* ---------- examples: the hypotheses are satisfiable, the exclusions necessary ---------- *)

Definition ex_dir : directory :=
  [ mkw 0 "A" "g" "home" WPlain; mkw 1 "B" "g" "home" WPlain;
    mkw 3 "C" "h" "home" (WMatrix (Some (2, 2))); mkw 2 "S" "h" "den" (WMultizone 8) ].
Definition ex_colors : dev -> list Z := fun d => [d + 10; 20; 30; 40].
Definition silent (d : dev) (k : rkind) : plan := plan_set no_faults d k [false; false; false].

Lemma silent_healthy d k h : h <> d -> healthy (silent d k) h.
Proof. intros Hne k'. unfold silent. rewrite plan_set_other_dev by exact Hne. constructor. Qed.

Definition result_of (o : outcome3) : result := snd (fst o).
Definition trace_of (o : outcome3) : trace := snd o.
Definition dirty_of (o : outcome3) : bool := s_dirty (fst (fst o)).

(* a silent light, unknown names and wrong-type targets: the script runs to its end, the
   silent light's request is tried three times and abandoned, its group mate is served *)
Definition ex_cmds : list cmd :=
  [CRegs [1; 2; 3; 4]; CColor (TGroup "g") 5; CPower (TLight "Nobody") true 0; CZone "A" 1 None 0;
   CMatrix "S" (Some (1, None)) None 0; CGet "C"; CColor (TLocation "nowhere") 0; CPower (TLight "B") false 0].

Example ex_survives :
  let o := run current ex_dir (init_state (silent 0 KSetColor) [0; 0; 0; 0] ex_colors) ex_cmds in
  result_of o = Continue /\ dirty_of o = false /\
  trace_of o = [mkreq 0 KSetColor [1; 2; 3; 4; 5] [false; false; false]; mkreq 1 KSetColor [1; 2; 3; 4; 5] [true];
                mkreq 1 KSetPower [0; 0] [true]].
Proof. vm_compute. auto. Qed.

(* ... and it is an instance of the theorems: hypotheses satisfiable *)
Example ex_non_interference :
  healthy (silent 0 KSetColor) lan /\ healthy (silent 0 KSetColor) 1 /\
  Forall (fun c => addressable c = true) ex_cmds /\
  filter (fun c => negb (idle ex_dir c)) ex_cmds = [CRegs [1; 2; 3; 4]; CColor (TGroup "g") 5; CPower (TLight "B") false 0] /\
  received 1 (trace_of (run current ex_dir (init_state (silent 0 KSetColor) [0; 0; 0; 0] ex_colors) ex_cmds))
  = [(KSetColor, [1; 2; 3; 4; 5]); (KSetPower, [0; 0])].
Proof.
  splits; try (apply silent_healthy; discriminate); try reflexivity.
  repeat constructor.
Qed.

(* NECESSITY of the exclusion, 1: a `get` that is abandoned yields the documented -1
   colour, and a healthy light then receives another colour than in the fault-free run *)
Example failed_get_interferes :
  let cs := [CRegs [1; 2; 3; 4]; CGet "A"; CColor (TLight "B") 0] in
  let o1 := run current ex_dir (init_state (silent 0 KGetColor) [0; 0; 0; 0] ex_colors) cs in
  let o2 := run current ex_dir (init_state no_faults [0; 0; 0; 0] ex_colors) cs in
  healthy (silent 0 KGetColor) 1 /\ dirty_of o1 = true /\ result_of o1 = Continue /\
  received 1 (trace_of o1) = [(KSetColor, [0; 0; 0; 0; 0])] /\
  received 1 (trace_of o2) = [(KSetColor, [10; 20; 30; 40; 0])].
Proof. cbv zeta. splits; try (apply silent_healthy; discriminate); vm_compute; reflexivity. Qed.

(* NECESSITY, 2: the `get` is answered, but by a light whose previous `set` was abandoned *)
Example stale_get_interferes :
  let cs := [CRegs [1; 2; 3; 4]; CColor (TLight "A") 0; CGet "A"; CColor (TLight "B") 0] in
  let o1 := run current ex_dir (init_state (silent 0 KSetColor) [0; 0; 0; 0] ex_colors) cs in
  let o2 := run current ex_dir (init_state no_faults [0; 0; 0; 0] ex_colors) cs in
  healthy (silent 0 KSetColor) 1 /\ dirty_of o1 = true /\
  received 1 (trace_of o1) = [(KSetColor, [10; 20; 30; 40; 0])] /\
  received 1 (trace_of o2) = [(KSetColor, [1; 2; 3; 4; 0])].
Proof. cbv zeta. splits; try (apply silent_healthy; discriminate); vm_compute; reflexivity. Qed.

(* NECESSITY of the capability check (D23): with the pinned text of
   Machine._color_matrix_light a row command aimed at a plain bulb ends the script *)
Example pinned_matrix_on_plain_aborts :
  let cs := [CMatrix "A" (Some (1, None)) None 0; CColor (TLight "B") 0] in
  let o := run pinned ex_dir (init_state no_faults [1; 2; 3; 4] ex_colors) cs in
  result_of o = Abort AbAttribute /\ received 1 (trace_of o) = [] /\
  result_of (run repaired ex_dir (init_state no_faults [1; 2; 3; 4] ex_colors) cs) = Continue.
Proof. vm_compute. auto. Qed.

(* NECESSITY of the guard in MultizoneLight.__init__ (D24): with the pinned text a
   multizone light that stays silent makes discovery raise *)
Definition ex_net : network :=
  [ mkn 0 "A" "g" "home" NPlain; mkn 2 "S" "h" "den" (NMultizone 8); mkn 3 "C" "h" "home" (NMatrix 2 2) ].

Definition discover_end_of (o : state * discover_end * directory * trace) : discover_end := snd (fst (fst o)).
Definition directory_of (o : state * discover_end * directory * trace) : directory := snd (fst o).

Example pinned_silent_multizone_raises :
  discover_end_of (discover pinned [] (init_state (silent 2 KGetZones) [] ex_colors) ex_net) = Raised /\
  discover_end_of (discover repaired [] (init_state (silent 2 KGetZones) [] ex_colors) ex_net) = Reported true.
Proof. vm_compute. auto. Qed.

(* discovery: a failing identity request reports failure and keeps the directory; a
   fault-free one fills it in name order *)
Example ex_discover_fails :
  let o := discover current ex_dir (init_state (plan_set no_faults 2 KGetGroup [false]) [] ex_colors) ex_net in
  discover_end_of o = Reported false /\ directory_of o = ex_dir.
Proof. vm_compute. auto. Qed.

Example ex_discover_succeeds :
  view (directory_of (discover current [] (init_state no_faults [] ex_colors) ex_net))
  = [("A", (0, 0)); ("C", (3, 1002002)); ("S", (2, 1008))].
Proof. vm_compute. reflexivity. Qed.

(* NECESSITY of retrying the broadcasts (D47): with the pinned LifxLanApi a broadcast that
   cannot be sent ends the script; with the repaired one it is tried three times, abandoned,
   and the next command is served *)
Example pinned_broadcast_failure_aborts :
  let cs := [CColor TAll 0; CColor (TLight "B") 0] in
  let st := init_state (plan_set no_faults lan KLanSetColorAll [false; false; false]) [1; 2; 3; 4] ex_colors in
  result_of (run pinned ex_dir st cs) = Abort AbWorkflow /\ received 1 (trace_of (run pinned ex_dir st cs)) = [] /\
  result_of (run repaired ex_dir st cs) = Continue /\
  trace_of (run repaired ex_dir st cs) = [mkreq lan KLanSetColorAll [1; 2; 3; 4; 0] [false; false; false];
                                          mkreq 1 KSetColor [1; 2; 3; 4; 0] [true]].
Proof. vm_compute. auto. Qed.

(* NECESSITY of the size guard (D48): a matrix light that stayed silent to the size query
   during discovery is entered with height = width = None; with the pinned handlers the
   first row/column command aimed at it ends the script, with the repaired ones it is skipped *)
Example pinned_silent_matrix_aborts :
  let cs := [CMatrix "C" (Some (1, None)) None 0; CColor (TLight "A") 0] in
  let d := discover repaired [] (init_state (silent 3 KGetChain) [] ex_colors) ex_net in
  let st := init_state no_faults [1; 2; 3; 4] ex_colors in
  discover_end_of d = Reported true /\
  result_of (run pinned (directory_of d) st cs) = Abort AbSize /\
  result_of (run repaired (directory_of d) st cs) = Continue /\
  received 0 (trace_of (run repaired (directory_of d) st cs)) = [(KSetColor, [1; 2; 3; 4; 0])].
Proof. vm_compute. auto. Qed.

(* ---------- the existential forms quoted in Props/C12.v ---------- *)

Theorem discover_total_current dir st net :
  let '(_, e, _, t) := discover current dir st net in
  discover_never_raises e /\ attempts_bounded t.
Proof.
  pose proof (discover_total current current_good dir st net) as H1.
  pose proof (discover_attempts_bounded current current_good dir st net) as H2.
  destruct (discover current dir st net) as [[[st' e] dir'] t]. cbn [fst snd] in H1. tauto.
Qed.

Theorem get_exclusion_necessary :
  (exists dir cs p regs colors h,
     healthy p h /\ healthy p lan /\
     dirty_of (run current dir (init_state p regs colors) cs) = true /\
     exists k, In (CGet k) cs /\ p 0 KGetColor = [false; false; false] /\
     received h (trace_of (run current dir (init_state p regs colors) cs)) <>
     received h (trace_of (run current dir (init_state no_faults regs colors) cs))) /\
  (exists dir cs p regs colors h,
     healthy p h /\ healthy p lan /\ p 0 KGetColor = [] /\
     dirty_of (run current dir (init_state p regs colors) cs) = true /\
     received h (trace_of (run current dir (init_state p regs colors) cs)) <>
     received h (trace_of (run current dir (init_state no_faults regs colors) cs))).
Proof.
  split.
  - exists ex_dir, [CRegs [1; 2; 3; 4]; CGet "A"; CColor (TLight "B") 0], (silent 0 KGetColor), [0; 0; 0; 0], ex_colors, 1.
    splits; try (apply silent_healthy; discriminate); try reflexivity.
    exists "A". splits; [right; left; reflexivity|reflexivity|vm_compute; discriminate].
  - exists ex_dir, [CRegs [1; 2; 3; 4]; CColor (TLight "A") 0; CGet "A"; CColor (TLight "B") 0],
           (silent 0 KSetColor), [0; 0; 0; 0], ex_colors, 1.
    splits; try (apply silent_healthy; discriminate); try reflexivity. vm_compute; discriminate.
Qed.

Theorem matrix_on_plain_refuted :
  exists dir st cs, result_of (run pinned dir st cs) = Abort AbAttribute /\
                    result_of (run repaired dir st cs) = Continue.
Proof.
  exists ex_dir, (init_state no_faults [1; 2; 3; 4] ex_colors), [CMatrix "A" (Some (1, None)) None 0; CColor (TLight "B") 0].
  split; reflexivity.
Qed.

Theorem silent_multizone_refuted :
  exists dir st net, discover_end_of (discover pinned dir st net) = Raised /\
                     discover_end_of (discover repaired dir st net) = Reported true.
Proof.
  exists [], (init_state (silent 2 KGetZones) [] ex_colors), ex_net. split; reflexivity.
Qed.

Theorem broadcast_failure_refuted :
  exists dir st cs, result_of (run pinned dir st cs) = Abort AbWorkflow /\
                    result_of (run repaired dir st cs) = Continue.
Proof.
  exists ex_dir, (init_state (plan_set no_faults lan KLanSetColorAll [false; false; false]) [1; 2; 3; 4] ex_colors),
         [CColor TAll 0; CColor (TLight "B") 0].
  split; reflexivity.
Qed.

Theorem silent_matrix_refuted :
  exists net p cs,
    let d := discover repaired [] (init_state p [] (fun _ => [])) net in
    let st := init_state no_faults [0; 0; 0; 0] (fun _ => [0; 0; 0; 0]) in
    discover_end_of d = Reported true /\
    result_of (run pinned (directory_of d) st cs) = Abort AbSize /\
    result_of (run repaired (directory_of d) st cs) = Continue.
Proof.
  exists ex_net, (silent 3 KGetChain), [CMatrix "C" (Some (1, None)) None 0; CColor (TLight "A") 0].
  cbv zeta. splits; reflexivity.
Qed.
