(* C12 -- proofs about Lights/Retry.v and Lights/Faults.v. *)
From Coq Require Import ZArith String List Bool Arith Lia.
From Bardolph Require Import Gen.FaultsGen Lights.Retry Lights.FaultsSpec Lights.Faults.
Open Scope string_scope.
Open Scope list_scope.
Import ListNotations.
Open Scope Z_scope.
Open Scope bool_scope.

(* ---------- ties to the source text (break when the source changes shape) ---------- *)

(* what the proofs below need from the code: bound 3, every device request method retried,
   a usable fail value for get_color, the capability check in _color_matrix_light (D23),
   the guarded zone count in MultizoneLight.__init__ (D24) *)
Definition good (sh : shapes) : Prop :=
  sh_max_tries sh = 3%nat /\ (forall k, sh_wrapped sh k = wrapped_all k) /\
  sh_get_fail_ok sh = true /\ sh_matrix_checked sh = true /\ sh_mz_guarded sh = true.

Lemma current_good : good current.
Proof. unfold good. split; [reflexivity|]. split; [intros []; reflexivity|]. repeat split; reflexivity. Qed.

Lemma repaired_good : good repaired.
Proof. unfold good. split; [reflexivity|]. split; [intros []; reflexivity|]. repeat split; reflexivity. Qed.

Lemma source_texts_current :
  shape_tries_loop = true /\ shape_wrapper_bodies = true /\ other_fail_values_none = true /\
  shape_lan_api = true /\ shape_light_set = true /\ shape_vm_handlers = true /\
  shape_run_blanket_except = true.
Proof. repeat split; reflexivity. Qed.

(* ---------- retry.tries ---------- *)

Definition all_fail (n : nat) (s : stream) : Prop := forall i, (i < n)%nat -> nth i s true = false.

Lemma nth_after i s : nth i (after s) true = nth (S i) s true.
Proof. destruct s; [destruct i|]; reflexivity. Qed.

Lemma next_ok_nth s : next_ok s = nth 0 s true.
Proof. destruct s; reflexivity. Qed.

Lemma tries_loop_spec {A} (call fv : A) : forall n s used,
  let '(r, u, rest) := tries_loop n call fv s used in
  (used <= u <= used + n)%nat /\
  (gave_up r = true <-> all_fail n s) /\
  (gave_up r = true -> r = GaveUp fv /\ u = (used + n)%nat) /\
  (gave_up r = false -> r = Answered call) /\
  rest = skipn (u - used) s.
Proof.
  induction n as [|n IH]; intros s used; cbn [tries_loop].
  - repeat split; try lia; try discriminate.
    + intros _ i Hi. lia.
    + rewrite Nat.sub_diag. reflexivity.
  - destruct (next_ok s) eqn:Hn.
    + repeat split; try lia; try discriminate.
      * cbn. intros H. specialize (H 0%nat ltac:(lia)). rewrite <- next_ok_nth in H. congruence.
      * replace (S used - used)%nat with 1%nat by lia. destruct s; reflexivity.
    + specialize (IH (after s) (S used)).
      destruct (tries_loop n call fv (after s) (S used)) as [[r u] rest].
      destruct IH as (Hu & Hg & Hg1 & Hg2 & Hr).
      repeat split; try lia.
      * intros H i Hi. destruct i as [|i]; [rewrite <- next_ok_nth; exact Hn|].
        rewrite <- nth_after. apply Hg; [exact H|lia].
      * intros H. apply Hg. intros i Hi. rewrite nth_after. apply H. lia.
      * apply Hg1; assumption.
      * destruct (Hg1 H) as [_ ->]. lia.
      * exact Hg2.
      * rewrite Hr. replace (u - used)%nat with (S (u - S used))%nat by lia.
        destruct s; [destruct (u - S used)%nat|]; reflexivity.
Qed.

(* tries_bound: at most n attempts; the fail value is returned exactly when the first n
   outcomes all fail.  For every n. *)
Lemma tries_bound {A} (n : nat) (call fv : A) (s : stream) :
  let '(r, attempts, rest) := tries n call fv s in
  (attempts <= n)%nat /\ (gave_up r = true <-> all_fail n s) /\
  (gave_up r = true -> r = GaveUp fv /\ attempts = n) /\ (gave_up r = false -> r = Answered call) /\
  rest = skipn attempts s.
Proof.
  unfold tries. pose proof (tries_loop_spec call fv n s 0) as H.
  destruct (tries_loop n call fv s 0) as [[r u] rest].
  destruct H as (Hu & Hg & Hg1 & Hg2 & Hr). rewrite Nat.sub_0_r in Hr.
  repeat split; try lia; try tauto.
Qed.

(* the outcomes seen by the network: k failures then one answer (k < n), or n failures *)
Lemma tries_outcomes_loop : forall n s used,
  (length (tries_outcomes n s) + used)%nat = snd (fst (tries_loop n tt tt s used)) /\
  (length (tries_outcomes n s) <= n)%nat /\
  stops_at_answer (tries_outcomes n s) = true /\
  (gave_up (fst (fst (tries_loop n tt tt s used))) = true -> forallb negb (tries_outcomes n s) = true) /\
  (gave_up (fst (fst (tries_loop n tt tt s used))) = false ->
     exists k, tries_outcomes n s = repeat false k ++ [true]).
Proof.
  induction n as [|n IH]; intros s used; cbn [tries_outcomes tries_loop].
  - cbn. repeat split; try lia; try discriminate.
  - destruct (next_ok s) eqn:Hn; cbn [length fst snd gave_up].
    + repeat split; try lia; try discriminate. intros _. exists 0%nat. reflexivity.
    + destruct (IH (after s) (S used)) as (H1 & H2 & H3 & H4 & H5).
      repeat split; try lia.
      * cbn [stops_at_answer]. exact H3.
      * intros H. cbn [forallb negb]. rewrite (H4 H). reflexivity.
      * intros H. destruct (H5 H) as [k Hk]. exists (S k). rewrite Hk. reflexivity.
Qed.

Lemma tries_outcomes_spec : forall n s,
  length (tries_outcomes n s) = snd (fst (tries n tt tt s)) /\
  (length (tries_outcomes n s) <= n)%nat /\
  stops_at_answer (tries_outcomes n s) = true /\
  (gave_up (fst (fst (tries n tt tt s))) = true -> forallb negb (tries_outcomes n s) = true) /\
  (gave_up (fst (fst (tries n tt tt s))) = false ->
     exists k, tries_outcomes n s = repeat false k ++ [true]).
Proof.
  intros n s. unfold tries. destruct (tries_outcomes_loop n s 0%nat) as (H1 & H2 & H3 & H4 & H5).
  repeat split; try assumption. lia.
Qed.

Ltac splits := repeat match goal with |- _ /\ _ => split end.

(* ---------- plans ---------- *)

Lemma rkind_eqb_eq a b : rkind_eqb a b = true <-> a = b.
Proof. destruct a, b; cbn; split; intros H; try reflexivity; try discriminate. Qed.

Lemma plan_set_same p d k s : plan_set p d k s d k = s.
Proof. unfold plan_set, rkind_eqb. rewrite !Z.eqb_refl. reflexivity. Qed.

Lemma plan_set_other_dev p d k s d' k' : d' <> d -> plan_set p d k s d' k' = p d' k'.
Proof. intros H. unfold plan_set. destruct (Z.eqb_spec d' d); [contradiction|reflexivity]. Qed.

Lemma plan_set_cases p d k s d' k' :
  plan_set p d k s d' k' = s \/ plan_set p d k s d' k' = p d' k'.
Proof. unfold plan_set. destruct ((d' =? d) && rkind_eqb k' k); auto. Qed.

Lemma Forall_skipn {A} (P : A -> Prop) n : forall l, Forall P l -> Forall P (skipn n l).
Proof.
  induction n as [|n IH]; intros l H; [exact H|].
  destruct l; [exact H|]. cbn. apply IH. inversion H; assumption.
Qed.

Definition all_ok (s : stream) : Prop := Forall (fun b => b = true) s.

Lemma healthy_plan_set_skipn p d k n h :
  healthy p h -> healthy (plan_set p d k (skipn n (p d k))) h.
Proof.
  intros H k'. unfold plan_set.
  destruct (Z.eqb_spec h d) as [->|Hne]; cbn [andb]; [|apply H].
  destruct (rkind_eqb k' k); [|apply H]. apply Forall_skipn. apply H.
Qed.

Lemma all_ok_next s : all_ok s -> next_ok s = true.
Proof. destruct s; [reflexivity|]. intros H. inversion H. assumption. Qed.

Lemma after_skipn s : after s = skipn 1 s.
Proof. destruct s; reflexivity. Qed.

(* ---------- one request ---------- *)

Section WithShapes.
Variable sh : shapes.
Hypothesis Hgood : good sh.

Lemma max_tries_3 : sh_max_tries sh = 3%nat.
Proof. exact (proj1 Hgood). Qed.
Lemma wrapped_eq k : sh_wrapped sh k = wrapped_all k.
Proof. exact (proj1 (proj2 Hgood) k). Qed.

Definition plan_stepped (st st' : state) (d : dev) (k : rkind) : Prop :=
  exists n, s_plan st' = plan_set (s_plan st) d k (skipn n (s_plan st d k)).

Lemma send_spec st d k pl :
  let '(st', sn, rq) := send sh st d k pl in
  r_dev rq = d /\ r_kind rq = k /\ r_payload rq = pl /\
  plan_stepped st st' d k /\
  s_regs st' = s_regs st /\ s_dirty st' = s_dirty st /\
  (length (r_outcomes rq) <= 3)%nat /\ stops_at_answer (r_outcomes rq) = true /\
  match sn with
  | SAnswered => st' = deliver (with_plan st (s_plan st')) d k pl /\ filter (fun b : bool => b) (r_outcomes rq) = [true]
  | SAbandoned => sh_wrapped sh k = true /\ st' = taint (with_plan st (s_plan st')) d /\ filter (fun b : bool => b) (r_outcomes rq) = []
  | SRaised => sh_wrapped sh k = false /\ st' = taint (with_plan st (s_plan st')) d /\ filter (fun b : bool => b) (r_outcomes rq) = []
  end /\
  (all_ok (s_plan st d k) -> sn = SAnswered /\ r_outcomes rq = [true]).
Proof.
  unfold send. set (s := s_plan st d k).
  destruct (sh_wrapped sh k) eqn:Hw.
  - pose proof (tries_bound (sh_max_tries sh) tt tt s) as Hb.
    pose proof (tries_outcomes_spec (sh_max_tries sh) s) as Ho.
    destruct (tries (sh_max_tries sh) tt tt s) as [[r u] rest] eqn:Ht.
    cbn [fst snd] in Ho. destruct Hb as (Hu & Hg & Hg1 & Hg2 & Hr).
    destruct Ho as (Hl & Hle & Hst & Hab & Hans). rewrite max_tries_3 in *.
    assert (Hok : all_ok s -> gave_up r = false /\ tries_outcomes 3 s = [true]).
    { intros Hs. cbn [tries_outcomes]. rewrite (all_ok_next s Hs). split; [|reflexivity].
      destruct (gave_up r) eqn:E; [|reflexivity].
      pose proof (proj1 Hg eq_refl 0%nat ltac:(lia)) as E'. rewrite <- next_ok_nth in E'.
      rewrite (all_ok_next s Hs) in E'. discriminate. }
    destruct (gave_up r) eqn:Eg; cbn [r_dev r_kind r_payload r_outcomes].
    + splits; try reflexivity; try assumption.
      * exists u. cbn. rewrite Hr. reflexivity.
      * clear -Hab. specialize (Hab eq_refl). induction (tries_outcomes 3 s) as [|b l IH]; [reflexivity|].
        cbn in Hab. apply andb_prop in Hab. destruct Hab as [Hb Hl]. destruct b; [discriminate|]. cbn. apply IH. exact Hl.
      * intros Hs. destruct (Hok Hs). discriminate.
    + splits; try reflexivity; try assumption.
      * exists u. destruct k; cbn; rewrite Hr; reflexivity.
      * destruct k; reflexivity.
      * destruct k; reflexivity.
      * destruct k; reflexivity.
      * destruct (Hans eq_refl) as [j ->]. clear. induction j; [reflexivity|exact IHj].
      * intros Hs. split; [reflexivity|]. apply Hok. exact Hs.
  - destruct (next_ok s) eqn:Hn; cbn [r_dev r_kind r_payload r_outcomes].
    + splits; try reflexivity.
      * exists 1%nat. subst s. destruct k; cbn; rewrite after_skipn; reflexivity.
      * destruct k; reflexivity.
      * destruct k; reflexivity.
      * cbn. lia.
      * destruct k; reflexivity.
      * intros _. split; reflexivity.
    + splits; try reflexivity.
      * exists 1%nat. subst s. cbn. rewrite after_skipn. reflexivity.
      * cbn. lia.
      * intros Hs. rewrite (all_ok_next s Hs) in Hn. discriminate.
Qed.

End WithShapes.
