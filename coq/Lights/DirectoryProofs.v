(* Proofs for C13: order, sorted lists, SortedList operations, the directory
   invariant, expiry, refinement to the abstract directory, iteration. *)
From Coq Require Import ZArith NArith String Ascii List Bool Sorted Lia Permutation.
From Bardolph Require Import Lights.SortedList Lights.Directory Lights.DirectorySpec.
Import ListNotations.
Open Scope string_scope.
Open Scope list_scope.
Open Scope Z_scope.
Open Scope bool_scope.

(* ================= order ================= *)
Lemma str_ltb_irrefl : forall a, str_ltb a a = false.
Proof.
  induction a as [|c a IH]; cbn; auto.
  rewrite N.ltb_irrefl. exact IH.
Qed.

Lemma N_of_ascii_inj : forall c d, N_of_ascii c = N_of_ascii d -> c = d.
Proof.
  intros c d H. rewrite <- (ascii_N_embedding c), <- (ascii_N_embedding d). now rewrite H.
Qed.

Lemma str_ltb_trans : forall a b c, str_ltb a b = true -> str_ltb b c = true -> str_ltb a c = true.
Proof.
  induction a as [|x a IH]; intros [|y b] [|z c]; cbn; try congruence.
  destruct (N_of_ascii x <? N_of_ascii y)%N eqn:E1;
  destruct (N_of_ascii y <? N_of_ascii x)%N eqn:E2;
  destruct (N_of_ascii y <? N_of_ascii z)%N eqn:E3;
  destruct (N_of_ascii z <? N_of_ascii y)%N eqn:E4;
  destruct (N_of_ascii x <? N_of_ascii z)%N eqn:E5;
  destruct (N_of_ascii z <? N_of_ascii x)%N eqn:E6;
  rewrite ?N.ltb_lt, ?N.ltb_ge in *; try congruence; try lia.
  apply IH.
Qed.

Lemma str_ltb_total : forall a b, str_ltb a b = false -> str_ltb b a = false -> a = b.
Proof.
  induction a as [|x a IH]; intros [|y b]; cbn; try congruence.
  destruct (N_of_ascii x <? N_of_ascii y)%N eqn:E1;
  destruct (N_of_ascii y <? N_of_ascii x)%N eqn:E2; try congruence.
  rewrite N.ltb_ge in *. intros H1 H2.
  assert (x = y) by (apply N_of_ascii_inj; lia). subst. f_equal. now apply IH.
Qed.

Lemma str_ltb_asym : forall a b, str_ltb a b = true -> str_ltb b a = false.
Proof.
  intros a b H. destruct (str_ltb b a) eqn:E; auto.
  pose proof (str_ltb_trans _ _ _ H E) as T. now rewrite str_ltb_irrefl in T.
Qed.

Lemma str_lt_irrefl a : ~ str_lt a a.
Proof. unfold str_lt. now rewrite str_ltb_irrefl. Qed.
Lemma str_lt_trans a b c : str_lt a b -> str_lt b c -> str_lt a c.
Proof. apply str_ltb_trans. Qed.
Lemma str_lt_asym a b : str_lt a b -> ~ str_lt b a.
Proof. unfold str_lt. intros H. now rewrite (str_ltb_asym _ _ H). Qed.
Lemma str_lt_trichotomy a b : str_lt a b \/ a = b \/ str_lt b a.
Proof.
  unfold str_lt. destruct (str_ltb a b) eqn:E1; auto. destruct (str_ltb b a) eqn:E2; auto.
  right; left. now apply str_ltb_total.
Qed.

Lemma str_eqb_eq a b : str_eqb a b = true <-> a = b.
Proof. apply String.eqb_eq. Qed.

Lemma ltb_false_neq_gt a b : str_ltb a b = false -> str_eqb a b = false -> str_ltb b a = true.
Proof.
  intros H1 H2. destruct (str_ltb b a) eqn:E; auto.
  pose proof (str_ltb_total _ _ H1 E). subst. unfold str_eqb in H2. now rewrite String.eqb_refl in H2.
Qed.

(* ================= sorted lists ================= *)
Lemma sorted_nil : sorted [].
Proof. constructor. Qed.

Lemma sorted_cons_iff x l : sorted (x :: l) <-> sorted l /\ Forall (str_lt x) l.
Proof.
  split.
  - intros H. inversion H; subst. auto.
  - intros [H1 H2]. now constructor.
Qed.

Lemma sorted_single x : sorted [x].
Proof. apply sorted_cons_iff. split; constructor. Qed.

Lemma sorted_not_in_head x l : sorted (x :: l) -> ~ In x l.
Proof.
  intros H Hin. apply sorted_cons_iff in H as [_ H]. rewrite Forall_forall in H.
  exact (str_lt_irrefl _ (H _ Hin)).
Qed.

Lemma sorted_NoDup l : sorted l -> NoDup l.
Proof.
  induction l as [|x l IH]; intros H; constructor.
  - now apply sorted_not_in_head.
  - apply IH. now apply sorted_cons_iff in H.
Qed.

Lemma sorted_ext : forall l1 l2, sorted l1 -> sorted l2 -> (forall x, In x l1 <-> In x l2) -> l1 = l2.
Proof.
  induction l1 as [|a l1 IH]; intros [|b l2] S1 S2 E.
  - reflexivity.
  - exfalso. apply (proj2 (E b)). now left.
  - exfalso. apply (proj1 (E a)). now left.
  - pose proof S1 as S1'. pose proof S2 as S2'.
    apply sorted_cons_iff in S1' as [S1t F1]. apply sorted_cons_iff in S2' as [S2t F2].
    rewrite Forall_forall in F1, F2.
    assert (a = b).
    { destruct (proj1 (E a) (or_introl eq_refl)) as [->|Ha]; auto.
      destruct (proj2 (E b) (or_introl eq_refl)) as [->|Hb]; auto.
      exfalso. apply (str_lt_asym a b); auto. }
    subst b. f_equal. apply IH; auto.
    intros x. split; intros Hx.
    + destruct (proj1 (E x) (or_intror Hx)) as [->|]; auto.
      exfalso. now apply (sorted_not_in_head _ _ S1).
    + destruct (proj2 (E x) (or_intror Hx)) as [->|]; auto.
      exfalso. now apply (sorted_not_in_head _ _ S2).
Qed.

Lemma sortedb_sound l : sortedb l = true -> sorted l.
Proof.
  induction l as [|x l IH]; intros H.
  - constructor.
  - destruct l as [|y t].
    + apply sorted_single.
    + cbn [sortedb] in H. apply andb_true_iff in H as [H1 H2].
      specialize (IH H2). apply sorted_cons_iff. split; auto.
      constructor; [exact H1|].
      apply sorted_cons_iff in IH as [_ F]. rewrite Forall_forall in *.
      intros z Hz. apply (str_lt_trans x y z); auto.
Qed.

Lemma sortedb_complete l : sorted l -> sortedb l = true.
Proof.
  induction l as [|x l IH]; intros H; auto.
  apply sorted_cons_iff in H as [H1 H2]. destruct l as [|y t]; auto.
  change (str_ltb x y && sortedb (y :: t) = true). rewrite (IH H1), andb_true_r. inversion H2; auto.
Qed.

Lemma memb_In x l : memb x l = true <-> In x l.
Proof.
  unfold memb. rewrite existsb_exists. split.
  - intros [y [Hy E]]. apply String.eqb_eq in E. now subst.
  - intros H. exists x. split; auto. apply String.eqb_refl.
Qed.

Lemma nodupb_NoDup l : nodupb l = true <-> NoDup l.
Proof.
  induction l as [|x l IH]; cbn.
  - split; auto. constructor.
  - rewrite andb_true_iff, negb_true_iff, IH. split.
    + intros [H1 H2]. constructor; auto. rewrite <- memb_In. now rewrite H1.
    + intros H. inversion H; subst. split; auto.
      destruct (memb x l) eqn:E; auto. apply memb_In in E. contradiction.
Qed.

(* ================= SortedList operations, structurally ================= *)
(* The bisect-based methods coincide (on every list) with these recursive forms. *)
Fixpoint ins (x : string) (l : list string) : list string :=
  match l with
  | [] => [x]
  | y :: t => if str_ltb y x then y :: ins x t
              else if str_eqb y x then y :: t else x :: y :: t
  end.

Fixpoint del (x : string) (l : list string) : list string :=
  match l with
  | [] => []
  | y :: t => if str_ltb y x then y :: del x t
              else if str_eqb y x then t else y :: t
  end.

Fixpoint nxt (x : string) (l : list string) : option string :=
  match l with
  | [] => None
  | y :: t => if str_ltb x y then Some y else nxt x t
  end.

Fixpoint prv (x : string) (l : list string) : option string :=
  match l with
  | [] => None
  | y :: t => if str_ltb y x
              then match prv x t with Some z => Some z | None => Some y end
              else None
  end.

Lemma index_of_cons_lt y t x : str_ltb y x = true ->
  sl_index_of (y :: t) x = option_map S (sl_index_of t x).
Proof.
  intros H. unfold sl_index_of. cbn [bisect_left length]. rewrite H.
  cbn [Nat.eqb nth].
  destruct (negb (Nat.eqb (bisect_left t x) (length t)) && str_eqb (nth (bisect_left t x) t "") x); reflexivity.
Qed.

Lemma index_of_cons_ge y t x : str_ltb y x = false ->
  sl_index_of (y :: t) x = if str_eqb y x then Some O else None.
Proof.
  intros H. unfold sl_index_of. cbn [bisect_left length]. rewrite H. reflexivity.
Qed.

Lemma sl_add_ins : forall l x, sl_add l x = ins x l.
Proof.
  induction l as [|y t IH]; intros x.
  - reflexivity.
  - unfold sl_add. cbn [ins]. destruct (str_ltb y x) eqn:E.
    + rewrite (index_of_cons_lt _ _ _ E). cbn [bisect_right]. rewrite (str_ltb_asym _ _ E).
      rewrite <- IH. unfold sl_add. destruct (sl_index_of t x); reflexivity.
    + rewrite (index_of_cons_ge _ _ _ E). destruct (str_eqb y x) eqn:E2; auto.
      cbn [bisect_right]. rewrite (ltb_false_neq_gt _ _ E E2). reflexivity.
Qed.

Lemma sl_remove_del : forall l x, sl_remove l x = del x l.
Proof.
  induction l as [|y t IH]; intros x.
  - reflexivity.
  - unfold sl_remove. cbn [del]. destruct (str_ltb y x) eqn:E.
    + rewrite (index_of_cons_lt _ _ _ E). rewrite <- IH. unfold sl_remove.
      destruct (sl_index_of t x); reflexivity.
    + rewrite (index_of_cons_ge _ _ _ E). destruct (str_eqb y x); reflexivity.
Qed.

Lemma sl_next_nxt : forall l x, sl_next l x = nxt x l.
Proof.
  induction l as [|y t IH]; intros x.
  - reflexivity.
  - cbn [nxt]. unfold sl_next. cbn [bisect_right length]. destruct (str_ltb x y) eqn:E.
    + reflexivity.
    + cbn [Nat.eqb nth]. rewrite <- IH. unfold sl_next. destruct t; reflexivity.
Qed.

Lemma sl_prev_prv : forall l x, sl_prev l x = prv x l.
Proof.
  induction l as [|y t IH]; intros x.
  - reflexivity.
  - cbn [prv]. unfold sl_prev. cbn [bisect_left]. destruct (str_ltb y x) eqn:E.
    + rewrite <- IH. unfold sl_prev. cbn [Nat.eqb]. rewrite Nat.sub_succ, Nat.sub_0_r.
      destruct t as [|z t'].
      * reflexivity.
      * destruct (bisect_left (z :: t') x) as [|p] eqn:B.
        -- reflexivity.
        -- cbn [Nat.eqb nth]. rewrite Nat.sub_succ, Nat.sub_0_r. reflexivity.
    + reflexivity.
Qed.

Lemma sl_has_In : forall l x, sorted l -> (sl_has l x = true <-> In x l).
Proof.
  unfold sl_has. induction l as [|y t IH]; intros x S.
  - cbn. split; [discriminate|tauto].
  - pose proof S as S'. apply sorted_cons_iff in S' as [St F]. rewrite Forall_forall in F.
    destruct (str_ltb y x) eqn:E.
    + rewrite (index_of_cons_lt _ _ _ E). specialize (IH x St).
      destruct (sl_index_of t x); cbn [option_map In] in *.
      * split; auto. intros _. right. now apply IH.
      * split; [discriminate|]. intros [->|H]; [now rewrite str_ltb_irrefl in E|]. now apply IH.
    + rewrite (index_of_cons_ge _ _ _ E). destruct (str_eqb y x) eqn:E2.
      * apply str_eqb_eq in E2. subst. split; auto. now left.
      * split; [discriminate|]. intros [->|H].
        -- unfold str_eqb in E2. now rewrite String.eqb_refl in E2.
        -- specialize (F _ H). unfold str_lt in F. congruence.
Qed.

(* ---- ins / del on sorted lists ---- *)
Lemma ins_In : forall l x y, In y (ins x l) <-> y = x \/ In y l.
Proof.
  induction l as [|z t IH]; intros x y; cbn [ins].
  - cbn. intuition.
  - destruct (str_ltb z x).
    + cbn [In]. rewrite IH. intuition.
    + destruct (str_eqb z x) eqn:E.
      * apply str_eqb_eq in E. subst. cbn [In]. intuition.
      * cbn [In]. intuition.
Qed.

Lemma ins_sorted : forall l x, sorted l -> sorted (ins x l).
Proof.
  induction l as [|z t IH]; intros x S; cbn [ins].
  - apply sorted_single.
  - pose proof S as S'. apply sorted_cons_iff in S' as [St F].
    destruct (str_ltb z x) eqn:E.
    + apply sorted_cons_iff. split; auto. rewrite Forall_forall in *.
      intros y Hy. apply ins_In in Hy as [->|Hy]; auto.
    + destruct (str_eqb z x) eqn:E2; auto.
      pose proof (ltb_false_neq_gt _ _ E E2) as G.
      apply sorted_cons_iff. split; auto. constructor; auto.
      rewrite Forall_forall in *. intros y Hy. apply (str_lt_trans x z y); auto.
Qed.

Lemma filter_id {A} (f : A -> bool) l : (forall y, In y l -> f y = true) -> filter f l = l.
Proof.
  induction l as [|z t IH]; intros H; cbn [filter]; auto.
  rewrite (H z (or_introl eq_refl)). f_equal. apply IH. intros y Hy. apply H. now right.
Qed.

Lemma del_filter : forall l x, sorted l -> del x l = filter (fun y => negb (str_eqb y x)) l.
Proof.
  induction l as [|z t IH]; intros x S; cbn [del filter]; auto.
  pose proof S as S'. apply sorted_cons_iff in S' as [St F]. rewrite Forall_forall in F.
  destruct (str_ltb z x) eqn:E.
  - destruct (str_eqb z x) eqn:E2.
    + apply str_eqb_eq in E2. subst. now rewrite str_ltb_irrefl in E.
    + cbn [negb]. now rewrite IH.
  - assert (R : filter (fun y => negb (str_eqb y x)) t = t).
    { apply filter_id. intros y Hy.
      destruct (str_eqb y x) eqn:E3; auto. apply str_eqb_eq in E3. subst.
      specialize (F _ Hy). unfold str_lt in F. congruence. }
    destruct (str_eqb z x); cbn [negb]; now rewrite R.
Qed.

Lemma del_In l x y : sorted l -> (In y (del x l) <-> In y l /\ y <> x).
Proof.
  intros S. rewrite (del_filter _ _ S), filter_In, negb_true_iff.
  split; intros [H1 H2]; split; auto.
  - intros ->. unfold str_eqb in H2. now rewrite String.eqb_refl in H2.
  - destruct (str_eqb y x) eqn:E; auto. apply str_eqb_eq in E. contradiction.
Qed.

Lemma filter_sorted f l : sorted l -> sorted (filter f l).
Proof.
  induction l as [|z t IH]; intros S; cbn [filter]; auto.
  apply sorted_cons_iff in S as [St F]. destruct (f z); auto.
  apply sorted_cons_iff. split; auto. rewrite Forall_forall in *.
  intros y Hy. apply filter_In in Hy as [Hy _]. auto.
Qed.

Lemma del_sorted l x : sorted l -> sorted (del x l).
Proof. intros S. rewrite (del_filter _ _ S). now apply filter_sorted. Qed.

(* ---- first / last / next / prev ---- *)
Lemma nxt_spec : forall l x, sorted l -> least_above l x (nxt x l).
Proof.
  induction l as [|y t IH]; intros x S; cbn [nxt].
  - cbn. tauto.
  - pose proof S as S'. apply sorted_cons_iff in S' as [St F]. rewrite Forall_forall in F.
    destruct (str_ltb x y) eqn:E.
    + cbn. split; [now left|]. split; [exact E|].
      intros z [->|Hz] _; [apply str_lt_irrefl|]. apply str_lt_asym. auto.
    + specialize (IH x St). unfold least_above in *. destruct (nxt x t) as [w|].
      * destruct IH as [I1 [I2 I3]]. split; [now right|]. split; auto.
        intros z [->|Hz] Hxz; [unfold str_lt in Hxz; congruence|]. auto.
      * intros z [->|Hz]; [unfold str_lt; congruence|]. auto.
Qed.

Lemma prv_spec : forall l x, sorted l -> greatest_below l x (prv x l).
Proof.
  induction l as [|y t IH]; intros x S; cbn [prv].
  - cbn. tauto.
  - pose proof S as S'. apply sorted_cons_iff in S' as [St F]. rewrite Forall_forall in F.
    destruct (str_ltb y x) eqn:E.
    + specialize (IH x St). unfold greatest_below in *. destruct (prv x t) as [w|].
      * destruct IH as [I1 [I2 I3]]. split; [now right|]. split; auto.
        intros z [->|Hz] Hzx; [apply str_lt_asym; auto|]. auto.
      * split; [now left|]. split; [exact E|].
        intros z [->|Hz] Hzx; [apply str_lt_irrefl|]. exfalso. exact (IH z Hz Hzx).
    + cbn. intros z [->|Hz] Hzx; [unfold str_lt in Hzx; congruence|].
      specialize (F _ Hz). pose proof (str_lt_trans _ _ _ F Hzx). unfold str_lt in *. congruence.
Qed.

Lemma first_spec l : sorted l ->
  match sl_first l with
  | Some y => In y l /\ forall z, In z l -> ~ str_lt z y
  | None => l = []
  end.
Proof.
  destruct l as [|y t]; cbn; auto. intros S. apply sorted_cons_iff in S as [_ F].
  rewrite Forall_forall in F. split; auto.
  intros z [->|Hz]; [apply str_lt_irrefl|]. apply str_lt_asym; auto.
Qed.

Lemma last_spec : forall l, sorted l ->
  match sl_last l with
  | Some y => In y l /\ forall z, In z l -> ~ str_lt y z
  | None => l = []
  end.
Proof.
  induction l as [|y t IH]; intros S; [reflexivity|].
  pose proof S as S'. apply sorted_cons_iff in S' as [St F]. rewrite Forall_forall in F.
  specialize (IH St). unfold sl_last in *. destruct t as [|w t'].
  - cbn. split; auto. intros z [->|[]]. apply str_lt_irrefl.
  - change (last (y :: w :: t') "") with (last (w :: t') ""). destruct IH as [I1 I2].
    split; [now right|]. intros z [->|Hz]; auto. apply str_lt_asym; auto.
Qed.
