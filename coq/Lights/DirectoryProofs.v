(* Proofs for C13: order, sorted lists, SortedList operations, the directory
   invariant, expiry, refinement to the abstract directory, iteration. *)
From Coq Require Import ZArith NArith String Ascii List Bool Sorted Lia Permutation.
From Bardolph Require Import Lights.SortedList Lights.Directory Lights.DirectorySpec.
Import ListNotations.
Open Scope string_scope.
Open Scope list_scope.
Open Scope Z_scope.
Open Scope bool_scope.

(* ================= order ================= *)
Lemma str_ltb_irrefl : forall a, str_ltb a a = false.
Proof.
  induction a as [|c a IH]; cbn; auto.
  rewrite N.ltb_irrefl. exact IH.
Qed.

Lemma N_of_ascii_inj : forall c d, N_of_ascii c = N_of_ascii d -> c = d.
Proof.
  intros c d H. rewrite <- (ascii_N_embedding c), <- (ascii_N_embedding d). now rewrite H.
Qed.

Lemma str_ltb_trans : forall a b c, str_ltb a b = true -> str_ltb b c = true -> str_ltb a c = true.
Proof.
  induction a as [|x a IH]; intros [|y b] [|z c]; cbn; try congruence.
  destruct (N_of_ascii x <? N_of_ascii y)%N eqn:E1;
  destruct (N_of_ascii y <? N_of_ascii x)%N eqn:E2;
  destruct (N_of_ascii y <? N_of_ascii z)%N eqn:E3;
  destruct (N_of_ascii z <? N_of_ascii y)%N eqn:E4;
  destruct (N_of_ascii x <? N_of_ascii z)%N eqn:E5;
  destruct (N_of_ascii z <? N_of_ascii x)%N eqn:E6;
  rewrite ?N.ltb_lt, ?N.ltb_ge in *; try congruence; try lia.
  apply IH.
Qed.

Lemma str_ltb_total : forall a b, str_ltb a b = false -> str_ltb b a = false -> a = b.
Proof.
  induction a as [|x a IH]; intros [|y b]; cbn; try congruence.
  destruct (N_of_ascii x <? N_of_ascii y)%N eqn:E1;
  destruct (N_of_ascii y <? N_of_ascii x)%N eqn:E2; try congruence.
  rewrite N.ltb_ge in *. intros H1 H2.
  assert (x = y) by (apply N_of_ascii_inj; lia). subst. f_equal. now apply IH.
Qed.

Lemma str_ltb_asym : forall a b, str_ltb a b = true -> str_ltb b a = false.
Proof.
  intros a b H. destruct (str_ltb b a) eqn:E; auto.
  pose proof (str_ltb_trans _ _ _ H E) as T. now rewrite str_ltb_irrefl in T.
Qed.

Lemma str_lt_irrefl a : ~ str_lt a a.
Proof. unfold str_lt. now rewrite str_ltb_irrefl. Qed.
Lemma str_lt_trans a b c : str_lt a b -> str_lt b c -> str_lt a c.
Proof. apply str_ltb_trans. Qed.
Lemma str_lt_asym a b : str_lt a b -> ~ str_lt b a.
Proof. unfold str_lt. intros H. now rewrite (str_ltb_asym _ _ H). Qed.
Lemma str_lt_trichotomy a b : str_lt a b \/ a = b \/ str_lt b a.
Proof.
  unfold str_lt. destruct (str_ltb a b) eqn:E1; auto. destruct (str_ltb b a) eqn:E2; auto.
  right; left. now apply str_ltb_total.
Qed.

Lemma str_eqb_eq a b : str_eqb a b = true <-> a = b.
Proof. apply String.eqb_eq. Qed.

Lemma ltb_false_neq_gt a b : str_ltb a b = false -> str_eqb a b = false -> str_ltb b a = true.
Proof.
  intros H1 H2. destruct (str_ltb b a) eqn:E; auto.
  pose proof (str_ltb_total _ _ H1 E). subst. unfold str_eqb in H2. now rewrite String.eqb_refl in H2.
Qed.

(* ================= sorted lists ================= *)
Lemma sorted_nil : sorted [].
Proof. constructor. Qed.

Lemma sorted_cons_iff x l : sorted (x :: l) <-> sorted l /\ Forall (str_lt x) l.
Proof.
  split.
  - intros H. inversion H; subst. auto.
  - intros [H1 H2]. now constructor.
Qed.

Lemma sorted_single x : sorted [x].
Proof. apply sorted_cons_iff. split; constructor. Qed.

Lemma sorted_not_in_head x l : sorted (x :: l) -> ~ In x l.
Proof.
  intros H Hin. apply sorted_cons_iff in H as [_ H]. rewrite Forall_forall in H.
  exact (str_lt_irrefl _ (H _ Hin)).
Qed.

Lemma sorted_NoDup l : sorted l -> NoDup l.
Proof.
  induction l as [|x l IH]; intros H; constructor.
  - now apply sorted_not_in_head.
  - apply IH. now apply sorted_cons_iff in H.
Qed.

Lemma sorted_ext : forall l1 l2, sorted l1 -> sorted l2 -> (forall x, In x l1 <-> In x l2) -> l1 = l2.
Proof.
  induction l1 as [|a l1 IH]; intros [|b l2] S1 S2 E.
  - reflexivity.
  - exfalso. apply (proj2 (E b)). now left.
  - exfalso. apply (proj1 (E a)). now left.
  - pose proof S1 as S1'. pose proof S2 as S2'.
    apply sorted_cons_iff in S1' as [S1t F1]. apply sorted_cons_iff in S2' as [S2t F2].
    rewrite Forall_forall in F1, F2.
    assert (a = b).
    { destruct (proj1 (E a) (or_introl eq_refl)) as [->|Ha]; auto.
      destruct (proj2 (E b) (or_introl eq_refl)) as [->|Hb]; auto.
      exfalso. apply (str_lt_asym a b); auto. }
    subst b. f_equal. apply IH; auto.
    intros x. split; intros Hx.
    + destruct (proj1 (E x) (or_intror Hx)) as [->|]; auto.
      exfalso. now apply (sorted_not_in_head _ _ S1).
    + destruct (proj2 (E x) (or_intror Hx)) as [->|]; auto.
      exfalso. now apply (sorted_not_in_head _ _ S2).
Qed.

Lemma sortedb_sound l : sortedb l = true -> sorted l.
Proof.
  induction l as [|x l IH]; intros H.
  - constructor.
  - destruct l as [|y t].
    + apply sorted_single.
    + cbn [sortedb] in H. apply andb_true_iff in H as [H1 H2].
      specialize (IH H2). apply sorted_cons_iff. split; auto.
      constructor; [exact H1|].
      apply sorted_cons_iff in IH as [_ F]. rewrite Forall_forall in *.
      intros z Hz. apply (str_lt_trans x y z); auto.
Qed.

Lemma sortedb_complete l : sorted l -> sortedb l = true.
Proof.
  induction l as [|x l IH]; intros H; auto.
  apply sorted_cons_iff in H as [H1 H2]. destruct l as [|y t]; auto.
  change (str_ltb x y && sortedb (y :: t) = true). rewrite (IH H1), andb_true_r. inversion H2; auto.
Qed.

Lemma memb_In x l : memb x l = true <-> In x l.
Proof.
  unfold memb. rewrite existsb_exists. split.
  - intros [y [Hy E]]. apply String.eqb_eq in E. now subst.
  - intros H. exists x. split; auto. apply String.eqb_refl.
Qed.

Lemma nodupb_NoDup l : nodupb l = true <-> NoDup l.
Proof.
  induction l as [|x l IH]; cbn.
  - split; auto. constructor.
  - rewrite andb_true_iff, negb_true_iff, IH. split.
    + intros [H1 H2]. constructor; auto. rewrite <- memb_In. now rewrite H1.
    + intros H. inversion H; subst. split; auto.
      destruct (memb x l) eqn:E; auto. apply memb_In in E. contradiction.
Qed.

(* ================= SortedList operations, structurally ================= *)
(* The bisect-based methods coincide (on every list) with these recursive forms. *)
Fixpoint ins (x : string) (l : list string) : list string :=
  match l with
  | [] => [x]
  | y :: t => if str_ltb y x then y :: ins x t
              else if str_eqb y x then y :: t else x :: y :: t
  end.

Fixpoint del (x : string) (l : list string) : list string :=
  match l with
  | [] => []
  | y :: t => if str_ltb y x then y :: del x t
              else if str_eqb y x then t else y :: t
  end.

Fixpoint nxt (x : string) (l : list string) : option string :=
  match l with
  | [] => None
  | y :: t => if str_ltb x y then Some y else nxt x t
  end.

Fixpoint prv (x : string) (l : list string) : option string :=
  match l with
  | [] => None
  | y :: t => if str_ltb y x
              then match prv x t with Some z => Some z | None => Some y end
              else None
  end.

Lemma index_of_cons_lt y t x : str_ltb y x = true ->
  sl_index_of (y :: t) x = option_map S (sl_index_of t x).
Proof.
  intros H. unfold sl_index_of. cbn [bisect_left length]. rewrite H.
  cbn [Nat.eqb nth].
  destruct (negb (Nat.eqb (bisect_left t x) (length t)) && str_eqb (nth (bisect_left t x) t "") x); reflexivity.
Qed.

Lemma index_of_cons_ge y t x : str_ltb y x = false ->
  sl_index_of (y :: t) x = if str_eqb y x then Some O else None.
Proof.
  intros H. unfold sl_index_of. cbn [bisect_left length]. rewrite H. reflexivity.
Qed.

Lemma sl_add_ins : forall l x, sl_add l x = ins x l.
Proof.
  induction l as [|y t IH]; intros x.
  - reflexivity.
  - unfold sl_add. cbn [ins]. destruct (str_ltb y x) eqn:E.
    + rewrite (index_of_cons_lt _ _ _ E). cbn [bisect_right]. rewrite (str_ltb_asym _ _ E).
      rewrite <- IH. unfold sl_add. destruct (sl_index_of t x); reflexivity.
    + rewrite (index_of_cons_ge _ _ _ E). destruct (str_eqb y x) eqn:E2; auto.
      cbn [bisect_right]. rewrite (ltb_false_neq_gt _ _ E E2). reflexivity.
Qed.

Lemma sl_remove_del : forall l x, sl_remove l x = del x l.
Proof.
  induction l as [|y t IH]; intros x.
  - reflexivity.
  - unfold sl_remove. cbn [del]. destruct (str_ltb y x) eqn:E.
    + rewrite (index_of_cons_lt _ _ _ E). rewrite <- IH. unfold sl_remove.
      destruct (sl_index_of t x); reflexivity.
    + rewrite (index_of_cons_ge _ _ _ E). destruct (str_eqb y x); reflexivity.
Qed.

Lemma sl_next_nxt : forall l x, sl_next l x = nxt x l.
Proof.
  induction l as [|y t IH]; intros x.
  - reflexivity.
  - cbn [nxt]. unfold sl_next. cbn [bisect_right length]. destruct (str_ltb x y) eqn:E.
    + reflexivity.
    + cbn [Nat.eqb nth]. rewrite <- IH. unfold sl_next. destruct t; reflexivity.
Qed.

Lemma sl_prev_prv : forall l x, sl_prev l x = prv x l.
Proof.
  induction l as [|y t IH]; intros x.
  - reflexivity.
  - cbn [prv]. unfold sl_prev. cbn [bisect_left]. destruct (str_ltb y x) eqn:E.
    + rewrite <- IH. unfold sl_prev. cbn [Nat.eqb]. rewrite Nat.sub_succ, Nat.sub_0_r.
      destruct t as [|z t'].
      * reflexivity.
      * destruct (bisect_left (z :: t') x) as [|p] eqn:B.
        -- reflexivity.
        -- cbn [Nat.eqb nth]. rewrite Nat.sub_succ, Nat.sub_0_r. reflexivity.
    + reflexivity.
Qed.

Lemma sl_has_In : forall l x, sorted l -> (sl_has l x = true <-> In x l).
Proof.
  unfold sl_has. induction l as [|y t IH]; intros x S.
  - cbn. split; [discriminate|tauto].
  - pose proof S as S'. apply sorted_cons_iff in S' as [St F]. rewrite Forall_forall in F.
    destruct (str_ltb y x) eqn:E.
    + rewrite (index_of_cons_lt _ _ _ E). specialize (IH x St).
      destruct (sl_index_of t x); cbn [option_map In] in *.
      * split; auto. intros _. right. now apply IH.
      * split; [discriminate|]. intros [->|H]; [now rewrite str_ltb_irrefl in E|]. now apply IH.
    + rewrite (index_of_cons_ge _ _ _ E). destruct (str_eqb y x) eqn:E2.
      * apply str_eqb_eq in E2. subst. split; auto. now left.
      * split; [discriminate|]. intros [->|H].
        -- unfold str_eqb in E2. now rewrite String.eqb_refl in E2.
        -- specialize (F _ H). unfold str_lt in F. congruence.
Qed.

(* ---- ins / del on sorted lists ---- *)
Lemma ins_In : forall l x y, In y (ins x l) <-> y = x \/ In y l.
Proof.
  induction l as [|z t IH]; intros x y; cbn [ins].
  - cbn. intuition.
  - destruct (str_ltb z x).
    + cbn [In]. rewrite IH. intuition.
    + destruct (str_eqb z x) eqn:E.
      * apply str_eqb_eq in E. subst. cbn [In]. intuition.
      * cbn [In]. intuition.
Qed.

Lemma ins_sorted : forall l x, sorted l -> sorted (ins x l).
Proof.
  induction l as [|z t IH]; intros x S; cbn [ins].
  - apply sorted_single.
  - pose proof S as S'. apply sorted_cons_iff in S' as [St F].
    destruct (str_ltb z x) eqn:E.
    + apply sorted_cons_iff. split; auto. rewrite Forall_forall in *.
      intros y Hy. apply ins_In in Hy as [->|Hy]; auto.
    + destruct (str_eqb z x) eqn:E2; auto.
      pose proof (ltb_false_neq_gt _ _ E E2) as G.
      apply sorted_cons_iff. split; auto. constructor; auto.
      rewrite Forall_forall in *. intros y Hy. apply (str_lt_trans x z y); auto.
Qed.

Lemma filter_id {A} (f : A -> bool) l : (forall y, In y l -> f y = true) -> filter f l = l.
Proof.
  induction l as [|z t IH]; intros H; cbn [filter]; auto.
  rewrite (H z (or_introl eq_refl)). f_equal. apply IH. intros y Hy. apply H. now right.
Qed.

Lemma del_filter : forall l x, sorted l -> del x l = filter (fun y => negb (str_eqb y x)) l.
Proof.
  induction l as [|z t IH]; intros x S; cbn [del filter]; auto.
  pose proof S as S'. apply sorted_cons_iff in S' as [St F]. rewrite Forall_forall in F.
  destruct (str_ltb z x) eqn:E.
  - destruct (str_eqb z x) eqn:E2.
    + apply str_eqb_eq in E2. subst. now rewrite str_ltb_irrefl in E.
    + cbn [negb]. now rewrite IH.
  - assert (R : filter (fun y => negb (str_eqb y x)) t = t).
    { apply filter_id. intros y Hy.
      destruct (str_eqb y x) eqn:E3; auto. apply str_eqb_eq in E3. subst.
      specialize (F _ Hy). unfold str_lt in F. congruence. }
    destruct (str_eqb z x); cbn [negb]; now rewrite R.
Qed.

Lemma del_In l x y : sorted l -> (In y (del x l) <-> In y l /\ y <> x).
Proof.
  intros S. rewrite (del_filter _ _ S), filter_In, negb_true_iff.
  split; intros [H1 H2]; split; auto.
  - intros ->. unfold str_eqb in H2. now rewrite String.eqb_refl in H2.
  - destruct (str_eqb y x) eqn:E; auto. apply str_eqb_eq in E. contradiction.
Qed.

Lemma filter_sorted f l : sorted l -> sorted (filter f l).
Proof.
  induction l as [|z t IH]; intros S; cbn [filter]; auto.
  apply sorted_cons_iff in S as [St F]. destruct (f z); auto.
  apply sorted_cons_iff. split; auto. rewrite Forall_forall in *.
  intros y Hy. apply filter_In in Hy as [Hy _]. auto.
Qed.

Lemma del_sorted l x : sorted l -> sorted (del x l).
Proof. intros S. rewrite (del_filter _ _ S). now apply filter_sorted. Qed.

(* ---- first / last / next / prev ---- *)
Lemma nxt_spec : forall l x, sorted l -> least_above l x (nxt x l).
Proof.
  induction l as [|y t IH]; intros x S; cbn [nxt].
  - cbn. tauto.
  - pose proof S as S'. apply sorted_cons_iff in S' as [St F]. rewrite Forall_forall in F.
    destruct (str_ltb x y) eqn:E.
    + cbn. split; [now left|]. split; [exact E|].
      intros z [->|Hz] _; [apply str_lt_irrefl|]. apply str_lt_asym. auto.
    + specialize (IH x St). unfold least_above in *. destruct (nxt x t) as [w|].
      * destruct IH as [I1 [I2 I3]]. split; [now right|]. split; auto.
        intros z [->|Hz] Hxz; [unfold str_lt in Hxz; congruence|]. auto.
      * intros z [->|Hz]; [unfold str_lt; congruence|]. auto.
Qed.

Lemma prv_spec : forall l x, sorted l -> greatest_below l x (prv x l).
Proof.
  induction l as [|y t IH]; intros x S; cbn [prv].
  - cbn. tauto.
  - pose proof S as S'. apply sorted_cons_iff in S' as [St F]. rewrite Forall_forall in F.
    destruct (str_ltb y x) eqn:E.
    + specialize (IH x St). unfold greatest_below in *. destruct (prv x t) as [w|].
      * destruct IH as [I1 [I2 I3]]. split; [now right|]. split; auto.
        intros z [->|Hz] Hzx; [apply str_lt_asym; auto|]. auto.
      * split; [now left|]. split; [exact E|].
        intros z [->|Hz] Hzx; [apply str_lt_irrefl|]. exfalso. exact (IH z Hz Hzx).
    + cbn. intros z [->|Hz] Hzx; [unfold str_lt in Hzx; congruence|].
      specialize (F _ Hz). pose proof (str_lt_trans _ _ _ F Hzx). unfold str_lt in *. congruence.
Qed.

Lemma first_spec l : sorted l ->
  match sl_first l with
  | Some y => In y l /\ forall z, In z l -> ~ str_lt z y
  | None => l = []
  end.
Proof.
  destruct l as [|y t]; cbn; auto. intros S. apply sorted_cons_iff in S as [_ F].
  rewrite Forall_forall in F. split; auto.
  intros z [->|Hz]; [apply str_lt_irrefl|]. apply str_lt_asym; auto.
Qed.

Lemma last_spec : forall l, sorted l ->
  match sl_last l with
  | Some y => In y l /\ forall z, In z l -> ~ str_lt y z
  | None => l = []
  end.
Proof.
  induction l as [|y t IH]; intros S; [reflexivity|].
  pose proof S as S'. apply sorted_cons_iff in S' as [St F]. rewrite Forall_forall in F.
  specialize (IH St). unfold sl_last in *. destruct t as [|w t'].
  - cbn. split; auto. intros z [->|[]]. apply str_lt_irrefl.
  - change (last (y :: w :: t') "") with (last (w :: t') ""). destruct IH as [I1 I2].
    split; [now right|]. intros z [->|Hz]; auto. apply str_lt_asym; auto.
Qed.

(* ================= dicts ================= *)
Section DictLemmas.
  Context {V : Type}.
  Implicit Types d : dict V.

  Lemma in_keys d k v : In (k, v) d -> In k (dict_keys d).
  Proof. intros H. unfold dict_keys. change k with (fst (k, v)). now apply in_map. Qed.

  Lemma keys_in d k : In k (dict_keys d) -> exists v, In (k, v) d.
  Proof.
    unfold dict_keys. rewrite in_map_iff. intros [[k' v] [E H]]. cbn in E. subst. eauto.
  Qed.

  Lemma dict_get_In d k v : NoDup (dict_keys d) -> (dict_get k d = Some v <-> In (k, v) d).
  Proof.
    induction d as [|[a b] r IH]; intros N; cbn [dict_get In].
    - split; [discriminate|tauto].
    - cbn in N. inversion N as [|? ? Na Nr]; subst. destruct (String.eqb k a) eqn:E.
      + apply String.eqb_eq in E. subst. split.
        * intros H. left. congruence.
        * intros [H|H]; [congruence|]. exfalso. apply Na. eapply in_keys; eauto.
      + apply String.eqb_neq in E. rewrite (IH Nr). split; auto.
        intros [H|H]; auto. congruence.
  Qed.

  Lemma dict_get_None d k : dict_get k d = None <-> ~ In k (dict_keys d).
  Proof.
    induction d as [|[a b] r IH]; cbn [dict_get dict_keys map In fst].
    - tauto.
    - destruct (String.eqb k a) eqn:E.
      + apply String.eqb_eq in E. subst. split; [discriminate|]. intros H. exfalso. auto.
      + apply String.eqb_neq in E. rewrite IH. unfold dict_keys. intuition.
  Qed.

  Lemma dict_get_Some_In d k v : dict_get k d = Some v -> In (k, v) d.
  Proof.
    induction d as [|[a b] r IH]; cbn [dict_get In]; [discriminate|].
    destruct (String.eqb k a) eqn:E.
    - apply String.eqb_eq in E. subst. intros H. left. congruence.
    - auto.
  Qed.

  Lemma dict_set_keys d k v k' : In k' (dict_keys (dict_set k v d)) <-> k' = k \/ In k' (dict_keys d).
  Proof.
    induction d as [|[a b] r IH]; cbn [dict_set dict_keys map In fst].
    - intuition.
    - destruct (String.eqb k a) eqn:E; cbn [dict_keys map In fst].
      + apply String.eqb_eq in E. subst. intuition.
      + unfold dict_keys in IH. rewrite IH. intuition.
  Qed.

  Lemma dict_set_NoDup d k v : NoDup (dict_keys d) -> NoDup (dict_keys (dict_set k v d)).
  Proof.
    induction d as [|[a b] r IH]; cbn [dict_set dict_keys map fst]; intros N.
    - constructor; [intros []|constructor].
    - inversion N as [|? ? Na Nr]; subst. destruct (String.eqb k a) eqn:E; cbn [dict_keys map fst].
      + constructor; auto.
      + apply String.eqb_neq in E. constructor; [|now apply IH].
        intros H. apply (dict_set_keys r k v a) in H as [H|H]; auto.
  Qed.

  Lemma dict_set_In d k v k' v' : NoDup (dict_keys d) ->
    (In (k', v') (dict_set k v d) <-> (k' = k /\ v' = v) \/ (k' <> k /\ In (k', v') d)).
  Proof.
    induction d as [|[a b] r IH]; cbn [dict_set dict_keys map fst]; intros N.
    - cbn. split.
      + intros [H|[]]. inversion H. auto.
      + intros [[-> ->]|[_ []]]. auto.
    - inversion N as [|? ? Na Nr]; subst. destruct (String.eqb k a) eqn:E.
      + apply String.eqb_eq in E. subst a. cbn [In]. split.
        * intros [H|H]; [inversion H; auto|]. right. split; auto.
          intros ->. apply Na. eapply in_keys; eauto.
        * intros [[-> ->]|[H1 [H2|H2]]]; auto. inversion H2. congruence.
      + apply String.eqb_neq in E. cbn [In]. rewrite (IH Nr). split.
        * intros [H|[H|H]]; auto. inversion H; subst. right. split; auto.
          right. destruct H; auto.
        * intros [H|[H1 [H2|H2]]]; auto.
  Qed.

  Lemma filter_keys_NoDup (f : string * V -> bool) d : NoDup (dict_keys d) -> NoDup (dict_keys (filter f d)).
  Proof.
    induction d as [|[a b] r IH]; cbn [filter dict_keys map fst]; intros N; [constructor|].
    inversion N as [|? ? Na Nr]; subst. destruct (f (a, b)); auto.
    cbn [dict_keys map fst]. constructor; auto.
    intros H. apply keys_in in H as [v H]. apply filter_In in H as [H _]. apply Na. eapply in_keys; eauto.
  Qed.

  Lemma dict_del_filter d k : NoDup (dict_keys d) ->
    dict_del k d = filter (fun e => negb (String.eqb (fst e) k)) d.
  Proof.
    induction d as [|[a b] r IH]; cbn [dict_del filter dict_keys map fst]; intros N; auto.
    inversion N as [|? ? Na Nr]; subst. rewrite (String.eqb_sym a k).
    destruct (String.eqb k a) eqn:E; cbn [negb].
    - apply String.eqb_eq in E. subst. symmetry. apply filter_id.
      intros [k' v'] H. cbn [fst]. destruct (String.eqb k' a) eqn:E2; auto.
      apply String.eqb_eq in E2. subst. exfalso. apply Na. eapply in_keys; eauto.
    - now rewrite IH.
  Qed.
End DictLemmas.

Lemma filter_filter {A} (f g : A -> bool) l : filter f (filter g l) = filter (fun x => g x && f x) l.
Proof.
  induction l as [|x l IH]; cbn [filter]; auto.
  destruct (g x); cbn [filter andb]; [destruct (f x)|]; now rewrite IH.
Qed.

Lemma fold_dict_del {V} (ts : list string) : forall (d : dict V), NoDup (dict_keys d) ->
  fold_left (fun ls n => dict_del n ls) ts d = filter (fun e => negb (memb (fst e) ts)) d.
Proof.
  induction ts as [|n ts IH]; intros d N; cbn [fold_left].
  - symmetry. now apply filter_id.
  - rewrite (dict_del_filter _ _ N), IH by now apply filter_keys_NoDup.
    rewrite filter_filter. apply filter_ext. intros [k v]. cbn [fst memb existsb].
    now rewrite negb_orb.
Qed.

Lemma fold_sl_remove (ts : list string) : forall l, sorted l ->
  fold_left sl_remove ts l = filter (fun y => negb (memb y ts)) l.
Proof.
  induction ts as [|n ts IH]; intros l S; cbn [fold_left].
  - symmetry. now apply filter_id.
  - rewrite sl_remove_del, (del_filter _ _ S), IH by now apply filter_sorted.
    rewrite filter_filter. apply filter_ext. intros y. cbn [memb existsb].
    now rewrite negb_orb.
Qed.

(* ================= membership tables ================= *)
Definition td_wf (td : dict (list string)) : Prop :=
  NoDup (dict_keys td) /\ forall g l, In (g, l) td -> sorted l /\ l <> [].

Lemma rm_In n td g l' :
  In (g, l') (remove_memberships n td) <-> exists l, In (g, l) td /\ l' = del n l /\ l' <> [].
Proof.
  unfold remove_memberships. rewrite filter_In, in_map_iff. cbn [snd]. split.
  - intros [[[g0 l0] [E H]] NE]. cbn [fst snd] in E. inversion E; subst.
    exists l0. rewrite <- sl_remove_del. repeat split; auto.
    intros Z. rewrite Z in NE. discriminate.
  - intros [l [H [-> NE]]]. split.
    + exists (g, l). cbn [fst snd]. now rewrite sl_remove_del.
    + destruct (del n l); [contradiction|reflexivity].
Qed.

Lemma rm_keys_NoDup n td : NoDup (dict_keys td) -> NoDup (dict_keys (remove_memberships n td)).
Proof.
  intros N. unfold remove_memberships. apply filter_keys_NoDup.
  unfold dict_keys. rewrite map_map. cbn [fst]. exact N.
Qed.

Lemma rm_wf n td : td_wf td -> td_wf (remove_memberships n td).
Proof.
  intros [N W]. split; [now apply rm_keys_NoDup|].
  intros g l' H. apply rm_In in H as [l [H [-> NE]]]. split; auto.
  apply del_sorted. now apply (W g l).
Qed.

Lemma rm_listed n td g m : td_wf td ->
  (listed (remove_memberships n td) g m <-> listed td g m /\ m <> n).
Proof.
  intros [N W]. unfold listed. split.
  - intros [l' [H Hm]]. apply rm_In in H as [l [H [-> NE]]].
    apply del_In in Hm as [Hm Hne]; [|now apply (W g l)]. eauto.
  - intros [[l [H Hm]] Hne]. exists (del n l).
    assert (In m (del n l)) by (apply del_In; [now apply (W g l)|auto]).
    split; auto. apply rm_In. exists l. repeat split; auto.
    intros Z. rewrite Z in *. contradiction.
Qed.

Lemma td_wf_unique (td : dict (list string)) g l1 l2 : NoDup (dict_keys td) -> In (g, l1) td -> In (g, l2) td -> l1 = l2.
Proof.
  intros N H1 H2. apply (dict_get_In td g l1 N) in H1. apply (dict_get_In td g l2 N) in H2. congruence.
Qed.

Lemma upd_wf n g td : td_wf td -> td_wf (update_memberships n g td).
Proof.
  intros W. apply (rm_wf n) in W. unfold update_memberships.
  set (td' := remove_memberships n td) in *. destruct W as [N W].
  destruct (dict_get g td') as [l|] eqn:G; (split; [now apply dict_set_NoDup|]);
    intros g' l' H; apply (dict_set_In _ _ _ _ _ N) in H as [[-> ->]|[_ H]]; eauto.
  - apply dict_get_Some_In in G. rewrite sl_add_ins. split.
    + apply ins_sorted. now apply (W g l).
    + intros Z. assert (In n (ins n l)) by (apply ins_In; auto). rewrite Z in *. contradiction.
  - unfold sl_of_str. split; [apply sorted_single|discriminate].
Qed.

Lemma upd_listed n g td g' m : td_wf td ->
  (listed (update_memberships n g td) g' m <-> (g' = g /\ m = n) \/ (listed td g' m /\ m <> n)).
Proof.
  intros W. rewrite <- (rm_listed n td g' m W). apply (rm_wf n) in W. unfold update_memberships.
  set (td' := remove_memberships n td) in *. destruct W as [N W]. unfold listed.
  destruct (dict_get g td') as [l|] eqn:G.
  - pose proof (dict_get_Some_In _ _ _ G) as GI. split.
    + intros [l' [H Hm]]. apply (dict_set_In _ _ _ _ _ N) in H as [[-> ->]|[Hne H]].
      * rewrite sl_add_ins in Hm. apply ins_In in Hm as [->|Hm]; eauto.
      * eauto.
    + intros [[-> ->]|[l' [H Hm]]].
      * exists (sl_add l n). split; [apply dict_set_In; auto|]. rewrite sl_add_ins. apply ins_In. auto.
      * destruct (String.eqb g' g) eqn:E.
        -- apply String.eqb_eq in E. subst g'. pose proof (td_wf_unique _ _ _ _ N H GI). subst l'.
           exists (sl_add l n). split; [apply dict_set_In; auto|]. rewrite sl_add_ins. apply ins_In. auto.
        -- apply String.eqb_neq in E. exists l'. split; auto. apply dict_set_In; auto.
  - apply dict_get_None in G. split.
    + intros [l' [H Hm]]. apply (dict_set_In _ _ _ _ _ N) in H as [[-> ->]|[Hne H]].
      * destruct Hm as [<-|[]]. auto.
      * eauto.
    + intros [[-> ->]|[l' [H Hm]]].
      * exists (sl_of_str n). split; [apply dict_set_In; auto|]. now left.
      * exists l'. split; auto. apply dict_set_In; auto. right. split; auto.
        intros ->. apply G. eapply in_keys; eauto.
Qed.

Lemma fold_rm_wf ts : forall td, td_wf td -> td_wf (fold_left (fun td n => remove_memberships n td) ts td).
Proof.
  induction ts as [|n ts IH]; intros td W; cbn [fold_left]; auto. apply IH. now apply rm_wf.
Qed.

Lemma fold_rm_listed ts : forall td g m, td_wf td ->
  (listed (fold_left (fun td n => remove_memberships n td) ts td) g m <-> listed td g m /\ ~ In m ts).
Proof.
  induction ts as [|n ts IH]; intros td g m W; cbn [fold_left].
  - cbn. tauto.
  - rewrite IH by now apply rm_wf. rewrite (rm_listed _ _ _ _ W). cbn [In]. intuition.
Qed.

(* ================= the invariant is preserved ================= *)
Lemma members_inv_wf proj lights td : members_inv proj lights td -> td_wf td.
Proof. intros [A B _]. split; auto. Qed.

Lemma members_discover proj lights td n v :
  NoDup (dict_keys lights) -> members_inv proj lights td ->
  members_inv proj (dict_set n v lights) (update_memberships n (proj v) td).
Proof.
  intros N M. pose proof (members_inv_wf _ _ _ M) as W. destruct M as [_ _ X].
  destruct (upd_wf n (proj v) td W) as [W1 W2]. constructor; auto.
  intros g m. rewrite (upd_listed _ _ _ _ _ W), X. split.
  - intros [[-> ->]|[[w [H1 H2]] Hne]].
    + exists v. split; auto. apply dict_set_In; auto.
    + exists w. split; auto. apply dict_set_In; auto.
  - intros [w [H1 H2]]. apply (dict_set_In _ _ _ _ _ N) in H1 as [[-> ->]|[Hne H1]]; eauto.
Qed.

Lemma dir_inv_counters d ok fl :
  dir_inv d -> dir_inv (mkDir (d_lights d) (d_names d) (d_groups d) (d_locs d) ok fl).
Proof. intros [A B C D E]. constructor; auto. Qed.

Lemma dir_inv_empty : dir_inv empty_dir.
Proof.
  constructor; cbn.
  - constructor.
  - constructor.
  - tauto.
  - constructor; cbn; [constructor|tauto|].
    intros g n. unfold listed. cbn. split; [intros [l [[] _]]|intros [v [[] _]]].
  - constructor; cbn; [constructor|tauto|].
    intros g n. unfold listed. cbn. split; [intros [l [[] _]]|intros [v [[] _]]].
Qed.

Lemma discover_one_inv t d r : dir_inv d -> dir_inv (discover_one t d r).
Proof.
  intros [A B C D E]. unfold discover_one. constructor; cbn [d_lights d_names d_groups d_locs].
  - rewrite sl_add_ins. now apply ins_sorted.
  - now apply dict_set_NoDup.
  - intros n. rewrite sl_add_ins, ins_In, dict_set_keys, C. tauto.
  - apply (members_discover l_group _ _ (r_name r) (mkLight (r_group r) (r_loc r) t)); auto.
  - apply (members_discover l_loc _ _ (r_name r) (mkLight (r_group r) (r_loc r) t)); auto.
Qed.

Lemma fold_discover_inv t snap : forall d, dir_inv d -> dir_inv (fold_left (discover_one t) snap d).
Proof.
  induction snap as [|r snap IH]; intros d I; cbn [fold_left]; auto.
  apply IH. now apply discover_one_inv.
Qed.

Lemma discover_inv d snap t : dir_inv d -> dir_inv (discover d snap t).
Proof.
  intros I. unfold discover.
  apply (dir_inv_counters (fold_left (discover_one t) snap d)). now apply fold_discover_inv.
Qed.

Lemma failed_discover_inv d : dir_inv d -> dir_inv (failed_discover d).
Proof. intros I. unfold failed_discover. now apply dir_inv_counters. Qed.

(* ---- expiry ---- *)
Definition expire_targets (d : dir) (now max_age : Z) : list string :=
  dict_keys (filter (fun e => too_old now max_age (snd e)) (d_lights d)).

Lemma too_old_iff now max_age v : too_old now max_age v = true <-> a_expired now max_age v.
Proof. unfold too_old, a_expired. rewrite Z.gtb_lt. lia. Qed.

Lemma a_expiredb_iff now max_age v : a_expiredb now max_age v = true <-> a_expired now max_age v.
Proof. unfold a_expiredb, a_expired. rewrite Z.ltb_lt. lia. Qed.

Lemma too_old_a_expiredb now max_age v : too_old now max_age v = a_expiredb now max_age v.
Proof.
  destruct (too_old now max_age v) eqn:E1; destruct (a_expiredb now max_age v) eqn:E2; auto.
  - apply too_old_iff, a_expiredb_iff in E1. congruence.
  - apply a_expiredb_iff, too_old_iff in E2. congruence.
Qed.

Lemma expire_targets_In d now max_age n : NoDup (dict_keys (d_lights d)) ->
  (In n (expire_targets d now max_age) <-> exists v, In (n, v) (d_lights d) /\ a_expired now max_age v).
Proof.
  intros N. unfold expire_targets. split.
  - intros H. apply keys_in in H as [v H]. apply filter_In in H as [H1 H2]. cbn [snd] in H2.
    exists v. split; auto. now apply too_old_iff.
  - intros [v [H1 H2]]. apply (in_keys _ n v). apply filter_In. split; auto. now apply too_old_iff.
Qed.

Lemma expire_lights_eq d now max_age : NoDup (dict_keys (d_lights d)) ->
  d_lights (expire d now max_age) = filter (fun e => negb (a_expiredb now max_age (snd e))) (d_lights d).
Proof.
  intros N. unfold expire. cbn [d_lights]. fold (expire_targets d now max_age).
  rewrite (fold_dict_del _ _ N). apply filter_ext_in. intros [n v] H. cbn [fst snd]. f_equal.
  rewrite <- too_old_a_expiredb.
  destruct (too_old now max_age v) eqn:E.
  - apply memb_In. apply expire_targets_In; auto. exists v. split; auto. now apply too_old_iff.
  - destruct (memb n (expire_targets d now max_age)) eqn:M; auto.
    apply memb_In in M. apply expire_targets_In in M as [w [H1 H2]]; auto.
    assert (w = v).
    { apply (dict_get_In _ _ _ N) in H1. apply (dict_get_In _ _ _ N) in H. congruence. }
    subst. apply too_old_iff in H2. congruence.
Qed.

Lemma expire_names_eq d now max_age : sorted (d_names d) ->
  d_names (expire d now max_age) = filter (fun n => negb (memb n (expire_targets d now max_age))) (d_names d).
Proof.
  intros S. unfold expire. cbn [d_names]. fold (expire_targets d now max_age). now apply fold_sl_remove.
Qed.

Lemma members_expire proj d td now max_age :
  NoDup (dict_keys (d_lights d)) -> members_inv proj (d_lights d) td ->
  members_inv proj (d_lights (expire d now max_age))
              (fold_left (fun td n => remove_memberships n td) (expire_targets d now max_age) td).
Proof.
  intros N M. pose proof (members_inv_wf _ _ _ M) as W. destruct M as [_ _ X].
  destruct (fold_rm_wf (expire_targets d now max_age) td W) as [W1 W2]. constructor; auto.
  intros g m. rewrite (fold_rm_listed _ _ _ _ W), X, (expire_lights_eq _ _ _ N).
  rewrite (expire_targets_In _ _ _ _ N). split.
  - intros [[v [H1 H2]] H3]. exists v. split; auto. apply filter_In. split; auto. cbn [snd].
    destruct (a_expiredb now max_age v) eqn:E; auto. exfalso. apply H3. exists v. split; auto.
    now apply a_expiredb_iff.
  - intros [v [H1 H2]]. apply filter_In in H1 as [H1 H4]. cbn [snd] in H4. split; eauto.
    intros [w [H5 H6]].
    assert (w = v).
    { apply (dict_get_In _ _ _ N) in H1. apply (dict_get_In _ _ _ N) in H5. congruence. }
    subst. apply a_expiredb_iff in H6. rewrite H6 in H4. discriminate.
Qed.

Lemma expire_inv d now max_age : dir_inv d -> dir_inv (expire d now max_age).
Proof.
  intros [A B C D E]. constructor.
  - rewrite (expire_names_eq _ _ _ A). now apply filter_sorted.
  - rewrite (expire_lights_eq _ _ _ B). now apply filter_keys_NoDup.
  - intros n. rewrite (expire_names_eq _ _ _ A), (expire_lights_eq _ _ _ B), filter_In, C.
    rewrite negb_true_iff. split.
    + intros [H1 H2]. apply keys_in in H1 as [v H1]. apply (in_keys _ n v). apply filter_In.
      split; auto. cbn [snd]. destruct (a_expiredb now max_age v) eqn:X; auto.
      assert (In n (expire_targets d now max_age)).
      { apply expire_targets_In; auto. exists v. split; auto. now apply a_expiredb_iff. }
      apply memb_In in H. congruence.
    + intros H. apply keys_in in H as [v H]. apply filter_In in H as [H1 H2]. cbn [snd] in H2.
      split; [eapply in_keys; eauto|].
      destruct (memb n (expire_targets d now max_age)) eqn:X; auto.
      apply memb_In in X. apply expire_targets_In in X as [w [H5 H6]]; auto.
      assert (w = v).
      { apply (dict_get_In _ _ _ B) in H1. apply (dict_get_In _ _ _ B) in H5. congruence. }
      subst. apply a_expiredb_iff in H6. rewrite H6 in H2. discriminate.
  - apply (members_expire l_group d (d_groups d) now max_age B D).
  - apply (members_expire l_loc d (d_locs d) now max_age B E).
Qed.

Lemma do_step_inv d s : dir_inv d -> dir_inv (do_step d s).
Proof.
  destruct s; cbn [do_step]; intros I.
  - now apply discover_inv.
  - now apply failed_discover_inv.
  - now apply expire_inv.
Qed.

Lemma fold_steps_inv h : forall d, dir_inv d -> dir_inv (fold_left do_step h d).
Proof.
  induction h as [|s h IH]; intros d I; cbn [fold_left]; auto. apply IH. now apply do_step_inv.
Qed.

Theorem dir_inv_reachable : forall history, dir_inv (fold_left do_step history empty_dir).
Proof. intros h. apply fold_steps_inv. apply dir_inv_empty. Qed.

(* Expiry removes exactly the lights not seen for longer than max_age, with all
   their memberships, and touches nothing else. *)
Theorem expire_exact : forall d now max_age, dir_inv d ->
  let d' := expire d now max_age in
  let gone n := exists v, In (n, v) (d_lights d) /\ a_expired now max_age v in
  d_lights d' = filter (fun e => negb (a_expiredb now max_age (snd e))) (d_lights d) /\
  (forall n v, In (n, v) (d_lights d') <-> In (n, v) (d_lights d) /\ ~ a_expired now max_age v) /\
  (forall n, In n (d_names d') <-> In n (d_names d) /\ ~ gone n) /\
  (forall g n, listed (d_groups d') g n <-> listed (d_groups d) g n /\ ~ gone n) /\
  (forall g n, listed (d_locs d') g n <-> listed (d_locs d) g n /\ ~ gone n) /\
  d_ok d' = d_ok d /\ d_fail d' = d_fail d /\
  dir_inv d'.
Proof.
  intros d now max_age I d' gone. pose proof (expire_inv d now max_age I) as I'.
  destruct I as [A B C D E].
  split; [now apply expire_lights_eq|]. split; [|split; [|split; [|split]]].
  - intros n v. unfold d'. rewrite (expire_lights_eq _ _ _ B), filter_In. cbn [snd].
    rewrite negb_true_iff, <- a_expiredb_iff.
    destruct (a_expiredb now max_age v); intuition congruence.
  - intros n. unfold d'. rewrite (expire_names_eq _ _ _ A), filter_In, negb_true_iff.
    unfold gone. rewrite <- (expire_targets_In _ _ _ _ B), <- (memb_In n (expire_targets d now max_age)).
    destruct (memb n (expire_targets d now max_age)); split; intros [H1 H2]; split; auto; try congruence; exfalso; apply H2; reflexivity.
  - intros g n. unfold d', gone, expire. cbn [d_groups]. fold (expire_targets d now max_age).
    rewrite (fold_rm_listed _ _ _ _ (members_inv_wf _ _ _ D)), (expire_targets_In _ _ _ _ B). tauto.
  - intros g n. unfold d', gone, expire. cbn [d_locs]. fold (expire_targets d now max_age).
    rewrite (fold_rm_listed _ _ _ _ (members_inv_wf _ _ _ E)), (expire_targets_In _ _ _ _ B). tauto.
  - split; [reflexivity|split; [reflexivity|exact I']].
Qed.

(* ================= the boolean invariant ================= *)
Lemma members_invb_iff proj lights td : NoDup (dict_keys lights) ->
  (members_invb proj lights td = true <-> members_inv proj lights td).
Proof.
  intros N. unfold members_invb. rewrite !andb_true_iff, nodupb_NoDup, !forallb_forall. split.
  - intros [[K L] X]. constructor; auto.
    + intros g l H. specialize (L _ H). cbn [fst snd] in L.
      apply andb_true_iff in L as [L _]. apply andb_true_iff in L as [L1 L2].
      split; [now apply sortedb_sound|]. intros ->. discriminate.
    + intros g n. split.
      * intros [l [H Hn]]. specialize (L _ H). cbn [fst snd] in L.
        apply andb_true_iff in L as [_ L]. rewrite forallb_forall in L. specialize (L _ Hn).
        destruct (dict_get n lights) as [v|] eqn:G; [|discriminate].
        exists v. split; [now apply dict_get_Some_In|now apply String.eqb_eq].
      * intros [v [H E]]. specialize (X _ H). cbn [fst snd] in X. rewrite E in X.
        destruct (dict_get g td) as [l|] eqn:G; [|discriminate].
        exists l. split; [now apply dict_get_Some_In|now apply memb_In].
  - intros [K L X]. split; [split; auto|].
    + intros [g l] H. cbn [fst snd]. destruct (L _ _ H) as [S NE].
      rewrite (sortedb_complete _ S). destruct l as [|a l']; [contradiction|]. cbn [is_nil negb andb].
      apply forallb_forall. intros n Hn.
      destruct (proj1 (X g n)) as [v [H1 H2]]; [exists (a :: l'); auto|].
      apply (dict_get_In _ _ _ N) in H1. rewrite H1. now apply String.eqb_eq.
    + intros [n v] H. cbn [fst snd].
      destruct (proj2 (X (proj v) n)) as [l [H1 H2]]; [eauto|].
      apply (dict_get_In _ _ _ K) in H1. rewrite H1. now apply memb_In.
Qed.

Theorem dir_invb_iff : forall d, dir_invb d = true <-> dir_inv d.
Proof.
  intros d. unfold dir_invb. rewrite !andb_true_iff, nodupb_NoDup, !forallb_forall. split.
  - intros [[[[[A B] C1] C2] D] E]. constructor; auto.
    + now apply sortedb_sound.
    + intros n. split; intros H; apply memb_In; auto.
    + now apply members_invb_iff.
    + now apply members_invb_iff.
  - intros [A B C D E]. repeat split; auto.
    + now apply sortedb_complete.
    + intros n H. apply memb_In. now apply C.
    + intros n H. apply memb_In. now apply C.
    + now apply members_invb_iff.
    + now apply members_invb_iff.
Qed.

(* ================= sorting ================= *)
Lemma sorted_insert_In : forall l x y, In y (sorted_insert x l) <-> y = x \/ In y l.
Proof.
  induction l as [|z t IH]; intros x y; cbn [sorted_insert].
  - cbn. intuition.
  - destruct (str_ltb x z); cbn [In]; [|rewrite IH]; intuition.
Qed.

Lemma sorted_insert_sorted : forall l x, sorted l -> ~ In x l -> sorted (sorted_insert x l).
Proof.
  induction l as [|z t IH]; intros x S NI; cbn [sorted_insert].
  - apply sorted_single.
  - pose proof S as S'. apply sorted_cons_iff in S' as [St F]. destruct (str_ltb x z) eqn:E.
    + apply sorted_cons_iff. split; auto. constructor; auto.
      rewrite Forall_forall in *. intros y Hy. apply (str_lt_trans x z y); auto.
    + apply sorted_cons_iff. split.
      * apply IH; auto. intros H. apply NI. now right.
      * rewrite Forall_forall in *. intros y Hy. apply sorted_insert_In in Hy as [->|Hy]; auto.
        destruct (str_lt_trichotomy z x) as [H|[H|H]]; auto.
        -- subst. exfalso. apply NI. now left.
        -- unfold str_lt in H. congruence.
Qed.

Lemma py_sorted_In l y : In y (py_sorted l) <-> In y l.
Proof.
  induction l as [|x l IH]; cbn [py_sorted fold_right]; [tauto|].
  fold (py_sorted l). rewrite sorted_insert_In, IH. cbn. intuition.
Qed.

Lemma py_sorted_sorted l : NoDup l -> sorted (py_sorted l).
Proof.
  induction l as [|x l IH]; intros N; cbn [py_sorted fold_right]; [constructor|].
  fold (py_sorted l). inversion N; subst. apply sorted_insert_sorted; auto.
  now rewrite py_sorted_In.
Qed.

Lemma set_insert_In : forall l x y, In y (set_insert x l) <-> y = x \/ In y l.
Proof.
  induction l as [|z t IH]; intros x y; cbn [set_insert].
  - cbn. intuition.
  - destruct (str_ltb x z) eqn:E1; [cbn [In]; intuition|].
    destruct (str_ltb z x) eqn:E2; cbn [In]; [rewrite IH; intuition|].
    pose proof (str_ltb_total _ _ E1 E2). subst. intuition.
Qed.

Lemma set_insert_sorted : forall l x, sorted l -> sorted (set_insert x l).
Proof.
  induction l as [|z t IH]; intros x S; cbn [set_insert].
  - apply sorted_single.
  - pose proof S as S'. apply sorted_cons_iff in S' as [St F]. destruct (str_ltb x z) eqn:E1.
    + apply sorted_cons_iff. split; auto. constructor; auto.
      rewrite Forall_forall in *. intros y Hy. apply (str_lt_trans x z y); auto.
    + destruct (str_ltb z x) eqn:E2; auto. apply sorted_cons_iff. split; auto.
      rewrite Forall_forall in *. intros y Hy. apply set_insert_In in Hy as [->|Hy]; auto.
Qed.

Lemma sort_set_In l y : In y (sort_set l) <-> In y l.
Proof.
  induction l as [|x l IH]; cbn [sort_set fold_right]; [tauto|].
  fold (sort_set l). rewrite set_insert_In, IH. cbn. intuition.
Qed.

Lemma sort_set_sorted l : sorted (sort_set l).
Proof.
  induction l as [|x l IH]; cbn [sort_set fold_right]; [constructor|].
  fold (sort_set l). now apply set_insert_sorted.
Qed.

(* ================= refinement to the abstract directory ================= *)
Definition refines (d : dir) (m : amap) : Prop :=
  NoDup (dict_keys m) /\ forall n v, In (n, v) (d_lights d) <-> In (n, v) m.

Lemma a_put_In n v (m : amap) n' v' :
  In (n', v') (a_put n v m) <-> (n' = n /\ v' = v) \/ (n' <> n /\ In (n', v') m).
Proof.
  unfold a_put. cbn [In]. rewrite filter_In. cbn [fst]. rewrite negb_true_iff, String.eqb_neq. split.
  - intros [H|[H1 H2]]; [inversion H|]; auto.
  - intros [[-> ->]|[H1 H2]]; auto.
Qed.

Lemma a_put_NoDup n v (m : amap) : NoDup (dict_keys m) -> NoDup (dict_keys (a_put n v m)).
Proof.
  intros N. unfold a_put. cbn [dict_keys map fst]. constructor; [|now apply filter_keys_NoDup].
  intros H. apply keys_in in H as [w H]. apply filter_In in H as [_ H]. cbn [fst] in H.
  now rewrite String.eqb_refl in H.
Qed.

Lemma refines_discover_one t d m r : NoDup (dict_keys (d_lights d)) -> refines d m ->
  refines (discover_one t d r) (a_put (r_name r) (mkLight (r_group r) (r_loc r) t) m).
Proof.
  intros N [K X]. split; [now apply a_put_NoDup|].
  intros n v. unfold discover_one. cbn [d_lights]. rewrite (dict_set_In _ _ _ _ _ N), a_put_In, X. tauto.
Qed.

Lemma refines_fold_discover t snap : forall d m, dir_inv d -> refines d m ->
  refines (fold_left (discover_one t) snap d)
          (fold_left (fun m r => a_put (r_name r) (mkLight (r_group r) (r_loc r) t) m) snap m).
Proof.
  induction snap as [|r snap IH]; intros d m I R; cbn [fold_left]; auto.
  apply IH; [now apply discover_one_inv|]. apply refines_discover_one; auto. now destruct I.
Qed.

Lemma refines_step d m s : dir_inv d -> refines d m -> refines (do_step d s) (a_step m s).
Proof.
  intros I R. destruct s as [snap t| |now max_age]; cbn [do_step a_step].
  - destruct (refines_fold_discover t snap d m I R) as [K X]. split; auto.
  - destruct R as [K X]. split; auto.
  - destruct R as [K X]. split; [now apply filter_keys_NoDup|].
    intros n v. rewrite (expire_lights_eq _ _ _ (di_lights_keys _ I)). unfold a_expire.
    rewrite !filter_In, X. tauto.
Qed.

Lemma refines_fold h : forall d m, dir_inv d -> refines d m ->
  refines (fold_left do_step h d) (fold_left a_step h m).
Proof.
  induction h as [|s h IH]; intros d m I R; cbn [fold_left]; auto.
  apply IH; [now apply do_step_inv|now apply refines_step].
Qed.

Lemma refines_run h : refines (run h) (a_run h).
Proof.
  apply refines_fold; [apply dir_inv_empty|]. split; [constructor|]. cbn. tauto.
Qed.

Lemma nil_of_no_elements {A} (l : list A) : (forall x, ~ In x l) -> l = [].
Proof. destruct l as [|a l]; auto. intros H. exfalso. apply (H a). now left. Qed.

Lemma members_refine proj d td m g : NoDup (dict_keys (d_lights d)) ->
  members_inv proj (d_lights d) td -> refines d m ->
  dict_get g td = spec_members proj m g /\ sl_of_list (dict_keys td) = spec_member_names proj m.
Proof.
  intros N [K L X] [Km R]. split.
  - unfold spec_members.
    set (want := sort_set (dict_keys (filter (fun e => String.eqb (proj (snd e)) g) m))).
    assert (W : forall n, In n want <-> exists v, In (n, v) (d_lights d) /\ proj v = g).
    { intros n. unfold want. rewrite sort_set_In. split.
      - intros H. apply keys_in in H as [v H]. apply filter_In in H as [H1 H2]. cbn [snd] in H2.
        exists v. split; [now apply R|now apply String.eqb_eq].
      - intros [v [H1 H2]]. apply (in_keys _ n v). apply filter_In. split; [now apply R|].
        cbn [snd]. now apply String.eqb_eq. }
    destruct (dict_get g td) as [l|] eqn:G.
    + apply (dict_get_In _ _ _ K) in G. destruct (L _ _ G) as [S NE].
      assert (l = want).
      { apply sorted_ext; auto; [apply sort_set_sorted|]. intros n. rewrite W, <- X. split.
        - intros H. exists l. auto.
        - intros [l' [H1 H2]]. now rewrite (td_wf_unique _ _ _ _ K G H1). }
      subst l. destruct want; [contradiction|reflexivity].
    + rewrite (nil_of_no_elements want); auto. intros n H. apply W in H. apply X in H as [l [H _]].
      apply dict_get_None in G. apply G. eapply in_keys; eauto.
  - unfold spec_member_names, sl_of_list. apply sorted_ext.
    + now apply py_sorted_sorted.
    + apply sort_set_sorted.
    + intros g'. rewrite py_sorted_In, sort_set_In, in_map_iff. split.
      * intros H. apply keys_in in H as [l H]. destruct (L _ _ H) as [_ NE].
        destruct l as [|n l']; [contradiction|].
        destruct (proj1 (X g' n)) as [v [H1 H2]]; [exists (n :: l'); split; auto; now left|].
        exists (n, v). split; auto. now apply R.
      * intros [[n v] [E H]]. cbn [snd] in E. apply R in H.
        destruct (proj2 (X g' n)) as [l [H1 _]]; [eauto|]. eapply in_keys; eauto.
Qed.

Lemma counters_fold h : forall d,
  d_ok (fold_left do_step h d) = d_ok d + spec_successes h /\
  d_fail (fold_left do_step h d) = d_fail d + spec_failures h.
Proof.
  unfold spec_successes, spec_failures.
  induction h as [|s h IH]; intros d; cbn [fold_left filter length].
  - cbn. lia.
  - destruct (IH (do_step d s)) as [A B]. rewrite A, B.
    destruct s; cbn [do_step discover failed_discover expire d_ok d_fail length]; lia.
Qed.

(* Every getter of a reachable directory returns what the abstract directory
   (finite map name -> group, location, last seen) determines. *)
Theorem getters_refine : forall h,
  let d := run h in let m := a_run h in
  (forall n, get_light d n = a_get n m) /\
  get_light_names d = spec_light_names m /\
  get_light_count d = spec_light_count m /\
  (forall g, get_group_lights d g = spec_group_lights m g) /\
  get_group_names d = spec_group_names m /\
  (forall g, get_location_lights d g = spec_location_lights m g) /\
  get_location_names d = spec_location_names m /\
  get_successful_discovers d = spec_successes h /\
  get_failed_discovers d = spec_failures h.
Proof.
  intros h d m. pose proof (dir_inv_reachable h) as I. fold (run h) in I. fold d in I.
  pose proof (refines_run h) as R. fold d in R. fold m in R.
  destruct I as [A B C D E]. pose proof R as [Km X].
  assert (NM : get_light_names d = spec_light_names m).
  { unfold get_light_names, spec_light_names. apply sorted_ext; auto; [apply sort_set_sorted|].
    intros n. rewrite sort_set_In, C. split; intros H; apply keys_in in H as [v H]; apply (in_keys _ n v); now apply X. }
  split; [|split; [|split; [|split; [|split; [|split; [|split; [|split]]]]]]]; auto.
  - intros n. unfold get_light, a_get. destruct (dict_get n m) as [v|] eqn:G.
    + apply (dict_get_In _ _ _ Km) in G. apply (dict_get_In _ _ _ B). now apply X.
    + apply dict_get_None. apply dict_get_None in G. intros H. apply G.
      apply keys_in in H as [v H]. apply (in_keys _ n v). now apply X.
  - unfold get_light_count, spec_light_count. rewrite <- NM. f_equal. unfold get_light_names.
    rewrite <- (map_length fst (d_lights d)). apply Permutation_length.
    apply NoDup_Permutation; auto; [now apply sorted_NoDup|]. intros n. symmetry. apply C.
  - intros g. apply (members_refine l_group d (d_groups d) m g B D R).
  - apply (members_refine l_group d (d_groups d) m EmptyString B D R).
  - intros g. apply (members_refine l_loc d (d_locs d) m g B E R).
  - apply (members_refine l_loc d (d_locs d) m EmptyString B E R).
  - unfold get_successful_discovers, d, run. destruct (counters_fold h empty_dir) as [P _]. rewrite P. cbn. lia.
  - unfold get_failed_discovers, d, run. destruct (counters_fold h empty_dir) as [_ P]. rewrite P. cbn. lia.
Qed.

(* ================= next / prev / first / last on the real operations ================= *)
Theorem next_is_least_greater : forall l x, sorted l -> least_above l x (sl_next l x).
Proof. intros l x S. rewrite sl_next_nxt. now apply nxt_spec. Qed.

Theorem prev_is_greatest_smaller : forall l x, sorted l -> greatest_below l x (sl_prev l x).
Proof. intros l x S. rewrite sl_prev_prv. now apply prv_spec. Qed.

Lemma remove_all_filter l xs : sorted l ->
  sl_remove_all l xs = filter (fun y => negb (memb y xs)) l.
Proof. intros S. unfold sl_remove_all. now apply fold_sl_remove. Qed.

Lemma filter_len {A} (f : A -> bool) l : (length (filter f l) <= length l)%nat.
Proof. induction l as [|x l IH]; cbn [filter length]; [lia|]. destruct (f x); cbn [length]; lia. Qed.

(* ================= iteration while elements disappear ================= *)
Section Iteration.
  Variable Rb : string -> string -> bool.      (* Rb a b: b comes after a in the direction of travel *)
  Let R (a b : string) : Prop := Rb a b = true.
  Hypothesis R_irrefl : forall a, ~ R a a.
  Hypothesis R_trans : forall a b c, R a b -> R b c -> R a c.
  Hypothesis R_total : forall a b, R a b \/ a = b \/ R b a.
  Variable startf : list string -> option string.
  Variable stepf : list string -> string -> option string.
  Hypothesis startf_spec : forall l, sorted l ->
    match startf l with
    | Some y => In y l /\ forall z, In z l -> ~ R z y
    | None => l = []
    end.
  Hypothesis stepf_spec : forall l x, sorted l ->
    match stepf l x with
    | Some y => In y l /\ R x y /\ forall z, In z l -> R x z -> ~ R z y
    | None => forall z, In z l -> ~ R x z
    end.

  Let cnt (cur : string) (l : list string) : nat := length (filter (Rb cur) l).

  Lemma iter_gen_ok : forall fuel sched i l cur, sorted l -> (cnt cur l < fuel)%nat ->
    exists tr final, iter_gen stepf fuel sched i l cur = Some (tr, final) /\
      trace_ok R (Some cur) tr final /\ sorted final /\ incl final l /\
      (forall lk v, In (lk, v) tr -> sorted lk /\ incl lk l /\ incl final lk) /\
      (forall z, In z l -> (forall j, ~ In z (sched j)) -> In z final).
  Proof.
    induction fuel as [|f IH]; intros sched i l cur Sl Hf; [lia|].
    cbn [iter_gen]. rewrite (remove_all_filter _ _ Sl).
    set (l' := filter (fun y => negb (memb y (sched i))) l).
    assert (S' : sorted l') by now apply filter_sorted.
    assert (I' : incl l' l) by (intros z Hz; now apply filter_In in Hz).
    assert (K' : forall z, In z l -> (forall j, ~ In z (sched j)) -> In z l').
    { intros z Hz Hn. apply filter_In. split; auto. apply negb_true_iff.
      destruct (memb z (sched i)) eqn:M; auto. apply memb_In in M. now apply Hn in M. }
    pose proof (stepf_spec l' cur S') as SP. destruct (stepf l' cur) as [n|].
    - destruct SP as [Hn [Rn Least]].
      assert (Hc : (cnt n l' < f)%nat).
      { unfold cnt in *.
        assert (LE : (length (n :: filter (Rb n) l') <= length (filter (Rb cur) l))%nat).
        { apply NoDup_incl_length.
          - constructor.
            + intros H. apply filter_In in H as [_ H]. now apply (R_irrefl n).
            + apply sorted_NoDup. now apply filter_sorted.
          - intros z [<-|Hz]; apply filter_In.
            + split; auto.
            + apply filter_In in Hz as [Hz1 Hz2]. split; auto. apply (R_trans cur n z); auto. }
        cbn [length] in LE. lia. }
      destruct (IH sched (S i) l' n S' Hc) as [tr [final [E [T [Sf [If [Ent Nev]]]]]]].
      rewrite E. exists ((l', n) :: tr), final. split; [reflexivity|].
      split; [cbn [trace_ok after]; auto|]. split; auto.
      split; [intros z Hz; auto|]. split.
      + intros lk v [H|H].
        * inversion H; subst. auto.
        * destruct (Ent _ _ H) as [A [B C]]. split; auto. split; auto. intros z Hz. auto.
      + intros z Hz Hnr. auto.
    - exists [], l'. split; [reflexivity|]. split; [exact SP|]. split; [exact S'|].
      split; [exact I'|]. split; [intros lk v []|exact K'].
  Qed.

  Lemma trace_visits_sorted : forall tr prev final, trace_ok R prev tr final ->
    StronglySorted R (map snd tr) /\ Forall (after R prev) (map snd tr).
  Proof.
    induction tr as [|[lk v] r IH]; intros prev final T; cbn [map snd].
    - split; constructor.
    - cbn [trace_ok] in T. destruct T as [_ [Av [_ T]]]. destruct (IH _ _ T) as [S F].
      split; [constructor; auto|]. constructor; auto.
      rewrite Forall_forall in *. intros w Hw. specialize (F _ Hw). cbn [after] in F.
      destruct prev as [p|]; cbn [after] in *; auto. apply (R_trans p v w); auto.
  Qed.

  Lemma trace_nothing_skipped : forall tr prev final, trace_ok R prev tr final ->
    (forall lk v, In (lk, v) tr -> incl final lk) ->
    forall z, In z final -> after R prev z -> In z (map snd tr).
  Proof.
    induction tr as [|[lk v] r IH]; intros prev final T Inc z Hz Az; cbn [trace_ok] in T.
    - exfalso. exact (T z Hz Az).
    - destruct T as [Hv [Av [Least T]]]. cbn [map snd In].
      assert (Hzk : In z lk) by (apply (Inc lk v); [now left|auto]).
      destruct (R_total v z) as [H|[H|H]]; auto.
      + right. apply (IH (Some v) final T); auto. intros lk' v' H'. apply (Inc lk' v'). now right.
      + exfalso. exact (Least z Hzk Az H).
  Qed.

  Lemma StronglySorted_R_NoDup l : StronglySorted R l -> NoDup l.
  Proof.
    induction l as [|x l IH]; intros SS; inversion SS as [|? ? SS' F]; subst; constructor; auto.
    intros H. rewrite Forall_forall in F. exact (R_irrefl x (F x H)).
  Qed.

  Theorem iteration_gen : forall sched l, sorted l ->
    exists tr final, iterate_gen startf stepf (S (length l)) sched l = Some (tr, final) /\
      trace_ok R None tr final /\
      StronglySorted R (map snd tr) /\ NoDup (map snd tr) /\
      (forall z, In z final -> In z (map snd tr)) /\
      (forall z, In z (map snd tr) -> In z l) /\
      (forall z, In z l -> (forall j, ~ In z (sched j)) -> In z final) /\
      incl final l.
  Proof.
    intros sched l Sl. unfold iterate_gen. rewrite (remove_all_filter _ _ Sl).
    set (l0 := filter (fun y => negb (memb y (sched O))) l).
    assert (S0 : sorted l0) by now apply filter_sorted.
    assert (I0 : incl l0 l) by (intros z Hz; now apply filter_In in Hz).
    assert (K0 : forall z, In z l -> (forall j, ~ In z (sched j)) -> In z l0).
    { intros z Hz Hn. apply filter_In. split; auto. apply negb_true_iff.
      destruct (memb z (sched O)) eqn:M; auto. apply memb_In in M. now apply Hn in M. }
    pose proof (startf_spec l0 S0) as SP. destruct (startf l0) as [c|].
    - destruct SP as [Hc Least].
      assert (Hf : (cnt c l0 < S (length l))%nat).
      { unfold cnt. pose proof (filter_len (Rb c) l0). pose proof (filter_len (fun y => negb (memb y (sched O))) l).
        fold l0 in H0. lia. }
      destruct (iter_gen_ok (S (length l)) sched 1%nat l0 c S0 Hf) as [tr [final [E [T [Sf [If [Ent Nev]]]]]]].
      rewrite E. exists ((l0, c) :: tr), final. split; [reflexivity|].
      assert (T' : trace_ok R None ((l0, c) :: tr) final).
      { cbn [trace_ok after]. repeat split; auto. }
      assert (Inc : forall lk v, In (lk, v) ((l0, c) :: tr) -> incl final lk).
      { intros lk v [H|H]; [inversion H; subst; auto|]. now destruct (Ent _ _ H) as [_ [_ X]]. }
      destruct (trace_visits_sorted _ _ _ T') as [SS _].
      split; auto. split; auto. split; [now apply StronglySorted_R_NoDup|]. split.
      + intros z Hz. apply (trace_nothing_skipped _ None final T' Inc z Hz). exact I.
      + split; [|split].
        * intros z Hz. apply in_map_iff in Hz as [[lk v] [Ez Hz]]. cbn [snd] in Ez. subst v.
          destruct Hz as [H|H].
          -- inversion H; subst. auto.
          -- destruct (Ent _ _ H) as [_ [B _]].
             assert (In z lk).
             { clear - T H stepf_spec. revert T H. generalize (Some c). induction tr as [|[lk' v'] r IHr]; intros p T H; [destruct H|].
               cbn [trace_ok] in T. destruct T as [Hv [_ [_ T]]]. destruct H as [H|H].
               - inversion H; subst. auto.
               - apply (IHr (Some v') T H). }
             auto.
        * intros z Hz Hn. auto.
        * intros z Hz. auto.
    - exists [], l0. split; [reflexivity|]. cbn [trace_ok after map].
      split; [rewrite SP; intros z []|]. split; [constructor|]. split; [constructor|].
      split; [rewrite SP; intros z []|]. split; [intros z []|].
      split; [exact K0|exact I0].
  Qed.
End Iteration.

Lemma str_gt_total a b : str_ltb b a = true \/ a = b \/ str_ltb a b = true.
Proof. destruct (str_lt_trichotomy a b) as [H|[H|H]]; auto. Qed.

(* forwards: first / next *)
Theorem iteration_visits_remaining_once : forall sched l, sorted l ->
  exists tr final, iterate (S (length l)) sched l = Some (tr, final) /\
    trace_ok str_lt None tr final /\
    sorted (map snd tr) /\ NoDup (map snd tr) /\
    (forall z, In z final -> In z (map snd tr)) /\
    (forall z, In z (map snd tr) -> In z l) /\
    (forall z, In z l -> (forall j, ~ In z (sched j)) -> In z final) /\
    incl final l.
Proof.
  intros sched l S. unfold iterate.
  apply (iteration_gen str_ltb str_lt_irrefl str_lt_trans str_lt_trichotomy sl_first sl_next); auto.
  - intros l0 S0. apply first_spec; auto.
  - intros l0 x S0. apply (next_is_least_greater l0 x S0).
Qed.

(* backwards: last / prev *)
Theorem iteration_back_visits_remaining_once : forall sched l, sorted l ->
  exists tr final, iterate_back (S (length l)) sched l = Some (tr, final) /\
    trace_ok str_gt None tr final /\
    StronglySorted str_gt (map snd tr) /\ NoDup (map snd tr) /\
    (forall z, In z final -> In z (map snd tr)) /\
    (forall z, In z (map snd tr) -> In z l) /\
    (forall z, In z l -> (forall j, ~ In z (sched j)) -> In z final) /\
    incl final l.
Proof.
  intros sched l S. unfold iterate_back.
  apply (iteration_gen (fun a b => str_ltb b a)); auto.
  - intros a. apply str_lt_irrefl.
  - intros a b c H1 H2. apply (str_lt_trans c b a); auto.
  - intros a b. apply str_gt_total.
  - intros l0 S0. apply last_spec; auto.
  - intros l0 x S0. apply (prev_is_greatest_smaller l0 x S0).
Qed.

(* ================= the invariant in the words of the property ================= *)
Lemma members_words proj (lights : dict light) td :
  NoDup (dict_keys lights) -> members_inv proj lights td ->
  (forall n v, dict_get n lights = Some v -> forall g, listed td g n <-> g = proj v) /\
  (forall g l, dict_get g td = Some l ->
     sorted l /\ l <> [] /\
     forall n, In n l <-> exists v, dict_get n lights = Some v /\ proj v = g) /\
  sorted (sl_of_list (dict_keys td)) /\
  (forall g, In g (sl_of_list (dict_keys td)) <-> exists n, listed td g n) /\
  (forall g, In g (sl_of_list (dict_keys td)) <-> dict_get g td <> None).
Proof.
  intros N [K L X]. split; [|split; [|split; [|split]]].
  - intros n v G g. apply (dict_get_In _ _ _ N) in G. rewrite X. split.
    + intros [w [H1 H2]]. apply (dict_get_In _ _ _ N) in H1, G. congruence.
    + intros ->. eauto.
  - intros g l G. apply (dict_get_In _ _ _ K) in G. destruct (L _ _ G) as [S NE].
    split; auto. split; auto. intros n. split.
    + intros H. destruct (proj1 (X g n)) as [v [H1 H2]]; [exists l; auto|].
      exists v. split; auto. now apply (dict_get_In _ _ _ N).
    + intros [v [H1 H2]]. apply (dict_get_In _ _ _ N) in H1.
      destruct (proj2 (X g n)) as [l' [H3 H4]]; [eauto|]. now rewrite (td_wf_unique _ _ _ _ K G H3).
  - now apply py_sorted_sorted.
  - intros g. unfold sl_of_list. rewrite py_sorted_In. split.
    + intros H. apply keys_in in H as [l H]. destruct (L _ _ H) as [_ NE].
      destruct l as [|n l']; [contradiction|]. exists n, (n :: l'). split; auto. now left.
    + intros [n [l [H _]]]. eapply in_keys; eauto.
  - intros g. unfold sl_of_list. rewrite py_sorted_In. split.
    + intros H G. apply dict_get_None in G. contradiction.
    + intros H. destruct (dict_get g td) as [l|] eqn:G; [|contradiction].
      apply dict_get_Some_In in G. eapply in_keys; eauto.
Qed.

Theorem directory_consistent : forall d, dir_inv d ->
  (* the list of light names is sorted, duplicate-free and names exactly the known lights *)
  sorted (get_light_names d) /\ NoDup (get_light_names d) /\
  (forall n, In n (get_light_names d) <-> get_light d n <> None) /\
  get_light_count d = Z.of_nat (length (get_light_names d)) /\
  (* every known light is listed under exactly the one group and the one location it last reported *)
  (forall n v, get_light d n = Some v ->
     (forall g, listed (d_groups d) g n <-> g = l_group v) /\
     (forall g, listed (d_locs d) g n <-> g = l_loc v)) /\
  (* member lists are sorted, duplicate-free, never empty, and hold exactly those lights *)
  (forall g l, get_group_lights d g = Some l ->
     sorted l /\ l <> [] /\ forall n, In n l <-> exists v, get_light d n = Some v /\ l_group v = g) /\
  (forall g l, get_location_lights d g = Some l ->
     sorted l /\ l <> [] /\ forall n, In n l <-> exists v, get_light d n = Some v /\ l_loc v = g) /\
  (* the group and location name lists name exactly the non-empty ones *)
  sorted (get_group_names d) /\
  (forall g, In g (get_group_names d) <-> exists n, listed (d_groups d) g n) /\
  (forall g, In g (get_group_names d) <-> get_group_lights d g <> None) /\
  sorted (get_location_names d) /\
  (forall g, In g (get_location_names d) <-> exists n, listed (d_locs d) g n) /\
  (forall g, In g (get_location_names d) <-> get_location_lights d g <> None).
Proof.
  intros d [A B C D E].
  destruct (members_words l_group _ _ B D) as [G1 [G2 [G3 [G4 G5]]]].
  destruct (members_words l_loc _ _ B E) as [L1 [L2 [L3 [L4 L5]]]].
  unfold get_light_names, get_light, get_light_count, get_group_lights, get_location_lights,
    get_group_names, get_location_names.
  split; auto. split; [now apply sorted_NoDup|]. split.
  { intros n. rewrite C. split.
    - intros H G. apply dict_get_None in G. contradiction.
    - intros H. destruct (dict_get n (d_lights d)) as [v|] eqn:G; [|contradiction].
      apply dict_get_Some_In in G. eapply in_keys; eauto. }
  split.
  { f_equal. rewrite <- (map_length fst (d_lights d)). apply Permutation_length.
    apply NoDup_Permutation; auto; [now apply sorted_NoDup|]. intros n. symmetry. apply C. }
  split; [intros n v H; split; [now apply G1|now apply L1]|].
  repeat (split; auto).
Qed.

(* ================= vm_discover ================= *)
Lemma names_by_oper_sorted d op : dir_inv d -> sorted (names_by_oper d op).
Proof.
  intros I. destruct (directory_consistent d I) as [A [_ [_ [_ [_ [_ [_ [B [_ [_ [C _]]]]]]]]]]].
  destruct op; auto.
Qed.

Definition nearest (fwd : bool) (l : list string) (x : string) (r : option string) : Prop :=
  if fwd then least_above l x r else greatest_below l x r.

Lemma steps_nearest fwd l x : sorted l -> nearest fwd l x (steps fwd l x).
Proof.
  intros S. destruct fwd; cbn [nearest steps];
    [now apply next_is_least_greater|now apply prev_is_greatest_smaller].
Qed.

Definition to_result (r : option string) : dresult :=
  match r with Some n => DName n | None => DNull end.

Lemma or_null_to_result r : or_null r = to_result r.
Proof. destruct r; reflexivity. Qed.

Lemma nearest_In fwd l x y : nearest fwd l x (Some y) -> In y l.
Proof. destruct fwd; cbn; tauto. Qed.

(* Stepping over lights, groups or locations from ANY name (present or not) gives the
   nearest remaining one, NULL when there is none; never a fault. *)
Theorem vm_dnext_nearest : forall d op fwd cur, dir_inv d ->
  exists r, vm_dnext d op fwd cur = to_result r /\ nearest fwd (names_by_oper d op) cur r.
Proof.
  intros d op fwd cur I. exists (steps fwd (names_by_oper d op) cur).
  pose proof (steps_nearest fwd _ cur (names_by_oper_sorted d op I)) as N.
  split; [unfold vm_dnext; apply or_null_to_result|exact N].
Qed.

(* The same for the members of a group or location, as long as it still exists. *)
Theorem vm_dnextm_nearest_while_listed : forall d op name fwd cur l, dir_inv d ->
  set_by_oper d op name = Some l ->
  exists r, vm_dnextm d op name fwd cur = to_result r /\ nearest fwd l cur r.
Proof.
  intros d op name fwd cur l I G. exists (steps fwd l cur).
  assert (S : sorted l).
  { destruct (directory_consistent d I) as [_ [_ [_ [_ [_ [A [B _]]]]]]].
    destruct op; cbn [set_by_oper] in G; [discriminate|now apply (A name l)|now apply (B name l)]. }
  pose proof (steps_nearest fwd l cur S) as N.
  split; [unfold vm_dnextm, vm_dnextm_gen; rewrite G; apply or_null_to_result|exact N].
Qed.

(* The repaired dnextm: nearest remaining member, NULL when none is left -- in particular
   when the group or location itself is gone; never a fault. *)
Definition members_now (d : dir) (op : operand) (name : string) : list string :=
  match set_by_oper d op name with Some l => l | None => [] end.

Theorem vm_dnextm_fixed_nearest : forall d op name fwd cur, dir_inv d ->
  exists r, vm_dnextm_fixed d op name fwd cur = to_result r /\ nearest fwd (members_now d op name) cur r.
Proof.
  intros d op name fwd cur I. unfold members_now in *.
  destruct (set_by_oper d op name) as [l|] eqn:G.
  - destruct (vm_dnextm_nearest_while_listed d op name fwd cur l I G) as [r [H1 H2]].
    exists r. split; auto. unfold vm_dnextm_fixed, vm_dnextm_gen. unfold vm_dnextm, vm_dnextm_gen in H1.
    now rewrite G in *.
  - exists None. unfold vm_dnextm_fixed, vm_dnextm_gen. rewrite G. split; auto.
    destruct fwd; cbn; tauto.
Qed.

(* Pinned tree: once the group (location) being iterated has lost its last light,
   the next step does not end the iteration but faults (AttributeError on None). *)
Definition vanish_before : list step :=
  [Discover [("a", ("g", "l")); ("b", ("h", "l"))] 0].
Definition vanish_step : step := Discover [("a", ("h", "l"))] 10.

Theorem member_iteration_group_vanished_refuted :
  exists h s g cur,
    vm_discm (run h) OGroup g true = DName cur /\
    get_group_lights (run (h ++ [s])) g = None /\
    vm_dnextm (run (h ++ [s])) OGroup g true cur = DFault.
Proof.
  exists vanish_before, vanish_step, "g", "a". repeat split; vm_compute; reflexivity.
Qed.

(* ================= CPython's binary search returns the same positions ================= *)
Lemma bisect_left_le l x : (bisect_left l x <= length l)%nat.
Proof. induction l as [|y t IH]; cbn; [lia|]. destruct (str_ltb y x); cbn; lia. Qed.

Lemma bisect_left_below : forall l x i, (i < bisect_left l x)%nat -> str_ltb (nth i l "") x = true.
Proof.
  induction l as [|y t IH]; intros x i H; cbn [bisect_left] in H; [lia|].
  destruct (str_ltb y x) eqn:E; [|lia]. destruct i as [|i]; cbn [nth]; auto. apply IH. lia.
Qed.

Lemma bisect_left_above : forall l x i, sorted l -> (bisect_left l x <= i < length l)%nat ->
  str_ltb (nth i l "") x = false.
Proof.
  induction l as [|y t IH]; intros x i S H; cbn [bisect_left length] in H; [lia|].
  pose proof S as S'. apply sorted_cons_iff in S' as [St F]. rewrite Forall_forall in F.
  destruct (str_ltb y x) eqn:E.
  - destruct i as [|i]; [lia|]. cbn [nth]. apply IH; auto. lia.
  - destruct i as [|i]; cbn [nth]; auto.
    destruct (str_ltb (nth i t "") x) eqn:E2; auto.
    assert (Hin : In (nth i t "") t) by (apply nth_In; lia).
    pose proof (str_ltb_trans _ _ _ (F _ Hin) E2). congruence.
Qed.

Lemma bisect_right_le l x : (bisect_right l x <= length l)%nat.
Proof. induction l as [|y t IH]; cbn; [lia|]. destruct (str_ltb x y); cbn; lia. Qed.

Lemma bisect_right_below : forall l x i, (i < bisect_right l x)%nat -> str_ltb x (nth i l "") = false.
Proof.
  induction l as [|y t IH]; intros x i H; cbn [bisect_right] in H; [lia|].
  destruct (str_ltb x y) eqn:E; [lia|]. destruct i as [|i]; cbn [nth]; auto. apply IH. lia.
Qed.

Lemma bisect_right_above : forall l x i, sorted l -> (bisect_right l x <= i < length l)%nat ->
  str_ltb x (nth i l "") = true.
Proof.
  induction l as [|y t IH]; intros x i S H; cbn [bisect_right length] in H; [lia|].
  pose proof S as S'. apply sorted_cons_iff in S' as [St F]. rewrite Forall_forall in F.
  destruct (str_ltb x y) eqn:E.
  - destruct i as [|i]; cbn [nth]; auto.
    assert (Hin : In (nth i t "") t) by (apply nth_In; lia).
    apply (str_ltb_trans x y _); auto. apply F; auto.
  - destruct i as [|i]; [lia|]. cbn [nth]. apply IH; auto. lia.
Qed.

Lemma div2_mid lo hi : (lo < hi)%nat -> (lo <= Nat.div2 (lo + hi) < hi)%nat.
Proof.
  intros H. pose proof (Nat.div2_odd (lo + hi)) as E.
  destruct (Nat.odd (lo + hi)); cbn [Nat.b2n] in E; lia.
Qed.

Lemma bisect_left_loop_ok l x : sorted l -> forall fuel lo hi,
  (lo <= bisect_left l x <= hi)%nat -> (hi <= length l)%nat -> (hi - lo < fuel)%nat ->
  bisect_left_loop fuel l x lo hi = bisect_left l x.
Proof.
  intros S. induction fuel as [|f IH]; intros lo hi B Hl Hf; [lia|].
  cbn [bisect_left_loop]. destruct (Nat.ltb lo hi) eqn:E.
  - apply Nat.ltb_lt in E. pose proof (div2_mid lo hi E) as M.
    set (mid := Nat.div2 (lo + hi)) in *.
    destruct (str_ltb (nth mid l "") x) eqn:C.
    + assert (mid < bisect_left l x)%nat.
      { destruct (Nat.lt_ge_cases mid (bisect_left l x)) as [|G]; auto.
        rewrite (bisect_left_above l x mid S) in C; [discriminate|lia]. }
      apply IH; lia.
    + assert (bisect_left l x <= mid)%nat.
      { destruct (Nat.lt_ge_cases mid (bisect_left l x)) as [G|]; auto.
        rewrite (bisect_left_below l x mid G) in C. discriminate. }
      apply IH; lia.
  - apply Nat.ltb_ge in E. lia.
Qed.

Theorem bisect_left_bin_correct : forall l x, sorted l -> bisect_left_bin l x = bisect_left l x.
Proof.
  intros l x S. unfold bisect_left_bin. pose proof (bisect_left_le l x).
  apply bisect_left_loop_ok; auto; lia.
Qed.

Lemma bisect_right_loop_ok l x : sorted l -> forall fuel lo hi,
  (lo <= bisect_right l x <= hi)%nat -> (hi <= length l)%nat -> (hi - lo < fuel)%nat ->
  bisect_right_loop fuel l x lo hi = bisect_right l x.
Proof.
  intros S. induction fuel as [|f IH]; intros lo hi B Hl Hf; [lia|].
  cbn [bisect_right_loop]. destruct (Nat.ltb lo hi) eqn:E.
  - apply Nat.ltb_lt in E. pose proof (div2_mid lo hi E) as M.
    set (mid := Nat.div2 (lo + hi)) in *.
    destruct (str_ltb x (nth mid l "")) eqn:C.
    + assert (bisect_right l x <= mid)%nat.
      { destruct (Nat.lt_ge_cases mid (bisect_right l x)) as [G|]; auto.
        rewrite (bisect_right_below l x mid G) in C. discriminate. }
      apply IH; lia.
    + assert (mid < bisect_right l x)%nat.
      { destruct (Nat.lt_ge_cases mid (bisect_right l x)) as [|G]; auto.
        rewrite (bisect_right_above l x mid S) in C; [discriminate|lia]. }
      apply IH; lia.
  - apply Nat.ltb_ge in E. lia.
Qed.

Theorem bisect_right_bin_correct : forall l x, sorted l -> bisect_right_bin l x = bisect_right l x.
Proof.
  intros l x S. unfold bisect_right_bin. pose proof (bisect_right_le l x).
  apply bisect_right_loop_ok; auto; lia.
Qed.

(* add / remove / has, as the property needs them *)
Theorem add_remove_has : forall l x, sorted l ->
  sorted (sl_add l x) /\ (forall y, In y (sl_add l x) <-> y = x \/ In y l) /\
  sorted (sl_remove l x) /\ (forall y, In y (sl_remove l x) <-> In y l /\ y <> x) /\
  (sl_has l x = true <-> In x l).
Proof.
  intros l x S. rewrite sl_add_ins, sl_remove_del.
  split; [now apply ins_sorted|]. split; [intros y; apply ins_In|].
  split; [now apply del_sorted|]. split; [intros y; now apply del_In|]. now apply sl_has_In.
Qed.

(* ================= non-vacuity ================= *)
(* two lights appear; "a" moves to another group while "b" is not seen (it stays listed,
   under the group it last reported); "b" expires; "b" reappears elsewhere; a failed
   discovery; finally "a" expires. *)
Definition ex_history : list step :=
  [ Discover [("a", ("g1", "l1")); ("b", ("g1", "l1"))] 0;
    Discover [("a", ("g2", "l1"))] 100;
    Expire 150 120;
    Discover [("b", ("g2", "l2"))] 200;
    FailedDiscover;
    Expire 300 120 ].

Example ex_after_move :
  let d := run (firstn 2 ex_history) in
  get_light_names d = ["a"; "b"] /\ get_group_names d = ["g1"; "g2"] /\
  get_group_lights d "g1" = Some ["b"] /\ get_group_lights d "g2" = Some ["a"] /\
  get_location_lights d "l1" = Some ["a"; "b"].
Proof. vm_compute. repeat split. Qed.

Example ex_after_vanish :
  let d := run (firstn 3 ex_history) in
  get_light_names d = ["a"] /\ get_group_names d = ["g2"] /\ get_group_lights d "g1" = None /\
  get_location_lights d "l1" = Some ["a"] /\ get_light_count d = 1.
Proof. vm_compute. repeat split. Qed.

Example ex_after_reappear :
  let d := run (firstn 5 ex_history) in
  get_light_names d = ["a"; "b"] /\ get_group_lights d "g2" = Some ["a"; "b"] /\
  get_location_names d = ["l1"; "l2"] /\ get_light d "b" = Some (mkLight "g2" "l2" 200) /\
  get_successful_discovers d = 3 /\ get_failed_discovers d = 1.
Proof. vm_compute. repeat split. Qed.

Example ex_final :
  let d := run ex_history in
  get_light_names d = ["b"] /\ get_group_lights d "g2" = Some ["b"] /\
  get_location_names d = ["l2"] /\ dir_invb d = true.
Proof. vm_compute. repeat split. Qed.

(* a renamed light is a new light: the old name stays known until it expires *)
Example ex_rename :
  let d := run [Discover [("old", ("g", "l"))] 0; Discover [("new", ("g", "l"))] 10] in
  get_light_names d = ["new"; "old"] /\ get_group_lights d "g" = Some ["new"; "old"].
Proof. vm_compute. repeat split. Qed.

(* iteration a, b, c, d, e: while at "a", "a" and "b" are removed; while at "c", "e" is removed *)
Example ex_iteration :
  iterate 6 (fun i => match i with 1%nat => ["a"; "b"] | 2%nat => ["e"] | _ => [] end) ["a"; "b"; "c"; "d"; "e"]
  = Some ([(["a"; "b"; "c"; "d"; "e"], "a"); (["c"; "d"; "e"], "c"); (["c"; "d"], "d")], ["c"; "d"]).
Proof. vm_compute. reflexivity. Qed.

Example ex_order : str_ltb "Lamp" "lamp" = true /\ str_ltb "a" "ab" = true /\ str_ltb "table-10" "table-2" = true.
Proof. vm_compute. repeat split. Qed.
