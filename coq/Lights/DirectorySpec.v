(* C13 specification: what "the light directory stays self-consistent" means.

   1. [dir_inv]: the invariant of the property text, as a Prop over the model's
      state, and [dir_invb], the same as an executable boolean (evaluated by the
      harness on the state of the real LightSet after every step).
   2. The abstract directory: a finite map  name -> (group, location, last seen),
      with discovery = overwrite the reported names, expiry = drop the entries not
      seen for longer than the configured age; and what every getter must return
      as a function of that map alone.
   3. What stepping through a sorted list must do ([least_above], [greatest_below],
      [trace_ok]).
   Written from the property text, not from light_set.py: no index structures. *)
From Coq Require Import ZArith String List Bool Sorted.
From Bardolph Require Import Lights.SortedList Lights.Directory.
Import ListNotations.
Open Scope string_scope.
Open Scope list_scope.
Open Scope Z_scope.
Open Scope bool_scope.

(* ---------- order ---------- *)
Definition str_lt (a b : string) : Prop := str_ltb a b = true.
(* strictly increasing = sorted and duplicate-free *)
Definition sorted (l : list string) : Prop := StronglySorted str_lt l.

Fixpoint sortedb (l : list string) : bool :=
  match l with
  | [] => true
  | x :: t => match t with [] => true | y :: _ => str_ltb x y && sortedb t end
  end.

Definition memb (x : string) (l : list string) : bool := existsb (String.eqb x) l.

Fixpoint nodupb (l : list string) : bool :=
  match l with [] => true | x :: t => negb (memb x t) && nodupb t end.

(* ---------- the invariant ---------- *)
(* [listed td g n]: the group/location table td lists light n under g *)
Definition listed (td : dict (list string)) (g n : string) : Prop :=
  exists l, In (g, l) td /\ In n l.

Record members_inv (proj : light -> string) (lights : dict light) (td : dict (list string)) : Prop := {
  mi_keys : NoDup (dict_keys td);
  mi_lists : forall g l, In (g, l) td -> sorted l /\ l <> [];        (* sorted, duplicate-free, never empty *)
  mi_exact : forall g n, listed td g n <->                            (* g lists n iff n is a known light *)
                         exists v, In (n, v) lights /\ proj v = g     (* whose last report said g *)
}.

Record dir_inv (d : dir) : Prop := {
  di_names_sorted : sorted (d_names d);
  di_lights_keys : NoDup (dict_keys (d_lights d));
  di_names_exact : forall n, In n (d_names d) <-> In n (dict_keys (d_lights d));
  di_groups : members_inv l_group (d_lights d) (d_groups d);
  di_locs : members_inv l_loc (d_lights d) (d_locs d)
}.

Definition members_invb (proj : light -> string) (lights : dict light) (td : dict (list string)) : bool :=
  nodupb (dict_keys td)
  && forallb (fun e => sortedb (snd e) && negb (is_nil (snd e))
                       && forallb (fun n => match dict_get n lights with
                                            | Some v => String.eqb (proj v) (fst e)
                                            | None => false
                                            end) (snd e)) td
  && forallb (fun e => match dict_get (proj (snd e)) td with
                       | Some l => memb (fst e) l
                       | None => false
                       end) lights.

Definition dir_invb (d : dir) : bool :=
  sortedb (d_names d)
  && nodupb (dict_keys (d_lights d))
  && forallb (fun n => memb n (dict_keys (d_lights d))) (d_names d)
  && forallb (fun n => memb n (d_names d)) (dict_keys (d_lights d))
  && members_invb l_group (d_lights d) (d_groups d)
  && members_invb l_loc (d_lights d) (d_locs d).

(* ---------- the abstract directory ---------- *)
(* name -> (group, location, last seen); [light] is that triple *)
Definition amap := dict light.
Definition a_get (n : string) (m : amap) : option light := dict_get n m.

Definition a_put (n : string) (v : light) (m : amap) : amap :=
  (n, v) :: filter (fun e => negb (String.eqb (fst e) n)) m.

Definition a_discover (m : amap) (snapshot : list report) (t : Z) : amap :=
  fold_left (fun m r => a_put (r_name r) (mkLight (r_group r) (r_loc r) t) m) snapshot m.

(* not seen for longer than max_age *)
Definition a_expired (now max_age : Z) (v : light) : Prop := now - l_birth v > max_age.
Definition a_expiredb (now max_age : Z) (v : light) : bool := max_age <? now - l_birth v.

Definition a_expire (m : amap) (now max_age : Z) : amap :=
  filter (fun e => negb (a_expiredb now max_age (snd e))) m.

Definition a_step (m : amap) (s : step) : amap :=
  match s with
  | Discover snap t => a_discover m snap t
  | FailedDiscover => m
  | Expire now max_age => a_expire m now max_age
  end.

Definition a_run (h : list step) : amap := fold_left a_step h [].

(* sorted duplicate-free enumeration of a finite set of strings *)
Fixpoint set_insert (x : string) (l : list string) : list string :=
  match l with
  | [] => [x]
  | y :: t => if str_ltb x y then x :: y :: t
              else if str_ltb y x then y :: set_insert x t
              else y :: t
  end.
Definition sort_set (l : list string) : list string := fold_right set_insert [] l.

(* what the getters must return, from the abstract map alone *)
Definition spec_light_names (m : amap) : list string := sort_set (dict_keys m).
Definition spec_light_count (m : amap) : Z := Z.of_nat (length (spec_light_names m)).
Definition spec_members (proj : light -> string) (m : amap) (g : string) : option (list string) :=
  match sort_set (dict_keys (filter (fun e => String.eqb (proj (snd e)) g) m)) with
  | [] => None
  | l => Some l
  end.
Definition spec_member_names (proj : light -> string) (m : amap) : list string :=
  sort_set (map (fun e => proj (snd e)) m).
Definition spec_group_lights := spec_members l_group.
Definition spec_group_names := spec_member_names l_group.
Definition spec_location_lights := spec_members l_loc.
Definition spec_location_names := spec_member_names l_loc.
Definition spec_successes (h : list step) : Z :=
  Z.of_nat (length (filter (fun s => match s with Discover _ _ => true | _ => false end) h)).
Definition spec_failures (h : list step) : Z :=
  Z.of_nat (length (filter (fun s => match s with FailedDiscover => true | _ => false end) h)).

(* ---------- stepping through a sorted list ---------- *)
(* y is the nearest element of l above x / below x; None: there is none *)
Definition least_above (l : list string) (x : string) (r : option string) : Prop :=
  match r with
  | Some y => In y l /\ str_lt x y /\ forall z, In z l -> str_lt x z -> ~ str_lt z y
  | None => forall z, In z l -> ~ str_lt x z
  end.
Definition greatest_below (l : list string) (x : string) (r : option string) : Prop :=
  match r with
  | Some y => In y l /\ str_lt y x /\ forall z, In z l -> str_lt z x -> ~ str_lt y z
  | None => forall z, In z l -> ~ str_lt z x
  end.

(* an iteration in direction [R] (R a b: b comes after a): every step goes to the
   nearest element after the previous one in the list as it is at that moment, and
   the iteration ends only when nothing is left after the last one visited *)
Definition after (R : string -> string -> Prop) (prev : option string) (z : string) : Prop :=
  match prev with None => True | Some p => R p z end.

Fixpoint trace_ok (R : string -> string -> Prop) (prev : option string)
         (tr : list (list string * string)) (final : list string) : Prop :=
  match tr with
  | [] => forall z, In z final -> ~ after R prev z
  | (lk, v) :: r =>
      In v lk /\ after R prev v /\
      (forall z, In z lk -> after R prev z -> ~ R z v) /\
      trace_ok R (Some v) r final
  end.

Definition str_gt (a b : string) : Prop := str_lt b a.
