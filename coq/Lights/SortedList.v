(* Model of bardolph/lib/sorted_list.py: a Python list of strings kept sorted,
   with bisect-based add / remove / first / next / last / prev / has.

   Strings are Coq [string]s (bytes); the order is Python's code-point order on
   ASCII strings, i.e. lexicographic on character codes with a proper prefix
   smaller than its extensions.

   [bisect_left l x] / [bisect_right l x] are the documented results of Python's
   bisect.bisect_left / bisect.bisect (= bisect_right) on a sorted list: the number
   of leading elements < x, respectively <= x.  [bisect_left_bin] / [bisect_right_bin]
   are the binary searches CPython actually runs; Lights/DirectoryProofs.v proves
   that they return the same positions on every sorted list.  No proofs here. *)
From Coq Require Import ZArith NArith String Ascii List Bool.
Import ListNotations.
Open Scope string_scope.
Open Scope list_scope.
Open Scope Z_scope.
Open Scope bool_scope.

(* ---------- Python's  a < b  on (ASCII) strings ---------- *)
Fixpoint str_ltb (a b : string) : bool :=
  match a, b with
  | EmptyString, EmptyString => false
  | EmptyString, String _ _ => true
  | String _ _, EmptyString => false
  | String c a', String d b' =>
      if (N_of_ascii c <? N_of_ascii d)%N then true
      else if (N_of_ascii d <? N_of_ascii c)%N then false
      else str_ltb a' b'
  end.

Definition str_eqb (a b : string) : bool := String.eqb a b.

(* ---------- bisect ---------- *)
Fixpoint bisect_left (l : list string) (x : string) : nat :=
  match l with
  | [] => O
  | y :: t => if str_ltb y x then S (bisect_left t x) else O
  end.

Fixpoint bisect_right (l : list string) (x : string) : nat :=
  match l with
  | [] => O
  | y :: t => if str_ltb x y then O else S (bisect_right t x)
  end.

(* CPython's loops:
     while lo < hi: mid = (lo + hi) // 2
        bisect_left :  if a[mid] < x: lo = mid + 1 else: hi = mid
        bisect_right:  if x < a[mid]: hi = mid else: lo = mid + 1           *)
Fixpoint bisect_left_loop (fuel : nat) (l : list string) (x : string) (lo hi : nat) : nat :=
  match fuel with
  | O => lo
  | S f =>
      if Nat.ltb lo hi then
        let mid := Nat.div2 (lo + hi) in
        if str_ltb (nth mid l EmptyString) x
        then bisect_left_loop f l x (S mid) hi
        else bisect_left_loop f l x lo mid
      else lo
  end.
Definition bisect_left_bin (l : list string) (x : string) : nat :=
  bisect_left_loop (S (length l)) l x O (length l).

Fixpoint bisect_right_loop (fuel : nat) (l : list string) (x : string) (lo hi : nat) : nat :=
  match fuel with
  | O => lo
  | S f =>
      if Nat.ltb lo hi then
        let mid := Nat.div2 (lo + hi) in
        if str_ltb x (nth mid l EmptyString)
        then bisect_right_loop f l x lo mid
        else bisect_right_loop f l x (S mid) hi
      else lo
  end.
Definition bisect_right_bin (l : list string) (x : string) : nat :=
  bisect_right_loop (S (length l)) l x O (length l).

(* ---------- list surgery ---------- *)
Definition insert_at (pos : nat) (x : string) (l : list string) : list string :=
  firstn pos l ++ x :: skipn pos l.
Definition delete_at (pos : nat) (l : list string) : list string :=
  firstn pos l ++ skipn (S pos) l.

(* ---------- SortedList methods ---------- *)
(* _index_of *)
Definition sl_index_of (l : list string) (x : string) : option nat :=
  let pos := bisect_left l x in
  if negb (Nat.eqb pos (length l)) && str_eqb (nth pos l EmptyString) x
  then Some pos else None.

(* add: bisect.insort = insort_right *)
Definition sl_add (l : list string) (x : string) : list string :=
  match sl_index_of l x with
  | None => insert_at (bisect_right l x) x l
  | Some _ => l
  end.

Definition sl_remove (l : list string) (x : string) : list string :=
  match sl_index_of l x with
  | Some pos => delete_at pos l
  | None => l
  end.

Definition sl_first (l : list string) : option string :=
  match l with [] => None | y :: _ => Some y end.

Definition sl_last (l : list string) : option string :=
  match l with [] => None | _ => Some (last l EmptyString) end.

Definition sl_next (l : list string) (x : string) : option string :=
  match l with
  | [] => None
  | _ => let pos := bisect_right l x in
         if Nat.eqb pos (length l) then None else Some (nth pos l EmptyString)
  end.

Definition sl_prev (l : list string) (x : string) : option string :=
  match l with
  | [] => None
  | _ => let pos := bisect_left l x in
         if Nat.eqb pos O then None else Some (nth (pos - 1) l EmptyString)
  end.

Definition sl_has (l : list string) (x : string) : bool :=
  match sl_index_of l x with Some _ => true | None => false end.

(* SortedList(initial): a str gives the one-element list, any other iterable is
   sorted (Python's sorted keeps duplicates). *)
Definition sl_of_str (x : string) : list string := [x].

Fixpoint sorted_insert (x : string) (l : list string) : list string :=
  match l with
  | [] => [x]
  | y :: t => if str_ltb x y then x :: y :: t else y :: sorted_insert x t
  end.
Definition py_sorted (l : list string) : list string :=
  fold_right sorted_insert [] l.
Definition sl_of_list (l : list string) : list string := py_sorted l.

(* removal of several values, one call of remove() each *)
Definition sl_remove_all (l : list string) (xs : list string) : list string :=
  fold_left sl_remove xs l.

(* ---------- iteration as vm_discover.py drives it ----------
   disc: first() (or last()); dnext: next(current) (or prev(current)) on whatever
   the list is by then.  Between two steps other code may remove elements:
   [sched i] lists the values removed (one remove() call each) just before step i.
   The result records, per step, the list as it was when the step was taken and
   the element the step yielded, and the list as it was when the iteration ended.
   [None] = out of fuel. *)
Definition trace := (list (list string * string) * list string)%type.

Fixpoint iter_gen (stepf : list string -> string -> option string)
         (fuel : nat) (sched : nat -> list string) (i : nat)
         (l : list string) (cur : string) : option trace :=
  match fuel with
  | O => None
  | S f =>
      let l' := sl_remove_all l (sched i) in
      match stepf l' cur with
      | None => Some ([], l')
      | Some n =>
          match iter_gen stepf f sched (S i) l' n with
          | None => None
          | Some (r, final) => Some ((l', n) :: r, final)
          end
      end
  end.

Definition iterate_gen (startf : list string -> option string)
           (stepf : list string -> string -> option string)
           (fuel : nat) (sched : nat -> list string) (l : list string) : option trace :=
  let l0 := sl_remove_all l (sched O) in
  match startf l0 with
  | None => Some ([], l0)
  | Some c =>
      match iter_gen stepf fuel sched 1%nat l0 c with
      | None => None
      | Some (r, final) => Some ((l0, c) :: r, final)
      end
  end.

(* forwards: first() / next();  backwards: last() / prev() *)
Definition iterate := iterate_gen sl_first sl_next.
Definition iterate_back := iterate_gen sl_last sl_prev.
