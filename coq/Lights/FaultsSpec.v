(* C12 -- specification.  What the property text says about the requests that reach the
   (simulated) network, written over OBSERVATIONS only: it does not mention how the VM or
   the wrappers are built, and does not import anything generated from the code.

     "A script keeps running, and every other device receives exactly the commands it would
      have received anyway, when a named light, group or location is unknown, when a zone,
      row or column command addresses a light without that capability, or when a light does
      not answer; each unanswered request is attempted at most three times and then abandoned
      with a log entry.  Discovery never raises: a discovery that cannot complete reports
      failure and leaves the previously known lights in place."

   Observation: the sequence of requests made to the network layer.  A request is addressed
   to a device (or to the LAN as a whole: broadcasts), has a kind and arguments, and consists
   of one or more attempts, each answered (true) or not (false). *)
From Coq Require Import ZArith String List Bool Arith Lia.
Import ListNotations.
Open Scope Z_scope.

(* devices are numbered by their position in the population; the LAN itself is -1 *)
Definition dev := Z.
Definition lan : dev := -1.

Inductive rkind : Type :=
| KLanGetLights | KLanSetColorAll | KLanSetPowerAll
| KGetLabel | KGetGroup | KGetLocation | KGetFeatures | KGetProductName
| KGetColor | KSetColor | KGetPower | KSetPower
| KGetZones | KSetZones | KGetChain | KGetTile | KSetTile.

Definition rkind_code (k : rkind) : Z :=
  match k with
  | KLanGetLights => 0 | KLanSetColorAll => 1 | KLanSetPowerAll => 2
  | KGetLabel => 3 | KGetGroup => 4 | KGetLocation => 5 | KGetFeatures => 6 | KGetProductName => 7
  | KGetColor => 8 | KSetColor => 9 | KGetPower => 10 | KSetPower => 11
  | KGetZones => 12 | KSetZones => 13 | KGetChain => 14 | KGetTile => 15 | KSetTile => 16
  end.
Definition rkind_eqb (a b : rkind) : bool := rkind_code a =? rkind_code b.

Record request : Type := mkreq {
  r_dev : dev;
  r_kind : rkind;
  r_payload : list Z;         (* the arguments, flattened *)
  r_outcomes : list bool      (* one entry per attempt, in order *)
}.
Definition trace := list request.

(* ---------- "attempted at most three times and then abandoned" ---------- *)

Definition retry_bound : nat := 3.

Definition attempts (r : request) : nat := length (r_outcomes r).
Definition attempts_bounded (t : trace) : Prop := Forall (fun r => (attempts r <= retry_bound)%nat) t.
Definition attempts_bounded_b (t : trace) : bool := forallb (fun r => Nat.leb (attempts r) retry_bound) t.

(* a request is abandoned when none of its attempts was answered *)
Definition abandoned (r : request) : bool := forallb negb (r_outcomes r).
(* nothing is sent again once an attempt has been answered *)
Fixpoint stops_at_answer (o : list bool) : bool :=
  match o with
  | [] => true
  | true :: r => match r with [] => true | _ => false end
  | false :: r => stops_at_answer r
  end.
Definition well_retried (t : trace) : Prop := Forall (fun r => stops_at_answer (r_outcomes r) = true) t.
Definition well_retried_b (t : trace) : bool := forallb (fun r => stops_at_answer (r_outcomes r)) t.

(* ---------- "every other device receives exactly the commands it would have received anyway" ---------- *)

(* what a device receives: kind and arguments of every attempt addressed to it that got
   through (an unanswered attempt did not reach it, or was not acted upon) *)
Definition received_of (r : request) : list (rkind * list Z) :=
  map (fun _ => (r_kind r, r_payload r)) (filter (fun b : bool => b) (r_outcomes r)).
Definition received (d : dev) (t : trace) : list (rkind * list Z) :=
  flat_map (fun r => if r_dev r =? d then received_of r else []) t.

(* `faulty` is the observation under the fault plan, `free` the observation of the same
   script with every request answered (and, for the second reading, with the commands
   aimed at unknown or wrong-type targets deleted). *)
Definition undisturbed (healthy : dev -> Prop) (faulty free : trace) : Prop :=
  forall d, healthy d -> received d faulty = received d free.

Definition pair_eqb (a b : rkind * list Z) : bool :=
  rkind_eqb (fst a) (fst b) && (if list_eq_dec Z.eq_dec (snd a) (snd b) then true else false).
Fixpoint list_eqb {A} (f : A -> A -> bool) (a b : list A) : bool :=
  match a, b with
  | [], [] => true
  | x :: a', y :: b' => f x y && list_eqb f a' b'
  | _, _ => false
  end.
Definition undisturbed_b (healthy : list dev) (faulty free : trace) : list dev :=
  filter (fun d => negb (list_eqb pair_eqb (received d faulty) (received d free))) healthy.

(* ---------- "a script keeps running" ---------- *)

(* observation of a run: did the machine execute the script to its end? *)
Inductive run_end : Type := Finished | Aborted.

(* ---------- discovery ---------- *)

(* observation of one LightSet.discover call *)
Inductive discover_end : Type := Reported (success : bool) | Raised.
Definition discover_never_raises (e : discover_end) : Prop := exists b, e = Reported b.

(* the directory as a client sees it: names in order, and what each name resolves to
   (network device and capability); [before]/[after] are two such views *)
Definition dir_view := list (string * (dev * Z)).
Definition failed_discover_keeps (e : discover_end) (before after : dir_view) : Prop :=
  e = Reported false -> after = before.

(* ---------- the whole verdict on one observed run, as evaluated by the harness ---------- *)

Record verdict : Type := mkverdict {
  v_finished : bool;          (* the script kept running to its end *)
  v_bounded : bool;           (* no request attempted more than three times *)
  v_retried : bool;           (* nothing re-sent after an answer *)
  v_disturbed : list dev      (* healthy devices that received something else *)
}.
Definition judge (healthy : list dev) (e : run_end) (faulty free : trace) : verdict :=
  mkverdict (match e with Finished => true | Aborted => false end)
            (attempts_bounded_b faulty) (well_retried_b faulty)
            (undisturbed_b healthy faulty free).
Definition verdict_ok (v : verdict) : bool :=
  v_finished v && v_bounded v && v_retried v && match v_disturbed v with [] => true | _ => false end.
