(* Model of bardolph/controller/light_set.py (class LightSet) as far as the light
   directory goes: discover, _update_memberships, _remove_memberships,
   _garbage_collect and the getters.

   Python dicts are association lists in insertion order with Python's update
   rules (assignment to an existing key keeps its position, a new key goes to the
   end, del removes the entry).  A Light object is its (group, location, birth);
   its name is the key under which discover() stores it (discover uses
   light.get_name() for both).  Times are integers (the harness patches time.time
   to integral values; DESIGN section 8: ints below 2^53 are exact as floats).
   No proofs here. *)
From Coq Require Import ZArith String List Bool.
From Bardolph Require Import Lights.SortedList.
Import ListNotations.
Open Scope string_scope.
Open Scope list_scope.
Open Scope Z_scope.
Open Scope bool_scope.

(* ---------- Python dict with string keys ---------- *)
Section Dict.
  Context {V : Type}.
  Definition dict := list (string * V).

  Fixpoint dict_get (k : string) (d : dict) : option V :=
    match d with
    | [] => None
    | (k', v) :: r => if String.eqb k k' then Some v else dict_get k r
    end.

  Definition dict_has (k : string) (d : dict) : bool :=
    match dict_get k d with Some _ => true | None => false end.

  (* d[k] = v *)
  Fixpoint dict_set (k : string) (v : V) (d : dict) : dict :=
    match d with
    | [] => [(k, v)]
    | (k', v') :: r => if String.eqb k k' then (k', v) :: r else (k', v') :: dict_set k v r
    end.

  (* del d[k] (callers only delete present keys) *)
  Fixpoint dict_del (k : string) (d : dict) : dict :=
    match d with
    | [] => []
    | (k', v') :: r => if String.eqb k k' then r else (k', v') :: dict_del k r
    end.

  Definition dict_keys (d : dict) : list string := map fst d.
End Dict.
Arguments dict : clear implicits.

(* ---------- the directory ---------- *)
Record light := mkLight { l_group : string; l_loc : string; l_birth : Z }.

Record dir := mkDir {
  d_lights : dict light;                (* _lights *)
  d_names : list string;                (* _light_names : SortedList *)
  d_groups : dict (list string);        (* _groups : name -> SortedList *)
  d_locs : dict (list string);          (* _locations *)
  d_ok : Z;                             (* _num_successful_discovers *)
  d_fail : Z                            (* _num_failed_discovers *)
}.

Definition empty_dir : dir := mkDir [] [] [] [] 0 0.

Definition is_nil {A} (l : list A) : bool := match l with [] => true | _ => false end.

(* _remove_memberships(light, target_dict): remove the name from every list, then
   delete every entry whose list has become (or is) empty. *)
Definition remove_memberships (name : string) (td : dict (list string)) : dict (list string) :=
  filter (fun e => negb (is_nil (snd e)))
         (map (fun e => (fst e, sl_remove (snd e) name)) td).

(* _update_memberships(light, name, target_dict) *)
Definition update_memberships (name gname : string) (td : dict (list string)) : dict (list string) :=
  let td' := remove_memberships name td in
  match dict_get gname td' with
  | None => dict_set gname (sl_of_str name) td'
  | Some l => dict_set gname (sl_add l name) td'
  end.

(* what LightApi.get_lights() reports for one light: name, group, location *)
Definition report := (string * (string * string))%type.
Definition r_name (r : report) : string := fst r.
Definition r_group (r : report) : string := fst (snd r).
Definition r_loc (r : report) : string := snd (snd r).

(* body of the for loop in discover(); the Light objects were created at time t *)
Definition discover_one (t : Z) (d : dir) (r : report) : dir :=
  mkDir (dict_set (r_name r) (mkLight (r_group r) (r_loc r) t) (d_lights d))
        (sl_add (d_names d) (r_name r))
        (update_memberships (r_name r) (r_group r) (d_groups d))
        (update_memberships (r_name r) (r_loc r) (d_locs d))
        (d_ok d) (d_fail d).

Definition discover (d : dir) (snapshot : list report) (t : Z) : dir :=
  let d' := fold_left (discover_one t) snapshot d in
  mkDir (d_lights d') (d_names d') (d_groups d') (d_locs d') (d_ok d + 1) (d_fail d).

(* get_lights() raised LightException before yielding a light *)
Definition failed_discover (d : dir) : dir :=
  mkDir (d_lights d) (d_names d) (d_groups d) (d_locs d) (d_ok d) (d_fail d + 1).

(* get_age() > max_age at time [now] *)
Definition too_old (now max_age : Z) (v : light) : bool := (now - l_birth v) >? max_age.

(* _garbage_collect() at time [now], max_age = int(settings light_gc_time) *)
Definition expire (d : dir) (now max_age : Z) : dir :=
  let targets := dict_keys (filter (fun e => too_old now max_age (snd e)) (d_lights d)) in
  mkDir (fold_left (fun ls n => dict_del n ls) targets (d_lights d))
        (fold_left sl_remove targets (d_names d))
        (fold_left (fun td n => remove_memberships n td) targets (d_groups d))
        (fold_left (fun td n => remove_memberships n td) targets (d_locs d))
        (d_ok d) (d_fail d).

Inductive step :=
| Discover (snapshot : list report) (t : Z)
| FailedDiscover
| Expire (now max_age : Z).

Definition do_step (d : dir) (s : step) : dir :=
  match s with
  | Discover snap t => discover d snap t
  | FailedDiscover => failed_discover d
  | Expire now m => expire d now m
  end.

Definition run (h : list step) : dir := fold_left do_step h empty_dir.

(* ---------- getters ---------- *)
Definition get_lights (d : dir) : list (string * light) := d_lights d.     (* list(self._lights.values()) *)
Definition get_light_count (d : dir) : Z := Z.of_nat (length (d_lights d)).
Definition get_light_names (d : dir) : list string := d_names d.
Definition get_light (d : dir) (n : string) : option light := dict_get n (d_lights d).
Definition get_group_names (d : dir) : list string := sl_of_list (dict_keys (d_groups d)).
Definition get_group_lights (d : dir) (g : string) : option (list string) := dict_get g (d_groups d).
Definition get_location_names (d : dir) : list string := sl_of_list (dict_keys (d_locs d)).
Definition get_location_lights (d : dir) (g : string) : option (list string) := dict_get g (d_locs d).
Definition get_successful_discovers (d : dir) : Z := d_ok d.
Definition get_failed_discovers (d : dir) : Z := d_fail d.

(* ---------- vm/vm_discover.py: how the VM iterates over the directory ----------
   Register.operand selects lights / groups / locations; disc_forward the direction;
   the result register receives a name or Operand.NULL.  `x or Operand.NULL` turns
   None into NULL (on the pinned tree also the empty string, `x or Operand.NULL`: D63).  dnextm calls .next/.prev on whatever
   get_group_lights / get_location_lights returns, which is None once the group
   or location has disappeared: AttributeError ([DFault]). *)
Inductive operand := OLight | OGroup | OLocation.
Inductive dresult := DName (s : string) | DNull | DFault.

Definition or_null (o : option string) : dresult :=
  match o with
  | Some s => DName s      (* the empty string is a name like any other (D63): only None is NULL *)
  | None => DNull
  end.

Definition names_by_oper (d : dir) (op : operand) : list string :=
  match op with
  | OLight => get_light_names d
  | OGroup => get_group_names d
  | OLocation => get_location_names d
  end.

Definition set_by_oper (d : dir) (op : operand) (name : string) : option (list string) :=
  match op with
  | OGroup => get_group_lights d name
  | OLocation => get_location_lights d name
  | OLight => None
  end.

Definition ends (fwd : bool) (l : list string) : option string :=
  if fwd then sl_first l else sl_last l.
Definition steps (fwd : bool) (l : list string) (cur : string) : option string :=
  if fwd then sl_next l cur else sl_prev l cur.

Definition vm_disc (d : dir) (op : operand) (fwd : bool) : dresult :=
  match ends fwd (names_by_oper d op) with
  | Some s => DName s            (* name_list[index], no `or` *)
  | None => DNull
  end.

Definition vm_discm (d : dir) (op : operand) (name : string) (fwd : bool) : dresult :=
  match set_by_oper d op name with
  | Some l => or_null (ends fwd l)
  | None => DNull
  end.

Definition vm_dnext (d : dir) (op : operand) (fwd : bool) (cur : string) : dresult :=
  or_null (steps fwd (names_by_oper d op) cur).

(* [gone]: what a step yields once the group / location is no longer listed.  The
   pinned tree faults; the repaired dnextm (`if name_list is None: result = NULL`)
   ends the iteration.  The correspondence runs establish which one the tree is. *)
Definition vm_dnextm_gen (gone : dresult) (d : dir) (op : operand) (name : string) (fwd : bool) (cur : string) : dresult :=
  match set_by_oper d op name with
  | Some l => or_null (steps fwd l cur)
  | None => gone
  end.
Definition vm_dnextm := vm_dnextm_gen DFault.
Definition vm_dnextm_fixed := vm_dnextm_gen DNull.
