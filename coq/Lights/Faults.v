(* C12 -- model of the VM's device commands and of discovery over a simulated network with
   per-request outcomes.  Hand-written from
     bardolph/vm/machine.py       _color_* / _power_* / _get_color / _matrix handlers, Machine.run's
                                  blanket `except Exception` (= Abort),
     bardolph/controller/lifx_lan_light.py  Light / MultizoneLight / MatrixLight wrappers,
     bardolph/controller/lifx_lan_api.py    get_lights, _build_light, set_*_all_lights,
     bardolph/controller/light_set.py       discover, set_*_all_lights,
   and tied to them by Gen/FaultsGen.v (facts read from the source + text comparison) and by
   the correspondence runs of harness/props/c12.py.  No proofs here.

   Level: COMMAND SEQUENCES.  A command is what one device instruction of the VM does with
   the values it finds in the registers; how a program produces the sequence is the business
   of the VM model (Lang/Machine.v).  All numbers are raw units (the VM converts before it
   calls the wrappers; the wrappers clamp). *)
From Coq Require Import ZArith String List Bool Arith.
From Bardolph Require Import Gen.FaultsGen Lights.Retry.
From Bardolph Require Export Lights.FaultsSpec.
Open Scope string_scope.
Open Scope list_scope.
Import ListNotations.
Open Scope Z_scope.
Open Scope bool_scope.

(* ---------- the shapes the source can have ---------- *)

Record shapes : Type := mkshapes {
  sh_max_tries : nat;              (* lifx_lan_light._MAX_TRIES *)
  sh_wrapped : rkind -> bool;      (* does the wrapper method making this request carry @tries? *)
  sh_get_fail_ok : bool;           (* get_color's fail value is [-1]*4 (unpackable) *)
  sh_matrix_checked : bool;        (* Machine._color_matrix_light tests isinstance(light, MatrixLight) *)
  sh_mz_guarded : bool;            (* MultizoneLight.__init__ survives get_zone_colors() = None *)
  sh_size_guarded : bool           (* Machine._matrix / _color_matrix_light skip a matrix light of unknown size *)
}.

Definition wrapped_now (k : rkind) : bool :=
  match k with
  | KGetColor => wrapped_get_color | KSetColor => wrapped_set_color
  | KGetPower => wrapped_get_power | KSetPower => wrapped_set_power
  | KGetZones => wrapped_get_zone_colors | KSetZones => wrapped_set_zone_colors
  | KGetChain => wrapped_get_size | KSetTile => wrapped_set_matrix | KGetTile => wrapped_get_matrix
  | KLanSetColorAll => wrapped_set_color_all | KLanSetPowerAll => wrapped_set_power_all   (* LifxLanApi *)
  | _ => false      (* LifxLAN.get_lights and the identity getters used by the constructors are never retried *)
  end.

(* what the source says now *)
Definition current : shapes :=
  mkshapes MAX_TRIES wrapped_now get_color_fail_minus_ones
           shape_matrix_light_checked shape_mz_init_guarded shape_matrix_size_guarded.

(* the repaired shape and the pinned one, as constants (for the necessity theorems) *)
Definition wrapped_all (k : rkind) : bool :=
  match k with
  | KGetColor | KSetColor | KGetPower | KSetPower | KGetZones | KSetZones | KGetChain | KSetTile | KGetTile => true
  | KLanSetColorAll | KLanSetPowerAll => true
  | _ => false
  end.
(* the pinned tree: only the methods of the light wrappers are retried *)
Definition wrapped_devices (k : rkind) : bool :=
  match k with
  | KGetColor | KSetColor | KGetPower | KSetPower | KGetZones | KSetZones | KGetChain | KSetTile | KGetTile => true
  | _ => false
  end.
Definition repaired : shapes := mkshapes 3 wrapped_all true true true true.
Definition pinned : shapes := mkshapes 3 wrapped_devices true false false false.

(* ---------- population, directory ---------- *)

(* a wrapper object as built by LifxLanApi._build_light *)
Inductive wkind : Type :=
| WPlain
| WMultizone (num_zones : Z)
| WMatrix (size : option (Z * Z)).   (* None: _get_size gave up, height and width stay None *)

Record wlight : Type := mkw {
  w_dev : dev; w_name : string; w_group : string; w_loc : string; w_kind : wkind }.

(* LightSet: name -> wrapper, in SortedList (code point) order of the names; groups and
   locations are the lights carrying that group / location (C13 shows the stored
   dictionaries are exactly that). *)
Definition directory := list wlight.

Definition find_light (dir : directory) (n : string) : option wlight :=
  find (fun w => String.eqb (w_name w) n) dir.
Definition members (f : wlight -> string) (dir : directory) (n : string) : option (list wlight) :=
  match filter (fun w => String.eqb (f w) n) dir with
  | [] => None
  | l => Some l
  end.

Fixpoint dir_insert (w : wlight) (dir : directory) : directory :=
  match dir with
  | [] => [w]
  | x :: r =>
      if String.eqb (w_name x) (w_name w) then w :: r
      else if String.ltb (w_name w) (w_name x) then w :: x :: r
      else x :: dir_insert w r
  end.

(* ---------- fault plans and the state threaded through a run ---------- *)

(* plan d k = outcomes of the successive attempts of kind k at device d (beyond the end: answered) *)
Definition plan := dev -> rkind -> stream.
Definition no_faults : plan := fun _ _ => [].

Definition plan_set (p : plan) (d : dev) (k : rkind) (s : stream) : plan :=
  fun d' k' => if (d' =? d) && rkind_eqb k' k then s else p d' k'.

Fixpoint plan_of_list (l : list (dev * rkind * stream)) : plan :=
  match l with
  | [] => no_faults
  | (d, k, s) :: r => plan_set (plan_of_list r) d k s
  end.

Record state : Type := mkst {
  s_plan : plan;
  s_regs : list Z;              (* colour registers: 4 raw values *)
  s_colors : dev -> list Z;     (* what each light would answer to get_color *)
  s_tainted : list dev;         (* devices at which a request has been abandoned / lost *)
  s_dirty : bool                (* a `get` has read a tainted device or was itself abandoned *)
}.

Definition with_plan (st : state) (p : plan) : state :=
  mkst p (s_regs st) (s_colors st) (s_tainted st) (s_dirty st).
Definition with_regs (st : state) (r : list Z) : state :=
  mkst (s_plan st) r (s_colors st) (s_tainted st) (s_dirty st).
Definition with_colors (st : state) (c : dev -> list Z) : state :=
  mkst (s_plan st) (s_regs st) c (s_tainted st) (s_dirty st).
Definition taint (st : state) (d : dev) : state :=
  mkst (s_plan st) (s_regs st) (s_colors st) (d :: s_tainted st) (s_dirty st).
Definition soil (st : state) : state :=
  mkst (s_plan st) (s_regs st) (s_colors st) (s_tainted st) true.

(* an abandoned broadcast leaves every light in doubt *)
Definition tainted (st : state) (d : dev) : bool :=
  existsb (Z.eqb d) (s_tainted st) || existsb (Z.eqb lan) (s_tainted st).

Definition init_state (p : plan) (regs : list Z) (colors : dev -> list Z) : state :=
  mkst p regs colors [] false.

(* effect of a delivered request on what the lights will answer later *)
Definition deliver (st : state) (d : dev) (k : rkind) (pl : list Z) : state :=
  match k with
  | KSetColor => with_colors st (fun d' => if d' =? d then firstn 4 pl else s_colors st d')
  | KLanSetColorAll => with_colors st (fun _ => firstn 4 pl)
  | _ => st
  end.

(* ---------- one request ---------- *)

Inductive sent : Type :=
| SAnswered     (* delivered (possibly after retries) *)
| SAbandoned    (* the retries are exhausted: logged, fail value returned *)
| SRaised.      (* not retried: WorkflowException propagates to the caller *)

Section Model.
Variable sh : shapes.

Definition send (st : state) (d : dev) (k : rkind) (pl : list Z) : state * sent * request :=
  let s := s_plan st d k in
  if sh_wrapped sh k then
    let '(r, _, rest) := tries (sh_max_tries sh) tt tt s in
    let st' := with_plan st (plan_set (s_plan st) d k rest) in
    let rq := mkreq d k pl (tries_outcomes (sh_max_tries sh) s) in
    if gave_up r then (taint st' d, SAbandoned, rq) else (deliver st' d k pl, SAnswered, rq)
  else
    let st' := with_plan st (plan_set (s_plan st) d k (after s)) in
    if next_ok s then (deliver st' d k pl, SAnswered, mkreq d k pl [true])
    else (taint st' d, SRaised, mkreq d k pl [false]).

(* ---------- commands ---------- *)

Inductive target : Type := TAll | TLight (n : string) | TGroup (n : string) | TLocation (n : string).

Inductive cmd : Type :=
| CRegs (c : list Z)                                   (* hue/saturation/brightness/kelvin := c *)
| CColor (t : target) (dur : Z)                        (* set <t> *)
| CPower (t : target) (on : bool) (dur : Z)            (* on/off <t> *)
| CZone (n : string) (first : Z) (last : option Z) (dur : Z)          (* set "n" zone a [b] *)
| CMatrix (n : string) (rows cols : option (Z * option Z)) (dur : Z)  (* set "n" [row a [b]] [column c [d]] *)
| CGet (n : string).                                   (* get "n" *)

Inductive abort_reason : Type :=
| AbWorkflow    (* WorkflowException out of a request that nothing retries or catches *)
| AbAttribute   (* a light without the capability was sent the command: AttributeError *)
| AbType        (* a fail value that the VM cannot use: TypeError *)
| AbSize        (* matrix command on a matrix light whose size is unknown: TypeError in ColorMatrix(None, None) *)
| AbIndex.      (* the script's row/column numbers lie outside the matrix: IndexError *)
Inductive result : Type := Continue | Abort (r : abort_reason).

(* param_16 / param_32 on integers *)
Definition clamp16 (x : Z) : Z := Z.max 0 (Z.min x 65535).
Definition clamp32 (x : Z) : Z := Z.max 0 (Z.min x 4294967295).
Definition raw_color (regs : list Z) : list Z := map clamp16 regs.

Definition outcome3 := (state * result * trace)%type.

(* a request whose failure is survivable exactly when something retries it *)
Definition request_then (st : state) (d : dev) (k : rkind) (pl : list Z) : outcome3 :=
  let '(st', s, rq) := send st d k pl in
  (st', match s with SRaised => Abort AbWorkflow | _ => Continue end, [rq]).

Fixpoint each (f : state -> wlight -> outcome3) (st : state) (ws : list wlight) : outcome3 :=
  match ws with
  | [] => (st, Continue, [])
  | w :: r =>
      let '(st1, res, t1) := f st w in
      match res with
      | Continue => let '(st2, res2, t2) := each f st1 r in (st2, res2, t1 ++ t2)
      | Abort _ => (st1, res, t1)
      end
  end.

Definition color_one (dur : Z) (st : state) (w : wlight) : outcome3 :=
  request_then st (w_dev w) KSetColor (raw_color (s_regs st) ++ [clamp32 dur]).
Definition power_one (on : bool) (dur : Z) (st : state) (w : wlight) : outcome3 :=
  request_then st (w_dev w) KSetPower [if on then 65535 else 0; clamp32 dur].

Definition resolve (dir : directory) (t : target) : option (list wlight) :=
  match t with
  | TAll => None
  | TLight n => match find_light dir n with Some w => Some [w] | None => None end
  | TGroup n => members w_group dir n
  | TLocation n => members w_loc dir n
  end.

(* rectangle of a matrix command after ColorMatrix._normalize_rect; None = whole axis *)
Definition span (o : option (Z * option Z)) (size : Z) : Z * Z :=
  match o with
  | None => (0, size - 1)
  | Some (a, None) => (a, a)
  | Some (a, Some b) => (a, b)
  end.
(* overlay_color indexes _mat[row][column] for every cell of the rectangle *)
Definition in_range (lo hi size : Z) : bool := (hi <? lo) || ((0 <=? lo) && (hi <? size)).
Definition rect_ok (r c : Z * Z) (h w : Z) : bool :=
  (snd r <? fst r) || (snd c <? fst c) || (in_range (fst r) (snd r) h && in_range (fst c) (snd c) w).

Fixpoint zseq (n : nat) (a : Z) : list Z := match n with O => [] | S k => a :: zseq k (a + 1) end.
Definition cells (h w : Z) (r c : Z * Z) (color : list Z) : list Z :=
  flat_map (fun row => flat_map (fun col =>
      if (fst r <=? row) && (row <=? snd r) && (fst c <=? col) && (col <=? snd c) then color else [0; 0; 0; 0])
    (zseq (Z.to_nat w) 0)) (zseq (Z.to_nat h) 0).

Definition step (dir : directory) (st : state) (c : cmd) : outcome3 :=
  match c with
  | CRegs v => (with_regs st v, Continue, [])
  | CColor TAll dur =>
      request_then st lan KLanSetColorAll (raw_color (s_regs st) ++ [clamp32 dur])
  | CColor t dur =>
      match resolve dir t with
      | None => (st, Continue, [])                      (* unknown name: logged *)
      | Some ws => each (color_one dur) st ws
      end
  | CPower TAll on dur =>
      request_then st lan KLanSetPowerAll [if on then 1 else 0; clamp32 dur]
  | CPower t on dur =>
      match resolve dir t with
      | None => (st, Continue, [])
      | Some ws => each (power_one on dur) st ws
      end
  | CZone n first last dur =>
      match find_light dir n with
      | None => (st, Continue, [])
      | Some w =>
          match w_kind w with
          | WMultizone _ =>
              let last' := match last with Some b => b | None => first end in
              request_then st (w_dev w) KSetZones
                ([clamp16 first; clamp16 (last' + 1)] ++ raw_color (s_regs st) ++ [clamp32 dur])
          | _ => (st, Continue, [])                     (* _zone_check: logged *)
          end
      end
  | CMatrix n rows cols dur =>
      (* MATRIX: size of the matrix that is staged *)
      let found := find_light dir n in
      let size := match found with
                  | Some w => match w_kind w with WMatrix sz => sz | _ => Some (255, 255) end
                  | None => Some (255, 255)
                  end in
      match size with
      | None =>
          (* a matrix light whose size was never learned (D48): with the guard it is staged on
             the 255 x 255 scratch matrix and nothing is transmitted *)
          if sh_size_guarded sh then
            if negb (rect_ok (span rows 255) (span cols 255) 255 255) then (st, Abort AbIndex, [])
            else (st, Continue, [])
          else (st, Abort AbSize, [])
      | Some (h, wd) =>
          let r := span rows h in
          let cl := span cols wd in
          if negb (rect_ok r cl h wd) then (st, Abort AbIndex, [])
          else
            (* COLOR with operand MATRIX_LIGHT *)
            match found with
            | None => (st, Continue, [])
            | Some w =>
                match w_kind w with
                | WMatrix _ =>
                    request_then st (w_dev w) KSetTile
                      (cells h wd r cl (raw_color (s_regs st)) ++ [clamp32 dur; wd; h])
                | _ => if sh_matrix_checked sh then (st, Continue, []) else (st, Abort AbAttribute, [])
                end
            end
      end
  | CGet n =>
      match find_light dir n with
      | None => (st, Continue, [])
      | Some w =>
          match w_kind w with
          | WPlain =>
              let was_tainted := tainted st (w_dev w) in
              let '(st', s, rq) := send st (w_dev w) KGetColor [] in
              match s with
              | SAnswered =>
                  let st'' := with_regs st' (s_colors st' (w_dev w)) in
                  (if was_tainted then soil st'' else st'', Continue, [rq])
              | SAbandoned =>
                  if sh_get_fail_ok sh then (soil (with_regs st' [-1; -1; -1; -1]), Continue, [rq])
                  else (soil st', Abort AbType, [rq])
              | SRaised => (soil st', Abort AbWorkflow, [rq])
              end
          | _ => (st, Continue, [])                     (* multi-colour light: logged *)
          end
      end
  end.

Fixpoint run (dir : directory) (st : state) (cs : list cmd) : outcome3 :=
  match cs with
  | [] => (st, Continue, [])
  | c :: r =>
      let '(st1, res, t1) := step dir st c in
      match res with
      | Continue => let '(st2, res2, t2) := run dir st1 r in (st2, res2, t1 ++ t2)
      | Abort _ => (st1, res, t1)
      end
  end.

(* commands that name something the directory does not have, or a light without the
   capability the command needs: the property says they change nothing *)
Definition idle (dir : directory) (c : cmd) : bool :=
  match c with
  | CRegs _ => false
  | CColor TAll _ | CPower TAll _ _ => false
  | CColor t _ | CPower t _ _ => match resolve dir t with None => true | Some _ => false end
  | CZone n _ _ _ =>
      match find_light dir n with
      | None => true
      | Some w => match w_kind w with WMultizone _ => false | _ => true end
      end
  | CMatrix n _ _ _ =>
      match find_light dir n with
      | None => true
      | Some w => match w_kind w with WMatrix (Some _) => false | _ => true end   (* size unknown: skipped *)
      end
  | CGet n =>
      match find_light dir n with
      | None => true
      | Some w => match w_kind w with WPlain => false | _ => true end
      end
  end.

(* the script's own row/column numbers fit the 255 x 255 scratch matrix the VM stages for
   a target that is not a matrix light *)
Definition addressable (c : cmd) : bool :=
  match c with
  | CMatrix _ rows cols _ => rect_ok (span rows 255) (span cols 255) 255 255
  | _ => true
  end.

(* ---------- discovery ---------- *)

Inductive nkind : Type := NPlain | NMultizone (zones : Z) | NMatrix (h w : Z).
Record ndev : Type := mkn {
  n_dev : dev; n_label : string; n_group : string; n_loc : string; n_kind : nkind }.
Definition network := list ndev.

Inductive built : Type :=
| BLight (w : wlight)
| BFail        (* WorkflowException: caught by get_lights, becomes LightException *)
| BRaise.      (* any other exception: nothing catches it *)

(* unretried requests one after the other; false as soon as one raises *)
Fixpoint ask_all (st : state) (d : dev) (ks : list rkind) : state * bool * trace :=
  match ks with
  | [] => (st, true, [])
  | k :: r =>
      let '(st1, s, rq) := send st d k [] in
      match s with
      | SAnswered => let '(st2, ok, t) := ask_all st1 d r in (st2, ok, rq :: t)
      | _ => (st1, false, [rq])
      end
  end.

(* Light.__init__: label, group, location, product features *)
Definition init_requests : list rkind := [KGetLabel; KGetGroup; KGetLocation; KGetFeatures].

Definition build_light (st : state) (nd : ndev) : state * built * trace :=
  let d := n_dev nd in
  let mk := mkw d (n_label nd) (n_group nd) (n_loc nd) in
  match n_kind nd with
  | NMultizone z =>
      let '(st1, ok, t1) := ask_all st d ([KGetFeatures; KGetProductName] ++ init_requests) in
      if negb ok then (st1, BFail, t1)
      else
        (* num_zones or len(self.get_zone_colors()) *)
        let '(st2, s, rq) := send st1 d KGetZones [] in
        match s with
        | SAnswered => (st2, BLight (mk (WMultizone z)), t1 ++ [rq])
        | SAbandoned => (st2, if sh_mz_guarded sh then BLight (mk (WMultizone 0)) else BRaise, t1 ++ [rq])
        | SRaised => (st2, BFail, t1 ++ [rq])
        end
  | NMatrix h w =>
      let '(st1, ok, t1) := ask_all st d ([KGetFeatures; KGetProductName; KGetFeatures] ++ init_requests) in
      if negb ok then (st1, BFail, t1)
      else
        let '(st2, s, rq) := send st1 d KGetChain [] in
        match s with
        | SAnswered => (st2, BLight (mk (WMatrix (Some (h, w)))), t1 ++ [rq])
        | SAbandoned => (st2, BLight (mk (WMatrix None)), t1 ++ [rq])
        | SRaised => (st2, BFail, t1 ++ [rq])
        end
  | NPlain =>
      let '(st1, ok, t1) := ask_all st d ([KGetFeatures; KGetProductName; KGetFeatures] ++ init_requests) in
      if negb ok then (st1, BFail, t1) else (st1, BLight (mk WPlain), t1)
  end.

Inductive got_lights : Type := GLOk (ws : list wlight) | GLFail | GLRaise.

Fixpoint build_all (st : state) (net : network) : state * got_lights * trace :=
  match net with
  | [] => (st, GLOk [], [])
  | nd :: r =>
      let '(st1, b, t1) := build_light st nd in
      match b with
      | BLight w =>
          let '(st2, g, t2) := build_all st1 r in
          (st2, match g with GLOk ws => GLOk (w :: ws) | other => other end, t1 ++ t2)
      | BFail => (st1, GLFail, t1)
      | BRaise => (st1, GLRaise, t1)
      end
  end.

(* LifxLanApi.get_lights *)
Definition get_lights (st : state) (net : network) : state * got_lights * trace :=
  let '(st1, s, rq) := send st lan KLanGetLights [] in
  match s with
  | SAnswered => let '(st2, g, t) := build_all st1 net in (st2, g, rq :: t)
  | _ => (st1, GLFail, [rq])
  end.

(* LightSet.discover: the result and the directory afterwards *)
Definition discover (dir : directory) (st : state) (net : network)
  : state * discover_end * directory * trace :=
  let '(st1, g, t) := get_lights st net in
  match g with
  | GLOk ws => (st1, Reported true, fold_left (fun d w => dir_insert w d) ws dir, t)
  | GLFail => (st1, Reported false, dir, t)
  | GLRaise => (st1, Raised, dir, t)
  end.

End Model.

(* what a client can see of a directory (FaultsSpec.dir_view) *)
Definition kind_code (k : wkind) : Z :=
  match k with
  | WPlain => 0
  | WMultizone z => 1000 + z
  | WMatrix None => -1
  | WMatrix (Some (h, w)) => 1000000 + h * 1000 + w
  end.
Definition view (dir : directory) : dir_view := map (fun w => (w_name w, (w_dev w, kind_code (w_kind w)))) dir.

(* plans *)
Definition healthy (p : plan) (d : dev) : Prop := forall k, Forall (fun b => b = true) (p d k).
Definition sizes_known (dir : directory) : Prop :=
  forall w, In w dir -> w_kind w <> WMatrix None.
