(* Second group of inductive invariants (histories vs. configurations) of the
   access programs of Jobs/JobControl.v, for every list of clients and every schedule. *)
From Coq Require Import ZArith List Bool Lia Arith.
From Bardolph Require Import Jobs.Threads Jobs.ThreadsFacts Jobs.JobVocab Jobs.JobControl Jobs.JobControlSpec Jobs.JobControlInv.
Import ListNotations.
Open Scope list_scope.
Open Scope nat_scope.

(* ---------- facts about the specification's functions ---------- *)
Definition is_begin (e : sev) (j : Z) : nat :=
  match e with SBegin i _ => if Z.eq_dec i j then 1 else 0 | _ => 0 end.

Lemma exec_count_cons : forall e es j, exec_count (e :: es) j = is_begin e j + exec_count es j.
Proof.
  intros. unfold exec_count. simpl.
  destruct (sev_eq_dec e (SBegin j true)) as [E1|N1]; destruct (sev_eq_dec e (SBegin j false)) as [E2|N2];
    try congruence; subst; simpl.
  - destruct (Z.eq_dec j j); try congruence. lia.
  - destruct (Z.eq_dec j j); try congruence. lia.
  - destruct e; simpl; auto. destruct (Z.eq_dec j0 j); auto. subst. destruct q; congruence.
Qed.

Definition deq_of (e : sev) : list Z := match e with SDeq j => [j] | _ => [] end.
Definition beg_of (e : sev) : list Z := match e with SBegin j true => [j] | _ => [] end.
Lemma deq_order_cons : forall e es, deq_order (e :: es) = deq_order es ++ deq_of e.
Proof. intros. unfold deq_order. simpl. rewrite rev_app_distr. destruct e; simpl; auto using app_nil_r. Qed.
Lemma begin_order_cons : forall e es, begin_order (e :: es) = begin_order es ++ beg_of e.
Proof.
  intros. unfold begin_order. simpl. rewrite rev_app_distr. destruct e; simpl; auto using app_nil_r.
  destruct q; simpl; auto using app_nil_r.
Qed.

Lemma earlier_cons : forall x older e es,
  earlier (x :: older) (e :: es) -> (x = e /\ older = es) \/ earlier (x :: older) es.
Proof.
  intros x older e es [newer H]. destruct newer; simpl in H.
  - inversion H. auto.
  - inversion H. right. exists newer. auto.
Qed.
Lemma earlier_nil : forall x older, ~ earlier (x :: older) [].
Proof. intros x older [newer H]. destruct newer; discriminate. Qed.

Lemma left_cons : forall e es j, left es j -> left (e :: es) j.
Proof. unfold left. simpl. tauto. Qed.

Lemma count_occ_snoc : forall (l : list Z) i j,
  count_occ Z.eq_dec (l ++ [i]) j = count_occ Z.eq_dec l j + (if Z.eq_dec i j then 1 else 0).
Proof. intros. rewrite count_occ_app. simpl. destruct (Z.eq_dec i j); lia. Qed.

(* ---------- tokens: where a job that has not begun yet can be ---------- *)
Definition creates (o : op) (j : Z) : nat :=
  match o with OAdd i | OInsert i | OSpawn i => if Z.eq_dec i j then 1 else 0 | _ => 0 end.
Fixpoint tokops (j : Z) (ops : list op) : nat :=
  match ops with [] => 0 | o :: r => creates o j + tokops j r end.
Fixpoint tokk (j : Z) (k : kont) : nat :=
  match k with KClient ops => tokops j ops | KJob => 0 | KRel k' => tokk j k' | KRetV _ k' => tokk j k' end.
Definition tokpt (j : Z) (pt : point) : nat :=
  match pt with
  | Enq0 i _ | Enq1 i _ | Sp0 i | Sp1 i | Sp2 i | Run4 i | Run5 i | Run6 i | Job0 i _ =>
      if Z.eq_dec i j then 1 else 0
  | _ => 0
  end.
Definition tok (j : Z) (p : pc) : nat := tokpt j (fst p) + tokk j (snd p).

Lemma tok_enter : forall j o r, tok j (enter o r) = creates o j + tokops j r.
Proof. destruct o; simpl; intros; unfold tok; simpl; lia. Qed.
Lemma tok_ret_to : forall j k, tok j (ret_to k) = tokk j k.
Proof.
  destruct k; simpl; auto. destruct ops; simpl; auto. rewrite tok_enter. auto.
Qed.
Lemma tok_unw_to : forall j e k, tok j (unw_to e k) = tokk j k.
Proof. induction k; simpl; auto. Qed.

(* program points *)
Definition pend_of (pt : point) : option Z :=
  match pt with Run4 a | Run5 a | Run6 a | Job0 a true => Some a | _ => None end.
Definition will_run (pt : point) : bool :=
  match pt with Enq2 | Run0 | Run1 | Run2 | Run3 | Run4 _ | Done2 => true | _ => false end.

Record Inv2 (c : config pc) : Prop := {
  i_queue : qu c = map VRef (aqueue (ev c));
  i_once : forall j, exec_count (ev c) j + wsum (tok j) (thr c) + count_occ Z.eq_dec (aqueue (ev c)) j <= 1;
  i_exec : forall j q, In (SBegin j q) (ev c) ->
             left (ev c) j \/ exists u k, nth_error (thr c) u = Some (Job1 j q, k) \/ nth_error (thr c) u = Some (Job2 j q, k);
  i_fifo1 : forall older j, earlier (SDeq j :: older) (ev c) -> hd_error (aqueue older) = Some j
}.

Section Proofs.
  Variable bodies : Z -> body.
  Variable vr : variant.
  Notation code' := (code bodies vr).
  Notation step' := (step pc code').

  Ltac marks := unfold mk_begin_q, mk_begin_bg, mk_end, mk_raise, mk_ret, mk_exc in *.

  Lemma inv2_queue : forall c t c', Inv1 c -> Inv2 c -> step' c t = Some c' ->
    qu c' = map VRef (aqueue (ev c')).
  Proof.
    intros c t c' I I2 Hs. pose proof (i_queue _ I2) as Q. step_cases Hs I.
    all: marks; simpl; unfold updn; simpl.
    all: try exact Q.
    all: try (rewrite Q; try rewrite map_app; reflexivity).
    all: try (rewrite Equ; exact Q).
    all: try reflexivity.
    all: destruct (aqueue (ev c)); simpl in Q; inversion Q; subst; reflexivity.
  Qed.

  (* ----- exactly once: tokens ----- *)
  Lemma inv2_once : forall c t c', Inv1 c -> Inv2 c -> step' c t = Some c' ->
    forall j, exec_count (ev c') j + wsum (tok j) (thr c') + count_occ Z.eq_dec (aqueue (ev c')) j <= 1.
  Proof.
    intros c t c' I I2 Hs jj. pose proof (i_queue _ I2) as Q. pose proof (i_once _ I2 jj) as O.
    step_cases Hs I.
    all: marks; simpl hist; simpl thr; try rewrite wsum_app;
         match goal with |- context [set_nth (thr ?c0) ?t0 ?new] =>
           pose proof (wsum_set_nth _ (tok jj) (thr c0) t0 new _ Hp) as W end.
    all: try (pose proof (i_actown _ I _ _ _ Hp eq_refl) as Ao).
    all: unfold events; simpl map; fold (events (hist c)); rewrite exec_count_cons.
    all: repeat match type of W with context [tok _ (match ?x with _ => _ end)] => destruct x eqn:? end.
    all: try rewrite tok_ret_to in W; try rewrite tok_unw_to in W; try rewrite tok_enter in W.
    all: unfold wsum, tok in *; simpl in *.
    all: try lia.
    all: try (destruct (Z.eq_dec j jj); lia).
    all: try (rewrite count_occ_snoc; destruct (Z.eq_dec j jj); lia).
    all: try (match goal with H1 : fields (sh ?c) 0 = VRef ?x, H2 : fields (sh ?c) 0 = VRef ?y |- _ =>
                assert (x = y) by congruence; subst end; simpl in *; lia).
    all: destruct (aqueue (ev c)); simpl in *; inversion Q; subst;
         repeat match goal with |- context [Z.eq_dec ?a ?b] => destruct (Z.eq_dec a b) end;
         repeat match goal with H : context [Z.eq_dec ?a ?b] |- _ => destruct (Z.eq_dec a b) end; try congruence; lia.
  Qed.

  Lemma nth_error_other : forall (l : list pc) t new u q extra,
    u <> t -> nth_error l u = Some q -> nth_error (set_nth l t new ++ extra) u = Some q.
  Proof.
    intros. rewrite nth_error_app1.
    - rewrite nth_error_set_nth_neq; auto.
    - rewrite set_nth_length. eapply nth_error_lt; eauto.
  Qed.
  Lemma nth_error_other0 : forall (l : list pc) t new u q,
    u <> t -> nth_error l u = Some q -> nth_error (set_nth l t new) u = Some q.
  Proof. intros. rewrite nth_error_set_nth_neq; auto. Qed.
  Lemma nth_error_self : forall (l : list pc) t new old extra,
    nth_error l t = Some old -> nth_error (set_nth l t new ++ extra) t = Some new.
  Proof.
    intros. rewrite nth_error_app1.
    - eapply nth_error_set_nth_eq; eauto.
    - rewrite set_nth_length. eapply nth_error_lt; eauto.
  Qed.

  (* ----- a job whose execute() was entered and not left is at Job1/Job2 ----- *)
  Lemma inv2_exec : forall c t c', Inv1 c -> Inv2 c -> step' c t = Some c' ->
    forall j q, In (SBegin j q) (ev c') ->
      left (ev c') j \/ exists u k, nth_error (thr c') u = Some (Job1 j q, k) \/ nth_error (thr c') u = Some (Job2 j q, k).
  Proof.
    intros c t c' I I2 Hs jj qq Hin. pose proof (i_exec _ I2 jj qq) as X.
    step_cases Hs I.
    all: marks; simpl hist in *; unfold events in Hin; simpl map in Hin; fold (events (hist c)) in Hin.
    all: unfold events; simpl map; fold (events (hist c)); simpl thr.
    all: destruct Hin as [Heq|Hin];
         [ simpl in Heq; try discriminate Heq;
           try (repeat match type of Heq with context [match ?x with _ => _ end] => destruct x end; discriminate Heq)
         | ].
    (* the new event is this begin: the moving thread is the witness *)
    all: try (inversion Heq; subst; right; exists t; eexists; left; eapply nth_error_set_nth_eq; exact Hp).
    (* older begin *)
    all: destruct (X Hin) as [L|[u [k0 W]]]; [left; apply left_cons; exact L|].
    all: destruct (Nat.eq_dec u t) as [->|Hne];
         [ rewrite Hp in W; destruct W as [W|W]; inversion W; subst
         | right; exists u, k0; destruct W as [W|W]; [left|right];
           first [ apply nth_error_other0; assumption | apply nth_error_other; assumption ] ].
    all: first [ left; unfold left; simpl; tauto
               | right; exists t, k0; right; eapply nth_error_set_nth_eq; exact Hp ].
  Qed.

  Lemma inv2_fifo1 : forall c t c', Inv1 c -> Inv2 c -> step' c t = Some c' ->
    forall older j, earlier (SDeq j :: older) (ev c') -> hd_error (aqueue older) = Some j.
  Proof.
    intros c t c' I I2 Hs older jj He. pose proof (i_fifo1 _ I2 older jj) as X.
    pose proof (i_queue _ I2) as Q.
    step_cases Hs I.
    all: marks; simpl hist in *; unfold events in He; simpl map in He; fold (events (hist c)) in He.
    all: apply earlier_cons in He; destruct He as [[Heq ->]|He]; [|exact (X He)].
    all: simpl in Heq; try discriminate Heq.
    all: try (repeat match type of Heq with context [match ?x with _ => _ end] => destruct x end; discriminate Heq).
    all: destruct (aqueue (ev c)); simpl in Q; inversion Q; subst; simpl in Heq; inversion Heq; reflexivity.
  Qed.

  Lemma inv2_step : forall c t c', Inv1 c -> Inv2 c -> step' c t = Some c' -> Inv2 c'.
  Proof.
    intros c t c' I I2 Hs. constructor.
    - eapply inv2_queue; eauto.
    - eapply inv2_once; eauto.
    - eapply inv2_exec; eauto.
    - eapply inv2_fifo1; eauto.
  Qed.

  (* ----- jobs begin in the order in which they were taken from the queue ----- *)
  Lemma pend_cases : forall pt a, pend_of pt = Some a -> act_none_pt pt = true \/ own_of pt = Some a.
  Proof. destruct pt; simpl; intros; try discriminate; auto. Qed.
  Lemma pend_ret_to : forall k, pend_of (fst (ret_to k)) = None.
  Proof. destruct k; simpl; auto. destruct ops; simpl; auto. destruct o; simpl; auto. Qed.
  Lemma pend_unw_to : forall e k, pend_of (fst (unw_to e k)) = None.
  Proof. induction k; simpl; auto. Qed.
  Lemma pend_enter : forall o r, pend_of (fst (enter o r)) = None.
  Proof. destruct o; reflexivity. Qed.

  Lemma pend_unique : forall c u v pu pv a b, Inv1 c ->
    nth_error (thr c) u = Some pu -> nth_error (thr c) v = Some pv ->
    pend_of (fst pu) = Some a -> pend_of (fst pv) = Some b -> u = v.
  Proof.
    intros c u v [pu ku] [pv kv] a b I Hu Hv Pu Pv. simpl in *.
    destruct (pend_cases _ _ Pu) as [Nu|Ou]; destruct (pend_cases _ _ Pv) as [Nv|Ov].
    - eapply lock_exclusive; eauto using actnone_needs_lock.
    - pose proof (i_actnone _ I _ _ Hu Nu). pose proof (i_actown _ I _ _ _ Hv Ov). congruence.
    - pose proof (i_actnone _ I _ _ Hv Nv). pose proof (i_actown _ I _ _ _ Hu Ou). congruence.
    - eapply (own_unique c u v); [exact I | exact Hu | exact Hv | unfold own; simpl; rewrite Ou; reflexivity | unfold own; simpl; rewrite Ov; reflexivity].
  Qed.

  (* while a thread is between reading "nothing active" and taking a job, no job is pending *)
  Lemma none_pending_at_run3 : forall c t k v pv b, Inv1 c ->
    nth_error (thr c) t = Some (Run3, k) -> nth_error (thr c) v = Some pv -> pend_of (fst pv) = Some b -> False.
  Proof.
    intros c t k v [pv kv] b I Ht Hv Pv. simpl in *.
    pose proof (i_actnone _ I _ _ Ht eq_refl) as An.
    destruct (pend_cases _ _ Pv) as [Nv|Ov].
    - assert (t = v) by (eapply lock_exclusive; eauto using actnone_needs_lock). subst.
      rewrite Ht in Hv. inversion Hv. subst. discriminate.
    - pose proof (i_actown _ I _ _ _ Hv Ov). congruence.
  Qed.

  Definition P1 (c : config pc) : Prop :=
    forall u q a, nth_error (thr c) u = Some q -> pend_of (fst q) = Some a ->
                  deq_order (ev c) = begin_order (ev c) ++ [a].
  Definition P2 (c : config pc) : Prop :=
    (forall u q, nth_error (thr c) u = Some q -> pend_of (fst q) = None) ->
    deq_order (ev c) = begin_order (ev c).

  Lemma inv3_p1 : forall c t c', Inv1 c -> Inv2 c -> P1 c -> P2 c -> step' c t = Some c' -> P1 c'.
  Proof.
    intros c t c' I I2 p1 p2 Hs. pose proof (i_queue _ I2) as Q.
    step_cases Hs I.
    all: try (pose proof (i_actown _ I _ _ _ Hp eq_refl) as Ao; simpl in Ao; try rewrite Ao).
    all: intros uu qq aa Hu Hn.
    all: marks; simpl hist; unfold events; simpl map; fold (events (hist c)).
    all: rewrite deq_order_cons, begin_order_cons.
    all: simpl thr in Hu.
    all: try (match type of Hu with nth_error (_ ++ _) _ = _ =>
                apply nth_error_app_one in Hu; destruct Hu as [[_ Hu]|[-> ->]];
                [| simpl in Hn; first [ discriminate Hn
                                      | inversion Hn; subst; simpl; repeat rewrite app_nil_r;
                                        eapply p1; [exact Hp | reflexivity] ] ] end).
    all: eapply nth_error_set_nth in Hu; [|exact Hp]; destruct Hu as [[-> ->]|[Hne Hu]].
    (* the moving thread *)
    all: try (simpl fst in Hn;
              repeat match type of Hn with context [pend_of (fst (match ?x with _ => _ end))] => destruct x eqn:? end;
              try rewrite pend_ret_to in Hn; try rewrite pend_unw_to in Hn; try rewrite pend_enter in Hn;
              simpl in Hn; try discriminate Hn;
              first [ simpl; repeat rewrite app_nil_r; eapply p1; [exact Hp | exact Hn]
                    | inversion Hn; subst; simpl; rewrite app_nil_r; f_equal; apply p2;
                      intros u0 q0 H0; destruct (pend_of (fst q0)) eqn:E0; auto;
                      exfalso; eapply none_pending_at_run3; eauto ]; fail).
    (* other threads *)
    all: try (first [ exfalso; eapply none_pending_at_run3; [exact I | exact Hp | exact Hu | exact Hn]
                    | exfalso; apply Hne; eapply (pend_unique c uu t); [exact I | exact Hu | exact Hp | exact Hn | reflexivity]
                    | simpl; repeat rewrite app_nil_r; eapply p1; [exact Hu | exact Hn] ]; fail).
  Qed.

  Lemma inv3_p2 : forall c t c', Inv1 c -> Inv2 c -> P1 c -> P2 c -> step' c t = Some c' -> P2 c'.
  Proof.
    intros c t c' I I2 p1 p2 Hs.
    step_cases Hs I.
    all: try (pose proof (i_actown _ I _ _ _ Hp eq_refl) as Ao; simpl in Ao; try rewrite Ao).
    all: try (match goal with Equ : deques _ 0 = ?r :: _ |- _ => destruct r end).
    all: intros Hnone.
    all: marks; simpl hist; unfold events; simpl map; fold (events (hist c)).
    all: rewrite deq_order_cons, begin_order_cons.
    all: simpl thr in Hnone.
    all: first
      [ (* the new configuration has a pending job: the premise is false *)
        exfalso;
        first [ pose proof (Hnone t _ (nth_error_set_nth_eq _ _ _ _ _ Hp)) as X
              | pose proof (Hnone (length (thr c)) (Job0 _ true, KJob)) as X;
                rewrite nth_error_app2 in X by (rewrite set_nth_length; lia);
                rewrite set_nth_length, Nat.sub_diag in X; specialize (X eq_refl) ];
        simpl in X; discriminate X
      | (* the pending job begins *)
        simpl; rewrite app_nil_r; eapply p1; [exact Hp | reflexivity]
      | (* nothing relevant changes *)
        simpl; repeat rewrite app_nil_r; apply p2; intros u0 q0 H0;
        destruct (Nat.eq_dec u0 t) as [->|Hne];
        [ rewrite Hp in H0; inversion H0; reflexivity
        | eapply Hnone; first [ apply nth_error_other0; eassumption | apply nth_error_other; eassumption ] ]
      | idtac ].
    all: exfalso.
    all: assert (X : nth_error (set_nth (thr c) t (ret_to k) ++ [(Job0 a true, KJob)]) (length (thr c)) = Some (Job0 a true, KJob))
           by (rewrite nth_error_app2 by (rewrite set_nth_length; lia); rewrite set_nth_length, Nat.sub_diag; reflexivity).
    all: apply Hnone in X; discriminate X.
  Qed.

  (* ----- a non-empty queue with nothing active is being looked after ----- *)
  Definition WR (c : config pc) : Prop :=
    qu c <> [] -> act c = VNone -> exists u q, nth_error (thr c) u = Some q /\ will_run (fst q) = true.

  Lemma inv3_willrun : forall c t c', Inv1 c -> Inv2 c -> WR c -> step' c t = Some c' -> WR c'.
  Proof.
    intros c t c' I I2 w Hs. pose proof (i_queue _ I2) as Q.
    step_cases Hs I.
    all: intros Hq Ha; simpl in Hq, Ha; unfold updn in Hq, Ha; simpl in Hq, Ha; simpl thr.
    all: try (exfalso; apply Hq; reflexivity).
    all: try discriminate Ha.
    all: try (match goal with Equ : deques _ 0 = _ |- _ => try rewrite Equ in Q; destruct (aqueue (ev c)); simpl in Q; inversion Q; subst end).
    all: try rewrite Ha.
    all: try (destruct (qu c) eqn:Eq2; [exfalso; apply Hq; reflexivity|]).
    all: simpl.
    all: first
      [ exists t; eexists; split;
        [ first [ eapply nth_error_set_nth_eq; exact Hp | eapply nth_error_self; exact Hp ] | reflexivity ]
      | destruct (w ltac:(congruence) Ha) as [u [q0 [Hu Hw]]];
        destruct (Nat.eq_dec u t) as [->|Hne];
        [ rewrite Hp in Hu; inversion Hu; subst; simpl in Hw; discriminate Hw
        | exists u, q0; split; [first [ apply nth_error_other0; assumption | apply nth_error_other; assumption ] | exact Hw] ]
      | idtac ].
    all: discriminate Equ.
  Qed.

  (* ----- every queued job is in the queue, was cleared, or was taken ----- *)
  Definition ENQ (c : config pc) : Prop :=
    forall j, enqueued (ev c) j -> In j (aqueue (ev c)) \/ In j (cleared (ev c)) \/ In (SDeq j) (ev c).

  Lemma inv3_enq : forall c t c', Inv1 c -> Inv2 c -> ENQ c -> step' c t = Some c' -> ENQ c'.
  Proof.
    intros c t c' I I2 en Hs. pose proof (i_queue _ I2) as Q.
    step_cases Hs I.
    all: intros jj He; specialize (en jj).
    all: marks; simpl hist in *; unfold events in *; simpl map in *; fold (events (hist c)) in *.
    all: try (match goal with Equ : deques _ 0 = _ :: _ |- _ => try rewrite Equ in Q; destruct (aqueue (ev c)) eqn:Eaq; simpl in Q; inversion Q; subst end).
    all: unfold enqueued in *; simpl in He |- *.
    all: destruct He as [[E|H]|[E|H]]; try discriminate E; try (inversion E; subst).
    all: try rewrite Eaq; rewrite ?in_app_iff; simpl in *; intuition (try discriminate; subst; auto).
  Qed.
End Proofs.
