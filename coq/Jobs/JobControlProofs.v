(* The C08 theorems about the access programs of Jobs/JobControl.v: for every list of client
   programs with distinct job numbers, every job-body assignment, both variants of
   is_running, and every schedule (every reachable configuration). *)
From Coq Require Import ZArith List Bool Lia Arith.
From Bardolph Require Import Jobs.Threads Jobs.ThreadsFacts Jobs.JobVocab Jobs.JobControl Jobs.JobControlSpec
  Jobs.JobControlInv Jobs.JobControlInv2 Jobs.JobControlInv3.
Import ListNotations.
Open Scope list_scope.
Open Scope nat_scope.

(* the quantifier's "jobs under distinct names": no job number is created twice *)
Definition distinct_jobs (clients : list (list op)) : Prop :=
  forall j, list_sum (map (tokops j) clients) <= 1.

Lemma tokops_count : forall j ops, tokops j ops = count_occ Z.eq_dec (flat_map created ops) j.
Proof.
  induction ops; simpl; auto. rewrite count_occ_app, <- IHops.
  destruct a; simpl; auto; destruct (Z.eq_dec j0 j); lia.
Qed.
Lemma distinct_jobs_NoDup : forall clients, NoDup (created_jobs clients) -> distinct_jobs clients.
Proof.
  intros clients N j. rewrite (NoDup_count_occ Z.eq_dec) in N. specialize (N j).
  assert (E : list_sum (map (tokops j) clients) = count_occ Z.eq_dec (created_jobs clients) j).
  { unfold created_jobs. clear. induction clients; simpl; auto.
    rewrite count_occ_app, <- IHclients, tokops_count. auto. }
  lia.
Qed.

Section Theorems.
  Variable bodies : Z -> body.
  Variable vr : variant.
  Notation code' := (code bodies vr).
  Notation step' := (step pc code').
  Notation reach clients := (jc_reachable bodies vr clients).

  Record Inv (c : config pc) : Prop := {
    inv1 : Inv1 c; inv2 : Inv2 c; invp1 : P1 c; invp2 : P2 c; invwr : WR c; invenq : ENQ c; inv3 : Inv3 c }.

  Lemma inv_step : forall c t c', Inv c -> step' c t = Some c' -> Inv c'.
  Proof.
    intros c t c' [I1 I2 p1 p2 w e I3] Hs. constructor.
    - eapply inv1_step; eauto.
    - eapply inv2_step; eauto.
    - eapply inv3_p1; eauto.
    - eapply inv3_p2; eauto.
    - eapply inv3_willrun; eauto.
    - eapply inv3_enq; eauto.
    - eapply inv3_step; eauto.
  Qed.

  Lemma tokBops_le : forall j ops, tokBops j ops <= tokops j ops.
  Proof. induction ops; simpl; auto. destruct a; simpl; try lia; try (destruct (Z.eq_dec j0 j); lia). Qed.

  Lemma wsum_map : forall A B (f : A -> B) (w : B -> nat) l, wsum w (map f l) = list_sum (map (fun x => w (f x)) l).
  Proof. intros. unfold wsum. rewrite map_map. auto. Qed.

  Lemma inv_init : forall clients, distinct_jobs clients -> Inv (jc_init clients).
  Proof.
    intros clients D.
    assert (CL : forall u q, nth_error (thr (jc_init clients)) u = Some q -> exists ops, q = client ops).
    { intros u q H. simpl in H. apply nth_error_In in H. apply in_map_iff in H. destruct H as [ops [<- _]]. eauto. }
    constructor.
    - apply inv1_init.
    - constructor; simpl.
      + reflexivity.
      + intros j. unfold exec_count. simpl. specialize (D j).
        assert (E : wsum (tok j) (map client clients) = list_sum (map (tokops j) clients)).
        { rewrite wsum_map. f_equal. apply map_ext. intros a. unfold client. rewrite tok_ret_to. reflexivity. }
        rewrite E. lia.
      + intros j q [].
      + intros older j H. exfalso. eapply earlier_nil; eauto.
    - intros u q a H Hn. apply CL in H. destruct H as [ops ->]. unfold client in Hn. rewrite pend_ret_to in Hn. discriminate.
    - intros _. reflexivity.
    - intros Hq. exfalso. apply Hq. reflexivity.
    - intros j [[]|[]].
    - constructor; simpl.
      + intros j. specialize (D j).
        assert (E : wsum (tokB j) (map client clients) = list_sum (map (tokBops j) clients)).
        { rewrite wsum_map. f_equal. apply map_ext. intros a. unfold client. rewrite tokB_ret_to. reflexivity. }
        rewrite E.
        assert (list_sum (map (tokBops j) clients) <= list_sum (map (tokops j) clients)).
        { clear. induction clients; simpl; auto. pose proof (tokBops_le j a). lia. }
        lia.
      + intros u q j H Hn. apply CL in H. destruct H as [ops ->]. unfold client in Hn. rewrite bgof_ret_to in Hn. discriminate.
      + intros u q j H Hn. apply CL in H. destruct H as [ops ->]. unfold client in Hn. rewrite afterof_ret_to in Hn. discriminate.
      + intros j. split; [discriminate | intros [[] _]].
      + discriminate.
      + intros older j H. exfalso. eapply earlier_nil; eauto.
      + intros older j b H. exfalso. eapply earlier_nil; eauto.
  Qed.

  Lemma inv_reachable : forall clients c, distinct_jobs clients -> reach clients c -> Inv c.
  Proof.
    intros clients c D R. unfold jc_reachable in R.
    apply (reachable_ind_inv pc code' (jc_init clients) Inv); auto.
    - apply inv_init; auto.
    - intros. eapply inv_step; eauto.
  Qed.

  (* ---------- mutual exclusion ---------- *)
  Theorem mutex_holds : forall clients c, distinct_jobs clients -> reach clients c -> mutex (ev c).
  Proof.
    intros clients c D R. pose proof (inv_reachable _ _ D R) as I.
    intros j1 j2 [B1 N1] [B2 N2].
    destruct (i_exec _ (inv2 _ I) j1 true B1) as [L|[u1 [k1 W1]]]; [contradiction|].
    destruct (i_exec _ (inv2 _ I) j2 true B2) as [L|[u2 [k2 W2]]]; [contradiction|].
    assert (E : u1 = u2).
    { destruct W1 as [W1|W1]; destruct W2 as [W2|W2];
        eapply (own_unique c u1 u2); try exact (inv1 _ I); try eassumption; reflexivity. }
    subst. destruct W1 as [W1|W1]; destruct W2 as [W2|W2]; rewrite W1 in W2; inversion W2; auto.
  Qed.

  (* ---------- exactly once: never twice ---------- *)
  Theorem at_most_once_holds : forall clients c, distinct_jobs clients -> reach clients c -> at_most_once (ev c).
  Proof.
    intros clients c D R. pose proof (inv_reachable _ _ D R) as I. intros j.
    pose proof (i_once _ (inv2 _ I) j). lia.
  Qed.

  (* ---------- order ---------- *)
  Definition pendings (c : config pc) : list Z :=
    flat_map (fun p => match pend_of (fst p) with Some a => [a] | None => [] end) (thr c).

  Lemma flat_map_nil_nth : forall A B (f : A -> list B) l u q,
    flat_map f l = [] -> nth_error l u = Some q -> f q = [].
  Proof.
    induction l; destruct u; simpl; intros; try discriminate.
    - inversion H0. subst. apply app_eq_nil in H. tauto.
    - apply app_eq_nil in H. eapply IHl; eauto. tauto.
  Qed.
  Lemma flat_map_cons_nth : forall A B (f : A -> list B) l b r,
    flat_map f l = b :: r -> exists u q, nth_error l u = Some q /\ In b (f q).
  Proof.
    induction l; simpl; intros; try discriminate.
    destruct (f a) eqn:E.
    - simpl in H. destruct (IHl _ _ H) as [u [q [H1 H2]]]. exists (S u), q. auto.
    - simpl in H. inversion H. subst. exists 0, a. simpl. rewrite E. simpl. auto.
  Qed.

  Theorem fifo_holds : forall clients c, distinct_jobs clients -> reach clients c -> fifo (ev c).
  Proof.
    intros clients c D R. pose proof (inv_reachable _ _ D R) as I. split.
    - exact (i_fifo1 _ (inv2 _ I)).
    - destruct (pendings c) eqn:E.
      + exists []. rewrite app_nil_r. split; auto. apply (invp2 _ I).
        intros u q H. pose proof (flat_map_nil_nth _ _ _ _ _ _ E H) as X. simpl in X.
        destruct (pend_of (fst q)); auto; discriminate.
      + destruct (flat_map_cons_nth _ _ _ _ _ _ E) as [u [q [H1 H2]]].
        destruct (pend_of (fst q)) eqn:P; simpl in H2; try contradiction.
        destruct H2 as [<-|[]]. exists [z0]. split; auto. eapply (invp1 _ I); eauto.
  Qed.

  (* ---------- the queue drains ---------- *)
  Lemma finished_props : forall pt k, wf_pc (pt, k) = true -> finished pc code' (pt, k) = true ->
    will_run pt = false /\ own_of pt = None /\ bg_of pt = None /\ pend_of pt = None /\
    (forall j q, pt <> Job1 j q /\ pt <> Job2 j q).
  Proof.
    intros pt k W F. unfold finished in F.
    destruct pt; simpl in F; try discriminate;
      try (destruct k; simpl in *; try discriminate);
      try (destruct (bodies j); discriminate);
      try (destruct (isr_once vr); discriminate);
      try (destruct (clear_locked vr); discriminate);
      try (destruct front; discriminate);
      repeat split; auto; try discriminate.
  Qed.

  Theorem quiescent_drained : forall clients c, distinct_jobs clients -> reach clients c ->
    quiescent pc code' c ->
    queue_of c = [] /\ active_of c = VNone /\ background_of c = [] /\ has_jobs_of c = false.
  Proof.
    intros clients c D R Qs. pose proof (inv_reachable _ _ D R) as I.
    assert (FP : forall u pt k, nth_error (thr c) u = Some (pt, k) ->
              will_run pt = false /\ own_of pt = None /\ bg_of pt = None /\ pend_of pt = None /\
              (forall j q, pt <> Job1 j q /\ pt <> Job2 j q)).
    { intros u pt k H. apply finished_props with (k := k).
      - eapply (i_wf _ (inv1 _ I)); eauto.
      - apply Qs. eapply nth_error_In; eauto. }
    assert (A : act c = VNone).
    { destruct (i_actshape _ (inv1 _ I)) as [A|[a A]]; auto. exfalso.
      pose proof (i_own _ (inv1 _ I)) as O. rewrite A in O.
      destruct (wsum_pos_exists _ own (thr c)) as [u [[pt k] [H1 H2]]]; try lia.
      destruct (FP _ _ _ H1) as [_ [X _]]. unfold own in H2. simpl in H2. rewrite X in H2. lia. }
    assert (Qe : qu c = []).
    { destruct (qu c) eqn:E; auto. exfalso.
      destruct (invwr _ I) as [u [[pt k] [H1 H2]]]; try congruence.
      destruct (FP _ _ _ H1) as [X _]. simpl in H2. congruence. }
    assert (B : bgd c = []).
    { apply dict_has_none. intros j. destruct (dict_has (bgd c) j) eqn:E; auto. exfalso.
      destruct (b_wit _ (inv3 _ I) j E) as [u [[pt k] [H1 H2]]].
      destruct (FP _ _ _ H1) as [_ [_ [X _]]]. simpl in H2. congruence. }
    unfold has_jobs_of, queue_of, active_of, background_of. rewrite A, Qe, B. auto.
  Qed.

  Lemma In_deq_order : forall es j, In (SDeq j) es -> In j (deq_order es).
  Proof.
    intros es j H. unfold deq_order. rewrite <- in_rev. apply in_flat_map. exists (SDeq j). simpl. auto.
  Qed.
  Lemma In_begin_order : forall es j, In j (begin_order es) -> In (SBegin j true) es.
  Proof.
    intros es j H. unfold begin_order in H. rewrite <- in_rev in H. apply in_flat_map in H.
    destruct H as [e [H1 H2]]. destruct e; simpl in H2; try contradiction. destruct q; simpl in H2; try contradiction.
    destruct H2 as [->|[]]. auto.
  Qed.

  Theorem quiescent_all_executed : forall clients c, distinct_jobs clients -> reach clients c ->
    quiescent pc code' c -> all_executed (ev c).
  Proof.
    intros clients c D R Qs. pose proof (inv_reachable _ _ D R) as I.
    destruct (quiescent_drained _ _ D R Qs) as [Qe _]. unfold queue_of in Qe.
    assert (FP : forall u pt k, nth_error (thr c) u = Some (pt, k) ->
              pend_of pt = None /\ (forall j q, pt <> Job1 j q /\ pt <> Job2 j q)).
    { intros u pt k H. destruct (finished_props pt k) as [_ [_ [_ [X Y]]]]; auto.
      - eapply (i_wf _ (inv1 _ I)); eauto.
      - apply Qs. eapply nth_error_In; eauto. }
    intros j En NC.
    assert (Aq : aqueue (ev c) = []).
    { pose proof (i_queue _ (inv2 _ I)) as Q. rewrite Qe in Q. destruct (aqueue (ev c)); auto; discriminate. }
    destruct (invenq _ I j En) as [H|[H|H]]; [rewrite Aq in H; contradiction | contradiction |].
    apply In_deq_order in H.
    rewrite (invp2 _ I) in H by (intros u [pt k] Hu; apply (FP _ _ _ Hu)).
    apply In_begin_order in H.
    assert (L : left (ev c) j).
    { destruct (i_exec _ (inv2 _ I) j true H) as [L|[u [k [W|W]]]]; auto; exfalso;
        destruct (FP _ _ _ W) as [_ X]; destruct (X j true); congruence. }
    split; auto.
    pose proof (i_once _ (inv2 _ I) j) as O.
    assert (1 <= count_occ sev_eq_dec (ev c) (SBegin j true)) by (apply count_occ_In; auto).
    unfold exec_count in *. lia.
  Qed.

  (* a job that raised does not hold up the jobs behind it *)
  Theorem raise_does_not_block : forall clients c, distinct_jobs clients -> reach clients c ->
    quiescent pc code' c ->
    forall j j', In (SRaise j) (ev c) -> enqueued (ev c) j' -> ~ In j' (cleared (ev c)) ->
                 exec_count (ev c) j' = 1 /\ left (ev c) j'.
  Proof. intros clients c D R Qs j j' _ En NC. exact (quiescent_all_executed _ _ D R Qs j' En NC). Qed.

  (* ---------- background jobs ---------- *)
  Theorem background_window_holds : forall clients c, distinct_jobs clients -> reach clients c ->
    background_window (ev c).
  Proof.
    intros clients c D R. pose proof (inv_reachable _ _ D R) as I. split; [|split].
    - intros j B NL.
      destruct (i_exec _ (inv2 _ I) j false B) as [L|[u [k W]]]; [contradiction|].
      split.
      + destruct W as [W|W]; eapply (b_reg _ (inv3 _ I)); eauto; reflexivity.
      + destruct W as [W|W]; eapply (not_forgotten c u _ k j (inv3 _ I)); eauto; simpl;
          destruct (Z.eq_dec j j); try congruence; lia.
    - exact (b_forget _ (inv3 _ I)).
    - exact (b_ask _ (inv3 _ I)).
  Qed.

  (* a name is registered only while a thread stands for it: spawn_job between registration and
     thread start, the job thread until its completion callback has removed the name *)
  Theorem registered_only_while_alive : forall clients c, distinct_jobs clients -> reach clients c ->
    forall j, dict_has (background_of c) j = true ->
      exists u pt k, nth_error (thr c) u = Some (pt, k) /\ bg_of pt = Some j.
  Proof.
    intros clients c D R j H. pose proof (inv_reachable _ _ D R) as I.
    destruct (b_wit _ (inv3 _ I) j H) as [u [[pt k] [H1 H2]]]. eauto.
  Qed.

  (* ---------- no deadlock ---------- *)
  Definition is_acquire (pt : point) : bool :=
    match pt with Enq0 _ _ | Run0 | Done0 _ | Sp0 _ | Bg0 _ | Sj0 _ | Clear0 => true | _ => false end.
  (* a job body that runs until stopped and has not been asked to stop *)
  Definition waiting_for_stop (c : config pc) (p : pc) : Prop :=
    exists j q, fst p = Job1 j q /\ bodies j = BWait /\ flags (sh c) j = false.

  Lemma step_progress : forall c t (p : pc),
    nth_error (thr c) t = Some p -> finished pc code' p = false ->
    (exists c', step' c t = Some c') \/
    (is_acquire (fst p) = true /\ exists o n, lk c = Some (o, n) /\ o <> t) \/
    waiting_for_stop c p.
  Proof.
    intros c t p H F. unfold step. rewrite H. destruct p as [pt k].
    unfold finished in F. unfold waiting_for_stop, lk.
    destruct pt; simpl in *;
      try (destruct k; simpl in *; try discriminate);
      try (destruct (isr_once vr); simpl in * );
      try (destruct (clear_locked vr); simpl in * );
      try (destruct front; simpl in * );
      try (left; eexists; reflexivity);
      try (destruct (locks (sh c) 0) as [[oo nn]|] eqn:E;
           [ destruct (Nat.eqb_spec oo t);
             first [ left; eexists; reflexivity | right; left; split; [reflexivity | exists oo, nn; auto] ]
           | left; eexists; reflexivity ]).
    all: try (destruct (qu c); left; eexists; reflexivity).
    all: try (destruct (dict_has (bgd c) j); left; eexists; reflexivity).
    all: try (destruct (bodies j) eqn:Eb; simpl;
              [ left; eexists; reflexivity | left; eexists; reflexivity
              | destruct (flags (sh c) j) eqn:Ef; [left; eexists; reflexivity | right; right; exists j, q; auto] ]).
  Qed.

  Definition all_enabled_none (c : config pc) : Prop := forall t, step' c t = None.

  (* if no thread can move, every thread has finished or is a job waiting for a stop request
     that has not been made: the controller itself never blocks *)
  Theorem no_deadlock : forall clients c, distinct_jobs clients -> reach clients c ->
    (forall t, step' c t = None) ->
    forall t p, nth_error (thr c) t = Some p ->
      finished pc code' p = true \/ waiting_for_stop c p.
  Proof.
    intros clients c D R Stuck t p Hp. pose proof (inv_reachable _ _ D R) as I.
    destruct (finished pc code' p) eqn:F; auto. right.
    destruct (step_progress c t p Hp F) as [[c' S]|[[A [o [n [L Ne]]]]|W]]; auto.
    - rewrite Stuck in S. discriminate.
    - (* blocked on the lock: its owner can move *)
      exfalso. destruct (i_lockown _ (inv1 _ I) _ _ L) as [Lo Ln].
      destruct (nth_error (thr c) o) as [po|] eqn:Ho; [|apply nth_error_None in Ho; lia].
      pose proof (i_lock _ (inv1 _ I) _ _ Ho) as Hd. unfold owner_depth in Hd. rewrite L, Nat.eqb_refl in Hd.
      assert (Fo : finished pc code' po = false).
      { destruct (finished pc code' po) eqn:Fo; auto. exfalso. destruct po as [pto ko].
        pose proof (i_wf _ (inv1 _ I) _ _ Ho) as W. unfold held in Hd. simpl in Hd.
        unfold finished in Fo. destruct pto; simpl in Fo; try discriminate;
          try (destruct ko; simpl in *; try discriminate; try lia);
          try (destruct (bodies j); discriminate);
          try (destruct (isr_once vr); discriminate);
          try (destruct (clear_locked vr); discriminate);
          try (destruct front; discriminate). }
      destruct (step_progress c o po Ho Fo) as [[c' S]|[[A' [o' [n' [L' Ne']]]]|[j [q [E1 _]]]]].
      + rewrite Stuck in S. discriminate.
      + rewrite L in L'. inversion L'. congruence.
      + destruct po as [pto ko]. simpl in E1. subst pto.
        pose proof (i_wf _ (inv1 _ I) _ _ Ho) as W. unfold wf_pc in W. simpl in W.
        destruct ko; simpl in *; try discriminate. unfold held in Hd. simpl in Hd. lia.
  Qed.

  (* ---------- is_running ---------- *)
  Lemma fst_unw_to : forall e k, fst (unw_to e k) = Unw e.
  Proof. induction k; simpl; auto. Qed.

  (* repaired tree (one read into a local): the second, unlocked read of _active_agent does not
     exist, so is_running has no `None.name` to raise on *)
  Theorem is_running_single_read : forall clients c, isr_once vr = true -> reach clients c ->
    forall u q n, nth_error (thr c) u = Some q -> fst q <> Isr1 n.
  Proof.
    intros clients c E R. unfold jc_reachable in R.
    apply (reachable_ind_inv pc code' (jc_init clients)
             (fun c => forall u q n, nth_error (thr c) u = Some q -> fst q <> Isr1 n)); auto.
    - intros u q n H. simpl in H. apply nth_error_In in H. apply in_map_iff in H.
      destruct H as [ops [<- _]]. unfold client. destruct ops as [|o r]; simpl; try discriminate.
      destruct o; discriminate.
    - clear c R. intros c t c' _ IH Hs.
      apply step_inv in Hs;
      destruct Hs as [[pt k] [Hp [[l [kf [s' [r [Hc [Hx Hc']]]]]]|[ch [kf [Hc Hc']]]]]];
      [ case_code; try discriminate E; exec_inv Hx | case_code ].
      all: intros uu qq nn Hu; simpl thr in Hu.
      all: try (match type of Hu with nth_error (_ ++ _) _ = _ =>
                  apply nth_error_app_one in Hu; destruct Hu as [[_ Hu]|[_ ->]]; [|discriminate] end).
      all: eapply nth_error_set_nth in Hu; [|exact Hp]; destruct Hu as [[_ ->]|[_ Hu]]; [|eapply IH; eauto].
      all: repeat match goal with |- context [fst (match ?x with _ => _ end)] => destruct x end.
      all: try discriminate.
      all: try (match goal with |- fst (ret_to ?k0) <> _ => destruct k0 as [[|o0 r0]| | |]; simpl; try discriminate; destruct o0; discriminate end).
      all: try (rewrite fst_unw_to; discriminate).
      all: try (match goal with |- fst (enter ?o0 _) <> _ => destruct o0; discriminate end).
  Qed.

  (* ---------- clear_queue under the lock (D46) ---------- *)
  (* repaired tree: between len(queue) > 0 and popleft() nobody can empty the queue *)
  Definition R3 (c : config pc) : Prop :=
    forall u q, nth_error (thr c) u = Some q -> fst q = Run3 -> qu c <> [].

  Lemma r3_step : forall c t c', clear_locked vr = true -> Inv1 c -> R3 c -> step' c t = Some c' -> R3 c'.
  Proof.
    intros c t c' E I r3 Hs. step_cases Hs I; try discriminate E.
    all: intros uu qq Hu Hn; simpl thr in Hu.
    all: try (match type of Hu with nth_error (_ ++ _) _ = _ =>
                apply nth_error_app_one in Hu; destruct Hu as [[_ Hu]|[_ ->]]; [|discriminate Hn] end).
    all: eapply nth_error_set_nth in Hu; [|exact Hp]; destruct Hu as [[_ ->]|[Hne Hu]].
    (* other threads: whoever changes the queue holds the lock, as does the thread at Run3 *)
    all: try (pose proof (r3 _ _ Hu Hn) as Hold; simpl; unfold updn; simpl;
              first [ exact Hold
                    | exfalso; destruct qq as [pq kq]; simpl in Hn; subst pq; apply Hne;
                      eapply (lock_exclusive c); [exact I | exact Hu | exact Hp | reflexivity | reflexivity] ]; fail).
    (* the moving thread *)
    all: revert Hn; simpl.
    all: repeat match goal with |- context [fst (match ?x with _ => _ end)] => destruct x eqn:? end.
    all: try (rewrite fst_unw_to; discriminate).
    all: try discriminate.
    all: try (match goal with |- fst (ret_to ?k0) = _ -> _ => destruct k0 as [[|o0 r0]| | |]; simpl; try discriminate; destruct o0; discriminate end).
    all: try (match goal with |- fst (enter ?o0 _) = _ -> _ => destruct o0; discriminate end).
    all: intros _; destruct (qu c); simpl in *; discriminate.
  Qed.

  Theorem no_empty_take : forall clients c, clear_locked vr = true -> distinct_jobs clients -> reach clients c ->
    ~ In SDeqEmpty (ev c).
  Proof.
    intros clients c E D R.
    assert (X : Inv c /\ R3 c /\ ~ In SDeqEmpty (ev c)).
    { unfold jc_reachable in R.
      apply (reachable_ind_inv pc code' (jc_init clients) (fun c => Inv c /\ R3 c /\ ~ In SDeqEmpty (ev c))); auto.
      - split; [apply inv_init; auto|]. split; [|simpl; tauto].
        intros u q H Hn. simpl in H. apply nth_error_In in H. apply in_map_iff in H.
        destruct H as [ops [<- _]]. unfold client in Hn. destruct ops as [|o r]; simpl in Hn; try discriminate.
        destruct o; discriminate.
      - clear c R. intros c t c' _ [I [r3 N]] Hs. split; [eapply inv_step; eauto|].
        split; [eapply r3_step; eauto; apply (inv1 _ I)|].
        pose proof (i_queue _ (inv2 _ I)) as Q. pose proof (inv1 _ I) as I1.
        step_cases Hs I1.
        all: unfold mk_begin_q, mk_begin_bg, mk_end, mk_raise, mk_ret, mk_exc in *;
             simpl hist; unfold events; simpl map; fold (events (hist c)).
        all: intros [Heq|Hin]; [|exact (N Hin)].
        all: simpl in Heq; try discriminate Heq.
        all: try (eapply (r3 _ _ Hp); [reflexivity | assumption]).
        all: destruct (aqueue (ev c)); simpl in Q; inversion Q; subst; discriminate Heq. }
    tauto.
  Qed.
End Theorems.

(* ---------- the statements used by Props/C08.v, all quantifiers explicit ---------- *)
Section Final.
  Variable bodies : Z -> body.      (* what each job's execute() does: finish | raise | run until stopped *)
  Variable once : variant.          (* which repaired methods the tree has *)
  Variable clients : list (list op).
  Hypothesis distinct : NoDup (created_jobs clients).
  Let D := distinct_jobs_NoDup clients distinct.

  Lemma final_every_schedule : forall schedule,
    jc_reachable bodies once clients (jc_run bodies once (jc_init clients) schedule).
  Proof. intros. apply run_reachable. apply reach_init. Qed.
  Lemma final_run_model : forall choices,
    jc_reachable bodies once clients (run_model bodies once clients choices).
  Proof. intros. apply run_picks_reachable. apply reach_init. Qed.

  Lemma final_mutex : forall c, jc_reachable bodies once clients c -> mutex (events (hist c)).
  Proof. intros. eapply mutex_holds; eauto. Qed.
  Lemma final_fifo : forall c, jc_reachable bodies once clients c -> fifo (events (hist c)).
  Proof. intros. eapply fifo_holds; eauto. Qed.
  Lemma final_at_most_once : forall c, jc_reachable bodies once clients c -> at_most_once (events (hist c)).
  Proof. intros. eapply at_most_once_holds; eauto. Qed.
  Lemma final_all_executed : forall c, jc_reachable bodies once clients c ->
    quiescent pc (code bodies once) c -> all_executed (events (hist c)).
  Proof. intros. eapply quiescent_all_executed; eauto. Qed.
  Lemma final_raise : forall c, jc_reachable bodies once clients c ->
    quiescent pc (code bodies once) c ->
    forall j j', In (SRaise j) (events (hist c)) -> enqueued (events (hist c)) j' ->
                 ~ In j' (cleared (events (hist c))) ->
                 exec_count (events (hist c)) j' = 1 /\ left (events (hist c)) j'.
  Proof. intros. eapply raise_does_not_block; eauto. Qed.
  Lemma final_drained : forall c, jc_reachable bodies once clients c ->
    quiescent pc (code bodies once) c ->
    queue_of c = [] /\ active_of c = VNone /\ background_of c = [] /\ has_jobs_of c = false.
  Proof. intros. eapply quiescent_drained; eauto. Qed.
  Lemma final_no_deadlock : forall c, jc_reachable bodies once clients c ->
    (forall t, jc_step bodies once c t = None) ->
    forall t p, nth_error (thr c) t = Some p ->
      finished pc (code bodies once) p = true \/ waiting_for_stop bodies c p.
  Proof. intros. eapply no_deadlock; eauto. Qed.
  Lemma final_background : forall c, jc_reachable bodies once clients c -> background_window (events (hist c)).
  Proof. intros. eapply background_window_holds; eauto. Qed.
  Lemma final_no_empty_take : clear_locked once = true ->
    forall c, jc_reachable bodies once clients c -> ~ In SDeqEmpty (events (hist c)).
  Proof. intros. eapply no_empty_take; eauto. Qed.
  Lemma final_registered_alive : forall c, jc_reachable bodies once clients c ->
    forall j, dict_has (background_of c) j = true ->
      exists u pt k, nth_error (thr c) u = Some (pt, k) /\ bg_of pt = Some j.
  Proof. intros. eapply registered_only_while_alive; eauto. Qed.
End Final.
