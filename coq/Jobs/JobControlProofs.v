(* Second inductive invariant (histories vs. configurations) and the C08 theorems about the
   access programs of Jobs/JobControl.v, for every list of clients and every schedule. *)
From Coq Require Import ZArith List Bool Lia Arith.
From Bardolph Require Import Jobs.Threads Jobs.ThreadsFacts Jobs.JobVocab Jobs.JobControl Jobs.JobControlSpec Jobs.JobControlInv.
Import ListNotations.
Open Scope list_scope.
Open Scope nat_scope.

(* ---------- facts about the specification's functions ---------- *)
Definition is_begin (e : sev) (j : Z) : nat :=
  match e with SBegin i _ => if Z.eq_dec i j then 1 else 0 | _ => 0 end.

Lemma exec_count_cons : forall e es j, exec_count (e :: es) j = is_begin e j + exec_count es j.
Proof.
  intros. unfold exec_count. simpl.
  destruct (sev_eq_dec e (SBegin j true)) as [E1|N1]; destruct (sev_eq_dec e (SBegin j false)) as [E2|N2];
    try congruence; subst; simpl.
  - destruct (Z.eq_dec j j); try congruence. lia.
  - destruct (Z.eq_dec j j); try congruence. lia.
  - destruct e; simpl; auto. destruct (Z.eq_dec j0 j); auto. subst. destruct q; congruence.
Qed.

Definition deq_of (e : sev) : list Z := match e with SDeq j => [j] | _ => [] end.
Definition beg_of (e : sev) : list Z := match e with SBegin j true => [j] | _ => [] end.
Lemma deq_order_cons : forall e es, deq_order (e :: es) = deq_order es ++ deq_of e.
Proof. intros. unfold deq_order. simpl. rewrite rev_app_distr. destruct e; simpl; auto using app_nil_r. Qed.
Lemma begin_order_cons : forall e es, begin_order (e :: es) = begin_order es ++ beg_of e.
Proof.
  intros. unfold begin_order. simpl. rewrite rev_app_distr. destruct e; simpl; auto using app_nil_r.
  destruct q; simpl; auto using app_nil_r.
Qed.

Lemma earlier_cons : forall x older e es,
  earlier (x :: older) (e :: es) -> (x = e /\ older = es) \/ earlier (x :: older) es.
Proof.
  intros x older e es [newer H]. destruct newer; simpl in H.
  - inversion H. auto.
  - inversion H. right. exists newer. auto.
Qed.
Lemma earlier_nil : forall x older, ~ earlier (x :: older) [].
Proof. intros x older [newer H]. destruct newer; discriminate. Qed.

Lemma left_cons : forall e es j, left es j -> left (e :: es) j.
Proof. unfold left. simpl. tauto. Qed.

Lemma count_occ_snoc : forall (l : list Z) i j,
  count_occ Z.eq_dec (l ++ [i]) j = count_occ Z.eq_dec l j + (if Z.eq_dec i j then 1 else 0).
Proof. intros. rewrite count_occ_app. simpl. destruct (Z.eq_dec i j); lia. Qed.

(* ---------- tokens: where a job that has not begun yet can be ---------- *)
Definition creates (o : op) (j : Z) : nat :=
  match o with OAdd i | OInsert i | OSpawn i => if Z.eq_dec i j then 1 else 0 | _ => 0 end.
Fixpoint tokops (j : Z) (ops : list op) : nat :=
  match ops with [] => 0 | o :: r => creates o j + tokops j r end.
Fixpoint tokk (j : Z) (k : kont) : nat :=
  match k with KClient ops => tokops j ops | KJob => 0 | KRel k' => tokk j k' | KRetV _ k' => tokk j k' end.
Definition tokpt (j : Z) (pt : point) : nat :=
  match pt with
  | Enq0 i _ | Enq1 i _ | Sp0 i | Sp1 i | Sp2 i | Run4 i | Run5 i | Run6 i | Job0 i _ =>
      if Z.eq_dec i j then 1 else 0
  | _ => 0
  end.
Definition tok (j : Z) (p : pc) : nat := tokpt j (fst p) + tokk j (snd p).

Lemma tok_enter : forall j o r, tok j (enter o r) = creates o j + tokops j r.
Proof. destruct o; simpl; intros; unfold tok; simpl; lia. Qed.
Lemma tok_ret_to : forall j k, tok j (ret_to k) = tokk j k.
Proof.
  destruct k; simpl; auto. destruct ops; simpl; auto. rewrite tok_enter. auto.
Qed.
Lemma tok_unw_to : forall j e k, tok j (unw_to e k) = tokk j k.
Proof. induction k; simpl; auto. Qed.

(* program points *)
Definition pend_of (pt : point) : option Z :=
  match pt with Run4 a | Run5 a | Run6 a | Job0 a true => Some a | _ => None end.
Definition will_run (pt : point) : bool :=
  match pt with Enq2 | Run0 | Run1 | Run2 | Run3 | Run4 _ | Done2 => true | _ => false end.

Record Inv2 (c : config pc) : Prop := {
  i_queue : qu c = map VRef (aqueue (ev c));
  i_once : forall j, exec_count (ev c) j + wsum (tok j) (thr c) + count_occ Z.eq_dec (aqueue (ev c)) j <= 1;
  i_exec : forall j q, In (SBegin j q) (ev c) ->
             left (ev c) j \/ exists u k, nth_error (thr c) u = Some (Job1 j q, k) \/ nth_error (thr c) u = Some (Job2 j q, k);
  i_fifo1 : forall older j, earlier (SDeq j :: older) (ev c) -> hd_error (aqueue older) = Some j
}.

Section Proofs.
  Variable bodies : Z -> body.
  Variable isr_once : bool.
  Notation code' := (code bodies isr_once).
  Notation step' := (step pc code').

  Ltac marks := unfold mk_begin_q, mk_begin_bg, mk_end, mk_raise, mk_ret, mk_exc in *.

  Lemma inv2_queue : forall c t c', Inv1 c -> Inv2 c -> step' c t = Some c' ->
    qu c' = map VRef (aqueue (ev c')).
  Proof.
    intros c t c' I I2 Hs. pose proof (i_queue _ I2) as Q. step_cases Hs I.
    all: marks; simpl; unfold updn; simpl.
    all: try exact Q.
    all: try (rewrite Q; try rewrite map_app; reflexivity).
    all: try (rewrite Equ; exact Q).
    all: try reflexivity.
    all: destruct (aqueue (ev c)); simpl in Q; inversion Q; subst; reflexivity.
  Qed.

  (* ----- exactly once: tokens ----- *)
  Lemma inv2_once : forall c t c', Inv1 c -> Inv2 c -> step' c t = Some c' ->
    forall j, exec_count (ev c') j + wsum (tok j) (thr c') + count_occ Z.eq_dec (aqueue (ev c')) j <= 1.
  Proof.
    intros c t c' I I2 Hs jj. pose proof (i_queue _ I2) as Q. pose proof (i_once _ I2 jj) as O.
    step_cases Hs I.
    all: marks; simpl hist; simpl thr; try rewrite wsum_app;
         match goal with |- context [set_nth (thr ?c0) ?t0 ?new] =>
           pose proof (wsum_set_nth _ (tok jj) (thr c0) t0 new _ Hp) as W end.
    all: try (pose proof (i_actown _ I _ _ _ Hp eq_refl) as Ao).
    all: unfold events; simpl map; fold (events (hist c)); rewrite exec_count_cons.
    all: repeat match type of W with context [tok _ (match ?x with _ => _ end)] => destruct x eqn:? end.
    all: try rewrite tok_ret_to in W; try rewrite tok_unw_to in W; try rewrite tok_enter in W.
    all: unfold wsum, tok in *; simpl in *.
    all: try lia.
    all: try (destruct (Z.eq_dec j jj); lia).
    all: try (rewrite count_occ_snoc; destruct (Z.eq_dec j jj); lia).
    all: try (match goal with H1 : fields (sh ?c) 0 = VRef ?x, H2 : fields (sh ?c) 0 = VRef ?y |- _ =>
                assert (x = y) by congruence; subst end; simpl in *; lia).
    all: destruct (aqueue (ev c)); simpl in *; inversion Q; subst;
         repeat match goal with |- context [Z.eq_dec ?a ?b] => destruct (Z.eq_dec a b) end;
         repeat match goal with H : context [Z.eq_dec ?a ?b] |- _ => destruct (Z.eq_dec a b) end; try congruence; lia.
  Qed.

  Lemma nth_error_other : forall (l : list pc) t new u q extra,
    u <> t -> nth_error l u = Some q -> nth_error (set_nth l t new ++ extra) u = Some q.
  Proof.
    intros. rewrite nth_error_app1.
    - rewrite nth_error_set_nth_neq; auto.
    - rewrite set_nth_length. eapply nth_error_lt; eauto.
  Qed.
  Lemma nth_error_other0 : forall (l : list pc) t new u q,
    u <> t -> nth_error l u = Some q -> nth_error (set_nth l t new) u = Some q.
  Proof. intros. rewrite nth_error_set_nth_neq; auto. Qed.
  Lemma nth_error_self : forall (l : list pc) t new old extra,
    nth_error l t = Some old -> nth_error (set_nth l t new ++ extra) t = Some new.
  Proof.
    intros. rewrite nth_error_app1.
    - eapply nth_error_set_nth_eq; eauto.
    - rewrite set_nth_length. eapply nth_error_lt; eauto.
  Qed.

  (* ----- a job whose execute() was entered and not left is at Job1/Job2 ----- *)
  Lemma inv2_exec : forall c t c', Inv1 c -> Inv2 c -> step' c t = Some c' ->
    forall j q, In (SBegin j q) (ev c') ->
      left (ev c') j \/ exists u k, nth_error (thr c') u = Some (Job1 j q, k) \/ nth_error (thr c') u = Some (Job2 j q, k).
  Proof.
    intros c t c' I I2 Hs jj qq Hin. pose proof (i_exec _ I2 jj qq) as X.
    step_cases Hs I.
    all: marks; simpl hist in *; unfold events in Hin; simpl map in Hin; fold (events (hist c)) in Hin.
    all: unfold events; simpl map; fold (events (hist c)); simpl thr.
    all: destruct Hin as [Heq|Hin];
         [ simpl in Heq; try discriminate Heq;
           try (repeat match type of Heq with context [match ?x with _ => _ end] => destruct x end; discriminate Heq)
         | ].
    (* the new event is this begin: the moving thread is the witness *)
    all: try (inversion Heq; subst; right; exists t; eexists; left; eapply nth_error_set_nth_eq; exact Hp).
    (* older begin *)
    all: destruct (X Hin) as [L|[u [k0 W]]]; [left; apply left_cons; exact L|].
    all: destruct (Nat.eq_dec u t) as [->|Hne];
         [ rewrite Hp in W; destruct W as [W|W]; inversion W; subst
         | right; exists u, k0; destruct W as [W|W]; [left|right];
           first [ apply nth_error_other0; assumption | apply nth_error_other; assumption ] ].
    all: first [ left; unfold left; simpl; tauto
               | right; exists t, k0; right; eapply nth_error_set_nth_eq; exact Hp ].
  Qed.

  Lemma inv2_fifo1 : forall c t c', Inv1 c -> Inv2 c -> step' c t = Some c' ->
    forall older j, earlier (SDeq j :: older) (ev c') -> hd_error (aqueue older) = Some j.
  Proof.
    intros c t c' I I2 Hs older jj He. pose proof (i_fifo1 _ I2 older jj) as X.
    pose proof (i_queue _ I2) as Q.
    step_cases Hs I.
    all: marks; simpl hist in *; unfold events in He; simpl map in He; fold (events (hist c)) in He.
    all: apply earlier_cons in He; destruct He as [[Heq ->]|He]; [|exact (X He)].
    all: simpl in Heq; try discriminate Heq.
    all: try (repeat match type of Heq with context [match ?x with _ => _ end] => destruct x end; discriminate Heq).
    all: destruct (aqueue (ev c)); simpl in Q; inversion Q; subst; simpl in Heq; inversion Heq; reflexivity.
  Qed.

  Lemma inv2_step : forall c t c', Inv1 c -> Inv2 c -> step' c t = Some c' -> Inv2 c'.
  Proof.
    intros c t c' I I2 Hs. constructor.
    - eapply inv2_queue; eauto.
    - eapply inv2_once; eauto.
    - eapply inv2_exec; eauto.
    - eapply inv2_fifo1; eauto.
  Qed.
End Proofs.
