(* Concrete runs of the model: the hypotheses of the C08 theorems are satisfiable (a schedule of
   2 clients x 2 jobs that reaches a quiescent configuration in which every job ran once), and
   the witness of the is_running defect of the pinned tree. *)
From Coq Require Import ZArith List Bool Lia.
From Bardolph Require Import Jobs.Threads Jobs.ThreadsFacts Jobs.JobVocab Jobs.JobControl Jobs.JobControlSpec.
Import ListNotations.
Open Scope list_scope.
Open Scope Z_scope.

Definition ex_bodies : Z -> body := fun j => if j =? 2 then BRaise else BFinish.
Definition ex_clients : list (list op) := [[OAdd 1; OAdd 2]; [OInsert 3; OSpawn 4]].
(* the scheduler's choices: the clients and the job threads are interleaved access by access *)
Definition ex_choices : list Z := [0;1;0;0;1;1;2;0;1;3;2;1;0;1;0;0;1;1;2;0;1;3;2;1;0;1;0;0;1;1;2;0;1;3;2;1;0;1;0;0;1;1;2;0;1;3;2;1].
Definition ex_final : config pc := run_model ex_bodies repaired ex_clients ex_choices.

Lemma ex_distinct : NoDup (created_jobs ex_clients).
Proof. repeat constructor; simpl; intuition discriminate. Qed.

Lemma ex_quiescent : quiescentb pc (code ex_bodies repaired) ex_final = true.
Proof. vm_compute. reflexivity. Qed.

Lemma quiescentb_sound : forall bodies once c, quiescentb pc (code bodies once) c = true -> quiescent pc (code bodies once) c.
Proof. unfold quiescentb, quiescent. intros bodies once c H p Hp. rewrite forallb_forall in H. auto. Qed.

(* all four jobs ran, job 3 (inserted at the front while 1 was running) before job 2, job 2 raised *)
Lemma ex_order : begin_order (events (hist ex_final)) = [1; 3; 2] /\ In (SRaise 2) (events (hist ex_final))
                 /\ In (SBegin 4 false) (events (hist ex_final)) /\ length (hist ex_final) = 68%nat.
Proof. vm_compute. intuition. Qed.

(* the pinned is_running (two unlocked reads): client 0 = add_job(1); is_running(2), client 1 =
   spawn_job(2).  Client 0 runs add_job and the first read of _active_agent (= job 1); client 1
   registers and starts background job 2; job 1's thread finishes and resets _active_agent;
   client 0's second read is None -> AttributeError, while job 2 is registered. *)
Definition bad_clients : list (list op) := [[OAdd 1; OIsRunning 2]; [OSpawn 2]].
Definition bad_schedule : list nat :=
  repeat 0%nat 14 ++ repeat 1%nat 5 ++ repeat 2%nat 4 ++ [0%nat; 0%nat].
Definition bad_final : config pc := jc_run (fun _ => BFinish) pinned (jc_init bad_clients) bad_schedule.

Lemma bad_distinct : NoDup (created_jobs bad_clients).
Proof. repeat constructor; simpl; intuition discriminate. Qed.

Lemma bad_witness :
  exists older, hist bad_final = (0%nat, LMark mk_exc (VExc AttributeError), VExc AttributeError) :: older
                /\ registered (events older) 2.
Proof.
  eexists. split.
  - vm_compute. reflexivity.
  - unfold registered. vm_compute. intuition discriminate.
Qed.

(* the two statements in the form Props/C08.v quotes them *)
Lemma is_running_refuted :
  exists clients schedule older,
    NoDup (created_jobs clients) /\
    hist (jc_run (fun _ => BFinish) pinned (jc_init clients) schedule) =
      (0%nat, LMark mk_exc (VExc AttributeError), VExc AttributeError) :: older /\
    nth_error clients 0 = Some [OAdd 1; OIsRunning 2] /\
    registered (events older) 2.
Proof.
  exists bad_clients, bad_schedule. eexists.
  split; [exact bad_distinct|]. split; [vm_compute; reflexivity|]. split; [reflexivity|].
  unfold registered. vm_compute. intuition discriminate.
Qed.

Lemma nonvacuous :
  NoDup (created_jobs ex_clients) /\
  jc_reachable ex_bodies repaired ex_clients ex_final /\
  quiescent pc (code ex_bodies repaired) ex_final /\
  begin_order (events (hist ex_final)) = [1; 3; 2] /\ In (SRaise 2) (events (hist ex_final)) /\
  In (SBegin 4 false) (events (hist ex_final)) /\ length (hist ex_final) = 68%nat.
Proof.
  split; [exact ex_distinct|]. split; [exact (run_picks_reachable _ _ _ _ _ _ (reach_init _ _ _))|].
  split; [exact (quiescentb_sound _ _ _ ex_quiescent)|]. vm_compute. intuition.
Qed.
