(* Access programs of bardolph/lib/job_control.py (JobControl, Agent) over Jobs/Threads.v:
   every method is written as the sequence of SHARED accesses the Python performs, in its
   order, with the branches the Python takes on the values read.

     lock 0  = JobControl._lock (RLock; the 1 s acquisition time-out is modelled as blocking)
     field 0 = JobControl._active_agent        deque 0 = JobControl._queue
     dict 0  = JobControl._background (key = name; the name of job j is j)
     flag j  = "stop requested" of job j (what Job.request_stop sets)

   A program counter is (point, continuation).  The continuation is the stack of pending
   `finally: release` clauses (KRel), the value an enclosing call returns (KRetV), and at
   the bottom either the rest of a client's calls or the end of a job thread.  An exception
   unwinds the continuation, releasing the lock once per KRel (try/finally).
   Model file: definitions only. *)
From Coq Require Import ZArith List Bool.
From Bardolph Require Import Jobs.Threads Jobs.JobVocab.
Import ListNotations.
Open Scope list_scope.
Open Scope Z_scope.

Inductive body := BFinish | BRaise | BWait.      (* Job.execute: returns | raises | runs until stopped *)

(* calls a client thread issues *)
Inductive op :=
| OAdd (j : Z) | OInsert (j : Z) | OSpawn (j : Z)
| OClear | OStop (j : Z)                     (* OStop: job.request_stop() issued from outside *)
| OStopJob (n : Z)                           (* JobControl.stop_job(name) *)
| OHasJobs | OIsRunning (n : Z) | OGetCurrent | OGetQueued.

Inductive kont :=
| KClient (ops : list op)        (* back in the client: remaining calls *)
| KJob                           (* bottom of a job thread (Agent._execute_and_call) *)
| KRel (k : kont)                (* finally: self._lock.release() *)
| KRetV (v : val) (k : kont).    (* the enclosing public method returns v *)

Inductive point :=
| Ret | RetV (v : val) | RelV (v : val) | Unw (e : exc)
(* _enqueue_job(job, append_fn, name) *)
| Enq0 (j : Z) (front : bool) | Enq1 (j : Z) (front : bool) | Enq2
(* _run_next_job *)
| Run0 | Run1 | Run2 | Run3 | Run4 (a : Z) | Run5 (a : Z) | Run6 (a : Z)
(* _on_execution_done *)
| Done0 (j : Z) | Done1 (j : Z) | Done2
(* spawn_job, _on_background_done *)
| Sp0 (j : Z) | Sp1 (j : Z) | Sp2 (j : Z) | Bg0 (j : Z) | Bg1 (j : Z)
(* Agent._execute_and_call: try: job.execute() finally: callback(self) *)
| Job0 (j : Z) (q : bool) | Job1 (j : Z) (q : bool) | Job2 (j : Z) (q : bool)
(* clear_queue, has_jobs, is_running, get_current, get_queued, request_stop, stop_job *)
| Clear0 | Clear1 | Has0 | Has1 | Has2 | Isr0 (n : Z) | Isr1 (n : Z) | Isr2 (n : Z) | Cur0 | Qd0 | Stop0 (j : Z)
| Sj0 (n : Z) | Sj1 (n : Z) | Sj2 (n : Z) | Sj3 | Sj4 (n : Z) | Sj5 (n : Z) | Sj6 (a : Z).

Definition pc := (point * kont)%type.

(* which of the repaired methods the tree under test has (probed by the harness) *)
Record variant := {
  isr_once : bool;       (* is_running reads _active_agent once into a local (D40) / twice (pinned) *)
  clear_locked : bool    (* clear_queue takes the controller's lock (D46) / is one unlocked clear (pinned) *)
}.
Definition pinned : variant := {| isr_once := false; clear_locked := false |}.
Definition repaired : variant := {| isr_once := true; clear_locked := true |}.

Definition enter (o : op) (r : list op) : pc :=
  match o with
  | OAdd j => (Enq0 j false, KRetV (VRef j) (KClient r))
  | OInsert j => (Enq0 j true, KRetV (VRef j) (KClient r))
  | OSpawn j => (Sp0 j, KRetV (VRef j) (KClient r))
  | OClear => (Clear0, KClient r)
  | OStop j => (Stop0 j, KClient r)
  | OStopJob n => (Sj0 n, KClient r)
  | OHasJobs => (Has0, KClient r)
  | OIsRunning n => (Isr0 n, KClient r)
  | OGetCurrent => (Cur0, KClient r)
  | OGetQueued => (Qd0, KClient r)
  end.

(* normal return into k: a client goes straight on to its next call *)
Definition ret_to (k : kont) : pc :=
  match k with
  | KClient (o :: r) => enter o r
  | _ => (Ret, k)
  end.

(* an exception propagating into k: return values of enclosing calls are dropped *)
Fixpoint unw_to (e : exc) (k : kont) : pc :=
  match k with
  | KRetV _ k' => unw_to e k'
  | _ => (Unw e, k)
  end.

Definition is_none (v : val) : bool := match v with VNone => true | _ => false end.
Definition positive_num (v : val) : bool := match v with VNum n => 0 <? n | _ => false end.

Section Code.
  Variable bodies : Z -> body.
  Variable v : variant.

  Definition code (p : pc) : instr pc :=
    let (pt, k) := p in
    match pt with
    | Ret =>
        match k with
        | KRel k' => Do (LRelease 0) (fun _ => ret_to k')
        | KRetV v k' => Do (LMark mk_ret v) (fun _ => ret_to k')
        | KClient _ => Done
        | KJob => Done
        end
    | RetV v => Do (LMark mk_ret v) (fun _ => ret_to k)
    | RelV v =>
        match k with
        | KRel k' => Do (LRelease 0) (fun _ => (RetV v, k'))
        | _ => Done
        end
    | Unw e =>
        match k with
        | KRel k' => Do (LRelease 0) (fun _ => unw_to e k')
        | KClient _ => Do (LMark mk_exc (VExc e)) (fun _ => ret_to k)
        | KJob => Done                     (* the thread dies of e *)
        | KRetV _ _ => Done                (* not produced by unw_to *)
        end
    (* def _enqueue_job: if self._acquire_lock(): try: agent = Agent(..); append_fn(agent);
         if self._active_agent is None: self._run_next_job()  finally: self._lock.release() *)
    | Enq0 j f => Do (LAcquire 0) (fun _ => (Enq1 j f, KRel k))
    | Enq1 j f => Do (if f then LDqAppendLeft 0 (VRef j) else LDqAppend 0 (VRef j)) (fun _ => (Enq2, k))
    | Enq2 => Do (LRead 0) (fun v => if is_none v then (Run0, k) else ret_to k)
    (* def _run_next_job: if self._acquire_lock(): try:
         if self._active_agent is None and len(self._queue) > 0:
             self._active_agent = self._queue.popleft(); self._active_agent.execute()
         finally: self._release_lock() *)
    | Run0 => Do (LAcquire 0) (fun _ => (Run1, KRel k))
    | Run1 => Do (LRead 0) (fun v => if is_none v then (Run2, k) else ret_to k)
    | Run2 => Do (LDqLen 0) (fun v => if positive_num v then (Run3, k) else ret_to k)
    | Run3 => Do (LDqPopLeft 0)
                 (fun v => match v with
                           | VRef a => (Run4 a, k)
                           | VExc e => unw_to e k
                           | _ => unw_to AttributeError k
                           end)
    | Run4 a => Do (LWrite 0 (VRef a)) (fun _ => (Run5 a, k))
    | Run5 a => Do (LRead 0)
                   (fun v => match v with
                             | VRef a' => (Run6 a', k)        (* Agent.execute of what was read *)
                             | _ => unw_to AttributeError k
                             end)
    | Run6 a => Spawn (Job0 a true, KJob) (ret_to k)
    (* def _on_execution_done: if self._acquire_lock(): try: self._active_agent = None
         finally: self._release_lock()
         self._run_next_job() *)
    | Done0 j => Do (LAcquire 0) (fun _ => (Done1 j, KRel k))
    | Done1 j => Do (LWrite 0 VNone) (fun _ => (Done2, k))
    | Done2 =>
        match k with
        | KRel k' => Do (LRelease 0) (fun _ => (Run0, k'))
        | _ => Done
        end
    (* def spawn_job: acquire; agent = Agent(job, self._on_background_done, name);
         self._background[agent.name] = agent; agent.execute(); finally release *)
    | Sp0 j => Do (LAcquire 0) (fun _ => (Sp1 j, KRel k))
    | Sp1 j => Do (LDictSet 0 j (VRef j)) (fun _ => (Sp2 j, k))
    | Sp2 j => Spawn (Job0 j false, KJob) (ret_to k)
    (* def _on_background_done: acquire; del self._background[agent.name]; finally release *)
    | Bg0 j => Do (LAcquire 0) (fun _ => (Bg1 j, KRel k))
    | Bg1 j => Do (LDictDel 0 j) (fun v => match v with VExc e => unw_to e k | _ => ret_to k end)
    (* Agent._execute_and_call: try: self._job.execute() finally: self._callback(self) *)
    | Job0 j q => Do (LMark (if q then mk_begin_q else mk_begin_bg) (VRef j)) (fun _ => (Job1 j q, k))
    | Job1 j q =>
        match bodies j with
        | BFinish => Do (LMark mk_end (VRef j)) (fun _ => (if q then Done0 j else Bg0 j, k))
        | BRaise => Do (LMark mk_raise (VRef j)) (fun _ => (if q then Done0 j else Bg0 j, k))
        | BWait => Do (LFlagWait j) (fun _ => (Job2 j q, k))
        end
    | Job2 j q => Do (LMark mk_end (VRef j)) (fun _ => (if q then Done0 j else Bg0 j, k))
    (* def clear_queue: self._queue.clear()                       (pinned)
       def clear_queue: acquire; try: self._queue.clear() finally: release   (D46) *)
    | Clear0 =>
        if clear_locked v
        then Do (LAcquire 0) (fun _ => (Clear1, KRel k))
        else Do (LDqClear 0) (fun _ => (RetV VNone, k))
    | Clear1 => Do (LDqClear 0) (fun _ => (RelV VNone, k))
    (* def has_jobs: len(self._queue) > 0 or len(self._background) > 0 or self._active_agent is not None *)
    | Has0 => Do (LDqLen 0) (fun v => if positive_num v then (RetV (VBool true), k) else (Has1, k))
    | Has1 => Do (LDictLen 0) (fun v => if positive_num v then (RetV (VBool true), k) else (Has2, k))
    | Has2 => Do (LRead 0) (fun v => (RetV (VBool (negb (is_none v))), k))
    (* def is_running(name): if self._active_agent is not None and self._active_agent.name == name:
         return True;  return name in self._background *)
    | Isr0 n =>
        if isr_once v
        then Do (LRead 0) (fun v => match v with
                                    | VRef a => if a =? n then (RetV (VBool true), k) else (Isr2 n, k)
                                    | _ => (Isr2 n, k)
                                    end)
        else Do (LRead 0) (fun v => if is_none v then (Isr2 n, k) else (Isr1 n, k))
    | Isr1 n => Do (LRead 0)
                   (fun v => match v with
                             | VRef a => if a =? n then (RetV (VBool true), k) else (Isr2 n, k)
                             | _ => unw_to AttributeError k     (* None.name *)
                             end)
    | Isr2 n => Do (LDictHas 0 n) (fun v => (RetV v, k))
    | Cur0 => Do (LRead 0) (fun v => (RetV v, k))
    | Qd0 => Do (LDqList 0) (fun v => (RetV v, k))
    | Stop0 j => Do (LFlagSet j) (fun _ => (RetV VNone, k))
    (* def stop_job(name): acquire; if active is not None and active.name == name:
         active.request_stop(); True  elif name in bg: bg[name].request_stop(); True; finally release *)
    | Sj0 n => Do (LAcquire 0) (fun _ => (Sj1 n, KRel k))
    | Sj1 n => Do (LRead 0) (fun v => if is_none v then (Sj4 n, k) else (Sj2 n, k))
    | Sj2 n => Do (LRead 0)
                  (fun v => match v with
                            | VRef a => if a =? n then (Sj3, k) else (Sj4 n, k)
                            | _ => unw_to AttributeError k
                            end)
    | Sj3 => Do (LRead 0)
                (fun v => match v with VRef a => (Sj6 a, k) | _ => unw_to AttributeError k end)
    | Sj4 n => Do (LDictHas 0 n)
                  (fun v => match v with VBool true => (Sj5 n, k) | _ => (RelV (VBool false), k) end)
    | Sj5 n => Do (LDictGet 0 n)
                  (fun v => match v with
                            | VRef a => (Sj6 a, k)
                            | VExc e => unw_to e k
                            | _ => unw_to AttributeError k
                            end)
    | Sj6 a => Do (LFlagSet a) (fun _ => (RelV (VBool true), k))
    end.

  Definition client (ops : list op) : pc := ret_to (KClient ops).
  Definition jc_init (clients : list (list op)) : config pc := init pc (map client clients).
  Definition jc_step := step pc code.
  Definition jc_run := run pc code.
  Definition jc_reachable (clients : list (list op)) := reachable pc code (jc_init clients).

  (* the run of harness/sched.py on a scenario: choices, then lowest enabled thread to the end *)
  Definition run_model (clients : list (list op)) (choices : list Z) : config pc :=
    run_picks pc code 2000 (jc_init clients) choices.
End Code.

(* the job numbers a scenario creates (the property is about distinct jobs / names) *)
Definition created (o : op) : list Z :=
  match o with OAdd j | OInsert j | OSpawn j => [j] | _ => [] end.
Definition created_jobs (clients : list (list op)) : list Z := flat_map (flat_map created) clients.

(* what the controller's fields say *)
Definition active_of (c : config pc) : val := fields (sh c) 0%nat.
Definition queue_of (c : config pc) : list val := deques (sh c) 0%nat.
Definition background_of (c : config pc) : list (Z * val) := dicts (sh c) 0%nat.
Definition has_jobs_of (c : config pc) : bool :=
  negb (Nat.eqb (length (queue_of c)) 0) || negb (Nat.eqb (length (background_of c)) 0)
  || negb (is_none (active_of c)).
