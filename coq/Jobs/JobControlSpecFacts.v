(* What the executable monitor of Jobs/JobControlSpec.v (the oracle that the harness runs on the
   event log of the REAL JobControl) guarantees: a history the monitor accepts satisfies the
   declarative predicates.  Independent of the access programs. *)
From Coq Require Import ZArith List Bool Lia Arith.
From Bardolph Require Import Jobs.Threads Jobs.JobVocab Jobs.JobControlSpec.
Import ListNotations.
Open Scope list_scope.
Open Scope nat_scope.

Lemma chk_nil : forall b code bad, chk b code bad = [] -> b = true /\ bad = [].
Proof. unfold chk. destruct b; intros; auto. discriminate. Qed.

Lemma memz_In : forall j l, memz j l = true <-> In j l.
Proof.
  unfold memz. intros. rewrite existsb_exists. split.
  - intros [x [H1 H2]]. apply Z.eqb_eq in H2. subst. auto.
  - intros H. exists j. split; auto. apply Z.eqb_refl.
Qed.
Lemma remz_In : forall j x l, In x (remz j l) <-> In x l /\ x <> j.
Proof.
  unfold remz. intros. rewrite filter_In. split; intros [H1 H2]; split; auto.
  - apply negb_true_iff in H2. apply Z.eqb_neq in H2. auto.
  - apply negb_true_iff. apply Z.eqb_neq. auto.
Qed.
Lemma remz_length : forall j l, length (remz j l) <= length l.
Proof. unfold remz. induction l; simpl; auto. destruct (negb (a =? j)%Z); simpl; lia. Qed.

Definition is_begin' (e : sev) (j : Z) : nat :=
  match e with SBegin i _ => if Z.eq_dec i j then 1 else 0 | _ => 0 end.
Lemma exec_count_cons' : forall e es j, exec_count (e :: es) j = is_begin' e j + exec_count es j.
Proof.
  intros. unfold exec_count. simpl.
  destruct (sev_eq_dec e (SBegin j true)) as [E1|N1]; destruct (sev_eq_dec e (SBegin j false)) as [E2|N2];
    try congruence; subst; simpl.
  - destruct (Z.eq_dec j j); try congruence. lia.
  - destruct (Z.eq_dec j j); try congruence. lia.
  - destruct e; simpl; auto. destruct (Z.eq_dec j0 j); auto. subst. destruct q; congruence.
Qed.

Record MonInv (es : list sev) (s : astate) : Prop := {
  m_queue : a_queue s = aqueue es;
  m_exec : forall j, executing_queued es j -> In j (a_exec s);
  m_exec1 : length (a_exec s) <= 1;
  m_begun : forall j q, In (SBegin j q) es -> In j (a_begun s);
  m_count : forall j, exec_count es j <= 1 /\ (exec_count es j = 1 -> In j (a_begun s));
  m_order : deq_order es = begin_order es ++ a_pending s;
  m_heads : forall older j, earlier (SDeq j :: older) es -> hd_error (aqueue older) = Some j
}.

Lemma earlier_cons' : forall x older e es,
  earlier (x :: older) (e :: es) -> (x = e /\ older = es) \/ earlier (x :: older) es.
Proof.
  intros x older e es [newer H]. destruct newer; simpl in H.
  - inversion H. auto.
  - inversion H. right. exists newer. auto.
Qed.

Lemma monitor_inv : forall es, a_bad (monitor es) = [] -> a_bad (monitor es) = [] /\ MonInv es (monitor es).
Proof.
  induction es as [|e es IH]; intros B.
  - split; auto. constructor; simpl.
    + reflexivity.
    + intros j [H _]. destruct H.
    + lia.
    + intros j q H. destruct H.
    + intros j. unfold exec_count. simpl. split; [lia | discriminate].
    + reflexivity.
    + intros older j [newer H]. destruct newer; discriminate.
  - simpl in B.
    assert (B' : a_bad (monitor es) = [] /\
                 match e with
                 | SDeq j => match a_queue (monitor es) with x :: _ => (x =? j)%Z = true | [] => False end
                 | SBegin j true => a_exec (monitor es) = [] /\
                                    (match a_pending (monitor es) with x :: _ => (x =? j)%Z = true | [] => False end) /\
                                    memz j (a_begun (monitor es)) = false
                 | SBegin j false => memz j (a_begun (monitor es)) = false
                 | _ => True
                 end).
    { destruct e as [j|j| |j| |j [|]|j|j|j|j|j b| ]; simpl in B;
        repeat match goal with H : chk _ _ _ = [] |- _ => apply chk_nil in H; destruct H end;
        (split; [assumption|]); auto.
      - destruct (a_queue (monitor es)); auto; discriminate.
      - split; [destruct (a_exec (monitor es)); auto; discriminate|].
        split; [destruct (a_pending (monitor es)); auto; discriminate|].
        apply negb_true_iff; auto.
      - apply negb_true_iff; auto. }
    destruct B' as [B0 C]. destruct (IH B0) as [_ M]. split; [exact B|].
    remember (monitor es) as s eqn:Es.
    assert (LC : forall j, left (e :: es) j <-> (e = SEnd j \/ e = SRaise j) \/ left es j).
    { intros j. unfold left. simpl. tauto. }
    constructor.
    + (* queue *) simpl. rewrite <- Es. destruct e as [j|j| |j| |j [|]|j|j|j|j|j b| ]; simpl; try exact (m_queue _ _ M);
        try (rewrite (m_queue _ _ M); reflexivity); try reflexivity.
    + (* executing *) intros j [Hb Hl]. simpl. rewrite <- Es.
      assert (Old : In (SBegin j true) es -> ~ left es j -> In j (a_exec s)).
      { intros. apply (m_exec _ _ M). split; auto. }
      destruct e; simpl in *; try (destruct Hb as [Hb|Hb]; [discriminate|]; apply Old; auto; unfold left in *; simpl in *; tauto).
      * destruct q; simpl.
        -- destruct Hb as [Hb|Hb]; [inversion Hb; auto|]. right. apply Old; auto. unfold left in *; simpl in *; tauto.
        -- destruct Hb as [Hb|Hb]; [discriminate|]. apply Old; auto. unfold left in *; simpl in *; tauto.
      * destruct Hb as [Hb|Hb]; [discriminate|]. apply remz_In. split.
        -- apply Old; auto. unfold left in *; simpl in *; tauto.
        -- intros ->. apply Hl. unfold left. simpl. auto.
      * destruct Hb as [Hb|Hb]; [discriminate|]. apply remz_In. split.
        -- apply Old; auto. unfold left in *; simpl in *; tauto.
        -- intros ->. apply Hl. unfold left. simpl. auto.
    + (* at most one executing *) simpl. rewrite <- Es. pose proof (m_exec1 _ _ M) as L.
      destruct e; simpl; auto; try (pose proof (remz_length j (a_exec s)); lia).
      destruct q; simpl; auto. destruct C as [C _]. rewrite C. simpl. lia.
    + (* begun *) intros j q Hin. simpl. rewrite <- Es. simpl in Hin.
      destruct Hin as [Heq|Hin].
      * subst e. destruct q; simpl; auto.
      * pose proof (m_begun _ _ M j q Hin). destruct e; simpl; auto. destruct q0; simpl; auto.
    + (* count *) intros j. rewrite exec_count_cons'. simpl. rewrite <- Es.
      destruct (m_count _ _ M j) as [C1 C2].
      destruct e; simpl; try (split; [lia | intros H; apply C2; lia]).
      destruct (Z.eq_dec j0 j) as [->|Hne].
      * assert (N : ~ In j (a_begun s)).
        { intros H. apply memz_In in H. destruct q; [destruct C as [_ [_ C]]|]; congruence. }
        assert (exec_count es j = 0).
        { destruct (exec_count es j) as [|[|n]] eqn:E; auto; [exfalso; apply N; apply C2; auto | lia]. }
        split; [lia|]. intros _. destruct q; simpl; auto.
      * split; [lia|]. intros H. destruct q; simpl; right; apply C2; lia.
    + (* order *) simpl. rewrite <- Es. pose proof (m_order _ _ M) as O.
      unfold deq_order, begin_order in *. simpl. rewrite !rev_app_distr.
      destruct e; simpl; rewrite ?app_nil_r; try exact O.
      * rewrite O. rewrite app_assoc. reflexivity.
      * destruct q; simpl; rewrite ?app_nil_r; try exact O.
        destruct C as [_ [C _]]. destruct (a_pending s) as [|x r]; [contradiction|].
        apply Z.eqb_eq in C. subst x. simpl. rewrite O. rewrite <- app_assoc. reflexivity.
    + (* heads *) intros older j He. apply earlier_cons' in He. destruct He as [[Heq ->]|He].
      * subst e. rewrite <- (m_queue _ _ M). destruct (a_queue s); [contradiction|].
        apply Z.eqb_eq in C. subst. reflexivity.
      * exact (m_heads _ _ M older j He).
Qed.

(* The oracle's meaning: an accepted history satisfies mutual exclusion, exactly-once (never twice),
   "each start takes the head of the queue", and jobs begin in the order in which they were
   taken (the jobs taken and not yet begun are the monitor's pending list). *)
Theorem accepted_sound : forall h, accepted h ->
  mutex (events h) /\ at_most_once (events h) /\
  (forall older j, earlier (SDeq j :: older) (events h) -> hd_error (aqueue older) = Some j) /\
  (exists pending, deq_order (events h) = begin_order (events h) ++ pending).
Proof.
  intros h A. unfold accepted in A. destruct (monitor_inv _ A) as [_ M].
  split; [|split; [|split]].
  - intros j1 j2 H1 H2. pose proof (m_exec _ _ M _ H1) as I1. pose proof (m_exec _ _ M _ H2) as I2.
    pose proof (m_exec1 _ _ M) as L.
    destruct (a_exec (monitor (events h))) as [|x [|y r]]; simpl in *; try contradiction; try lia;
      intuition congruence.
  - intros j. apply (m_count _ _ M j).
  - exact (m_heads _ _ M).
  - exists (a_pending (monitor (events h))). exact (m_order _ _ M).
Qed.
