(* Third group of inductive invariants: background jobs (registration dictionary vs. history
   and threads). *)
From Coq Require Import ZArith List Bool Lia Arith.
From Bardolph Require Import Jobs.Threads Jobs.ThreadsFacts Jobs.JobVocab Jobs.JobControl Jobs.JobControlSpec Jobs.JobControlInv Jobs.JobControlInv2.
Import ListNotations.
Open Scope list_scope.
Open Scope nat_scope.

Lemma dict_has_set : forall d k v j, dict_has (dict_set d k v) j = (Z.eqb k j || dict_has d j)%bool.
Proof.
  induction d as [|[k' v'] d]; simpl; intros.
  - destruct (Z.eqb k j); auto.
  - destruct (Z.eqb_spec k' k).
    + subst. simpl. destruct (Z.eqb k j); auto.
    + simpl. rewrite IHd. destruct (Z.eqb_spec k' j); destruct (Z.eqb_spec k j); auto.
Qed.
Lemma dict_has_del : forall d k j, dict_has (dict_del d k) j = (negb (Z.eqb k j) && dict_has d j)%bool.
Proof.
  unfold dict_del. induction d as [|[k' v'] d]; simpl; intros.
  - rewrite andb_false_r. auto.
  - destruct (Z.eqb_spec k' k); simpl.
    + subst. rewrite IHd. destruct (Z.eqb_spec k j); simpl; auto.
    + rewrite IHd. destruct (Z.eqb_spec k' j); destruct (Z.eqb_spec k j); simpl; auto; congruence.
Qed.
Lemma dict_has_none : forall d, (forall j, dict_has d j = false) -> d = [].
Proof.
  destruct d as [|[k v] d]; auto. intros H. specialize (H k). simpl in H. rewrite Z.eqb_refl in H. discriminate.
Qed.

(* the threads that stand for a registered background job j *)
Definition bg_of (pt : point) : option Z :=
  match pt with
  | Sp2 j | Job0 j false | Job1 j false | Job2 j false | Bg0 j | Bg1 j => Some j
  | _ => None
  end.
Definition after_of (pt : point) : option Z := match pt with Bg0 j | Bg1 j => Some j | _ => None end.

Definition spawns (o : op) (j : Z) : nat := match o with OSpawn i => if Z.eq_dec i j then 1 else 0 | _ => 0 end.
Fixpoint tokBops (j : Z) (ops : list op) : nat :=
  match ops with [] => 0 | o :: r => spawns o j + tokBops j r end.
Fixpoint tokBk (j : Z) (k : kont) : nat :=
  match k with KClient ops => tokBops j ops | KJob => 0 | KRel k' => tokBk j k' | KRetV _ k' => tokBk j k' end.
Definition tokBpt (j : Z) (pt : point) : nat :=
  match pt with
  | Sp0 i | Sp1 i | Sp2 i | Job0 i false | Job1 i false | Job2 i false | Bg0 i | Bg1 i =>
      if Z.eq_dec i j then 1 else 0
  | _ => 0
  end.
Definition tokB (j : Z) (p : pc) : nat := tokBpt j (fst p) + tokBk j (snd p).

Lemma tokB_enter : forall j o r, tokB j (enter o r) = spawns o j + tokBops j r.
Proof. destruct o; simpl; intros; unfold tokB; simpl; lia. Qed.
Lemma tokB_ret_to : forall j k, tokB j (ret_to k) = tokBk j k.
Proof. destruct k; simpl; auto. destruct ops; simpl; auto. rewrite tokB_enter. auto. Qed.
Lemma tokB_unw_to : forall j e k, tokB j (unw_to e k) = tokBk j k.
Proof. induction k; simpl; auto. Qed.
Lemma bgof_ret_to : forall k, bg_of (fst (ret_to k)) = None.
Proof. destruct k; simpl; auto. destruct ops; simpl; auto. destruct o; simpl; auto. Qed.
Lemma bgof_unw_to : forall e k, bg_of (fst (unw_to e k)) = None.
Proof. induction k; simpl; auto. Qed.
Lemma bgof_enter : forall o r, bg_of (fst (enter o r)) = None.
Proof. destruct o; reflexivity. Qed.
Lemma afterof_ret_to : forall k, after_of (fst (ret_to k)) = None.
Proof. destruct k; simpl; auto. destruct ops; simpl; auto. destruct o; simpl; auto. Qed.
Lemma afterof_unw_to : forall e k, after_of (fst (unw_to e k)) = None.
Proof. induction k; simpl; auto. Qed.
Lemma afterof_enter : forall o r, after_of (fst (enter o r)) = None.
Proof. destruct o; reflexivity. Qed.
Lemma bgof_tokB : forall pt k jj, bg_of pt = Some jj -> 1 <= tokB jj (pt, k).
Proof.
  intros pt k jj H. destruct pt; simpl in H; try discriminate; try (destruct q; try discriminate);
    inversion H; subst; unfold tokB; simpl; destruct (Z.eq_dec jj jj); try congruence; lia.
Qed.

Lemma count_forget_cons : forall e es j,
  count_occ sev_eq_dec (e :: es) (SBgForget j) =
  (match e with SBgForget i => if Z.eq_dec i j then 1 else 0 | _ => 0 end) + count_occ sev_eq_dec es (SBgForget j).
Proof.
  intros. simpl. destruct (sev_eq_dec e (SBgForget j)) as [->|N].
  - destruct (Z.eq_dec j j); try congruence. lia.
  - destruct e; simpl; auto. destruct (Z.eq_dec j0 j); auto. subst. congruence.
Qed.

Record Inv3 (c : config pc) : Prop := {
  b_tok : forall j, wsum (tokB j) (thr c) + count_occ sev_eq_dec (ev c) (SBgForget j) <= 1;
  b_reg : forall u q j, nth_error (thr c) u = Some q -> bg_of (fst q) = Some j -> In (SBgReg j) (ev c);
  b_left : forall u q j, nth_error (thr c) u = Some q -> after_of (fst q) = Some j -> left (ev c) j;
  b_dict : forall j, dict_has (bgd c) j = true <-> In (SBgReg j) (ev c) /\ ~ In (SBgForget j) (ev c);
  b_wit : forall j, dict_has (bgd c) j = true -> exists u q, nth_error (thr c) u = Some q /\ bg_of (fst q) = Some j;
  b_forget : forall older j, earlier (SBgForget j :: older) (ev c) -> left older j;
  b_ask : forall older j b, earlier (SAsk j b :: older) (ev c) ->
            (b = true <-> In (SBgReg j) older /\ ~ In (SBgForget j) older)
}.

Section Proofs.
  Variable bodies : Z -> body.
  Variable vr : variant.
  Notation code' := (code bodies vr).
  Notation step' := (step pc code').
  Ltac marks := unfold mk_begin_q, mk_begin_bg, mk_end, mk_raise, mk_ret, mk_exc in *.

  Lemma inv3_tok : forall c t c', Inv1 c -> Inv3 c -> step' c t = Some c' ->
    forall j, wsum (tokB j) (thr c') + count_occ sev_eq_dec (ev c') (SBgForget j) <= 1.
  Proof.
    intros c t c' I I3 Hs jj. pose proof (b_tok _ I3 jj) as O.
    step_cases Hs I.
    all: marks; simpl hist; simpl thr; try rewrite wsum_app;
         match goal with |- context [set_nth (thr ?c0) ?t0 ?new] =>
           pose proof (wsum_set_nth _ (tokB jj) (thr c0) t0 new _ Hp) as W end.
    all: unfold events; simpl map; fold (events (hist c)); rewrite count_forget_cons.
    all: repeat match type of W with context [tokB _ (match ?x with _ => _ end)] => destruct x eqn:? end.
    all: try rewrite tokB_ret_to in W; try rewrite tokB_unw_to in W; try rewrite tokB_enter in W.
    all: unfold wsum, tokB in *; simpl in *.
    all: try lia.
  Qed.

  Lemma inv3_reg : forall c t c', Inv1 c -> Inv3 c -> step' c t = Some c' ->
    forall u q j, nth_error (thr c') u = Some q -> bg_of (fst q) = Some j -> In (SBgReg j) (ev c').
  Proof.
    intros c t c' I I3 Hs. step_cases Hs I.
    all: intros uu qq jj Hu Hn; simpl thr in Hu.
    all: marks; simpl hist; unfold events; simpl map; fold (events (hist c)).
    all: try (match type of Hu with nth_error (_ ++ _) _ = _ =>
                apply nth_error_app_one in Hu; destruct Hu as [[_ Hu]|[-> ->]];
                [| simpl in Hn; first [ discriminate Hn
                                      | inversion Hn; subst; right; eapply (b_reg _ I3); [exact Hp | reflexivity] ] ] end).
    all: eapply nth_error_set_nth in Hu; [|exact Hp]; destruct Hu as [[-> ->]|[Hne Hu]];
         [| right; eapply (b_reg _ I3); [exact Hu | exact Hn] ].
    all: simpl fst in Hn;
         repeat match type of Hn with context [bg_of (fst (match ?x with _ => _ end))] => destruct x eqn:? end;
         try rewrite bgof_ret_to in Hn; try rewrite bgof_unw_to in Hn; try rewrite bgof_enter in Hn;
         simpl in Hn; try discriminate Hn.
    all: first [ inversion Hn; subst; left; reflexivity
               | right; eapply (b_reg _ I3); [exact Hp | exact Hn] ].
  Qed.

  Lemma inv3_left : forall c t c', Inv1 c -> Inv3 c -> step' c t = Some c' ->
    forall u q j, nth_error (thr c') u = Some q -> after_of (fst q) = Some j -> left (ev c') j.
  Proof.
    intros c t c' I I3 Hs. step_cases Hs I.
    all: intros uu qq jj Hu Hn; simpl thr in Hu.
    all: marks; simpl hist; unfold events; simpl map; fold (events (hist c)).
    all: try (match type of Hu with nth_error (_ ++ _) _ = _ =>
                apply nth_error_app_one in Hu; destruct Hu as [[_ Hu]|[-> ->]];
                [| simpl in Hn; discriminate Hn ] end).
    all: eapply nth_error_set_nth in Hu; [|exact Hp]; destruct Hu as [[-> ->]|[Hne Hu]];
         [| apply left_cons; eapply (b_left _ I3); [exact Hu | exact Hn] ].
    all: simpl fst in Hn;
         repeat match type of Hn with context [after_of (fst (match ?x with _ => _ end))] => destruct x eqn:? end;
         try rewrite afterof_ret_to in Hn; try rewrite afterof_unw_to in Hn; try rewrite afterof_enter in Hn;
         simpl in Hn; try discriminate Hn.
    all: first [ inversion Hn; subst; unfold left; simpl; tauto
               | apply left_cons; eapply (b_left _ I3); [exact Hp | exact Hn] ].
  Qed.

  Lemma not_forgotten : forall c t pt k j, Inv3 c -> nth_error (thr c) t = Some (pt, k) ->
    1 <= tokBpt j pt -> ~ In (SBgForget j) (ev c).
  Proof.
    intros c t pt k j I3 Hp H. pose proof (b_tok _ I3 j) as B.
    pose proof (wsum_nth_le _ (tokB j) _ _ _ Hp) as W. unfold tokB in W at 1. simpl in W.
    apply (count_occ_not_In sev_eq_dec). lia.
  Qed.

  Lemma inv3_dict : forall c t c', Inv1 c -> Inv3 c -> step' c t = Some c' ->
    forall j, dict_has (bgd c') j = true <-> In (SBgReg j) (ev c') /\ ~ In (SBgForget j) (ev c').
  Proof.
    intros c t c' I I3 Hs jj. pose proof (b_dict _ I3 jj) as D.
    step_cases Hs I.
    all: marks; simpl hist; unfold events; simpl map; fold (events (hist c)); simpl sh; simpl dicts; unfold updn; simpl.
    all: try (match goal with |- context [abs (_, LDqPopLeft _, ?r)] => destruct r end); simpl abs.
    all: try (rewrite D; intuition discriminate).
    - destruct r; rewrite D; intuition discriminate.
    - rewrite dict_has_set. destruct (Z.eqb_spec j jj) as [->|Hne]; simpl.
      + pose proof (not_forgotten c t _ _ jj I3 Hp) as NF. simpl in NF.
        destruct (Z.eq_dec jj jj); try congruence. specialize (NF (le_n 1)).
        intuition discriminate.
      + rewrite D. intuition (try discriminate; try congruence).
    - rewrite dict_has_del. destruct (Z.eqb_spec j jj) as [->|Hne]; simpl.
      + intuition discriminate.
      + rewrite D. intuition (try discriminate; try congruence).
  Qed.

  Lemma inv3_wit : forall c t c', Inv1 c -> Inv3 c -> step' c t = Some c' ->
    forall j, dict_has (bgd c') j = true -> exists u q, nth_error (thr c') u = Some q /\ bg_of (fst q) = Some j.
  Proof.
    intros c t c' I I3 Hs jj. pose proof (b_wit _ I3 jj) as X.
    step_cases Hs I.
    all: simpl sh; simpl dicts; unfold updn; simpl; simpl thr; intros Hd.
    all: try (rewrite dict_has_set in Hd; destruct (Z.eqb_spec j jj) as [->|Hnj]; simpl in Hd;
              [ exists t; eexists; split; [eapply nth_error_set_nth_eq; exact Hp | reflexivity] | ]).
    all: try (rewrite dict_has_del in Hd; destruct (Z.eqb_spec j jj) as [->|Hnj]; simpl in Hd; [discriminate Hd|]).
    all: destruct (X Hd) as [u [q0 [Hu Hb]]];
         destruct (Nat.eq_dec u t) as [->|Hne];
         [ rewrite Hp in Hu; inversion Hu; subst q0; simpl in Hb; try discriminate Hb
         | exists u, q0; split; [first [ apply nth_error_other0; assumption | apply nth_error_other; assumption ] | exact Hb] ].
    all: inversion Hb; subst; try congruence.
    all: first
      [ exists t; eexists; split; [eapply nth_error_set_nth_eq; exact Hp | try destruct q; simpl in *; congruence]
      | exists (length (thr c)); eexists; split;
        [ rewrite nth_error_app2 by (rewrite set_nth_length; lia); rewrite set_nth_length, Nat.sub_diag; reflexivity
        | reflexivity ] ].
  Qed.

  Lemma inv3_forget : forall c t c', Inv1 c -> Inv3 c -> step' c t = Some c' ->
    forall older j, earlier (SBgForget j :: older) (ev c') -> left older j.
  Proof.
    intros c t c' I I3 Hs older jj He. pose proof (b_forget _ I3 older jj) as X.
    step_cases Hs I.
    all: marks; simpl hist in *; unfold events in He; simpl map in He; fold (events (hist c)) in He.
    all: apply earlier_cons in He; destruct He as [[Heq ->]|He]; [|exact (X He)].
    all: simpl in Heq; try discriminate Heq.
    all: try (repeat match type of Heq with context [match ?x with _ => _ end] => destruct x end; discriminate Heq).
    all: inversion Heq; subst; eapply (b_left _ I3); [exact Hp | reflexivity].
  Qed.

  Lemma inv3_ask : forall c t c', Inv1 c -> Inv3 c -> step' c t = Some c' ->
    forall older j b, earlier (SAsk j b :: older) (ev c') ->
      (b = true <-> In (SBgReg j) older /\ ~ In (SBgForget j) older).
  Proof.
    intros c t c' I I3 Hs older jj bb He. pose proof (b_ask _ I3 older jj bb) as X.
    step_cases Hs I.
    all: marks; simpl hist in *; unfold events in He; simpl map in He; fold (events (hist c)) in He.
    all: apply earlier_cons in He; destruct He as [[Heq ->]|He]; [|exact (X He)].
    all: simpl in Heq; try discriminate Heq.
    all: try (repeat match type of Heq with context [match ?x with _ => _ end] => destruct x end; discriminate Heq).
    all: inversion Heq; subst; apply (b_dict _ I3).
  Qed.

  Lemma inv3_step : forall c t c', Inv1 c -> Inv3 c -> step' c t = Some c' -> Inv3 c'.
  Proof.
    intros c t c' I I3 Hs. constructor.
    - eapply inv3_tok; eauto.
    - eapply inv3_reg; eauto.
    - eapply inv3_left; eauto.
    - eapply inv3_dict; eauto.
    - eapply inv3_wit; eauto.
    - eapply inv3_forget; eauto.
    - eapply inv3_ask; eauto.
  Qed.
End Proofs.
