(* Generic facts about Jobs/Threads.v: list update, weighted sums over the thread list,
   inversion of [step], induction over reachable configurations, runs stay reachable. *)
From Coq Require Import ZArith List Bool Lia Arith.
From Bardolph Require Import Jobs.Threads.
Import ListNotations.
Open Scope list_scope.
Open Scope nat_scope.

Lemma set_nth_length : forall A (l : list A) n x, length (set_nth l n x) = length l.
Proof. induction l; destruct n; simpl; auto. Qed.

Lemma nth_error_set_nth_eq : forall A (l : list A) n x y,
  nth_error l n = Some y -> nth_error (set_nth l n x) n = Some x.
Proof. induction l; destruct n; simpl; intros; try discriminate; eauto. Qed.

Lemma nth_error_set_nth_neq : forall A (l : list A) n m x,
  n <> m -> nth_error (set_nth l n x) m = nth_error l m.
Proof. induction l; destruct n; destruct m; simpl; intros; auto; try congruence. Qed.

Lemma nth_error_set_nth : forall A (l : list A) n m x q y,
  nth_error l n = Some y ->
  nth_error (set_nth l n x) m = Some q ->
  (m = n /\ q = x) \/ (m <> n /\ nth_error l m = Some q).
Proof.
  intros. destruct (Nat.eq_dec m n).
  - subst. erewrite nth_error_set_nth_eq in H0 by eauto. inversion H0. auto.
  - rewrite nth_error_set_nth_neq in H0 by auto. auto.
Qed.

Lemma nth_error_app_one : forall A (l : list A) m x q,
  nth_error (l ++ [x]) m = Some q ->
  (m < length l /\ nth_error l m = Some q) \/ (m = length l /\ q = x).
Proof.
  intros. destruct (lt_dec m (length l)).
  - rewrite nth_error_app1 in H by auto. auto.
  - rewrite nth_error_app2 in H by lia.
    destruct (m - length l) eqn:E; simpl in H.
    + inversion H. right. split; auto. lia.
    + destruct n0; discriminate.
Qed.

Lemma In_set_nth : forall A (l : list A) n x p, In p (set_nth l n x) -> p = x \/ In p l.
Proof. induction l; destruct n; simpl; intros; auto; destruct H; auto. apply IHl in H. tauto. Qed.

Lemma nth_error_lt : forall A (l : list A) n x, nth_error l n = Some x -> n < length l.
Proof. intros. apply nth_error_Some. congruence. Qed.

(* weighted sums over the thread list *)
Definition wsum {A} (w : A -> nat) (l : list A) : nat := list_sum (map w l).

Lemma wsum_app : forall A (w : A -> nat) l1 l2, wsum w (l1 ++ l2) = wsum w l1 + wsum w l2.
Proof. intros. unfold wsum. rewrite map_app, list_sum_app. auto. Qed.

Lemma wsum_set_nth : forall A (w : A -> nat) l n x y,
  nth_error l n = Some y -> wsum w (set_nth l n x) + w y = wsum w l + w x.
Proof.
  unfold wsum. induction l; destruct n; simpl; intros; try discriminate.
  - inversion H. subst. lia.
  - specialize (IHl _ x _ H). lia.
Qed.

Lemma wsum_nth_le : forall A (w : A -> nat) l n y, nth_error l n = Some y -> w y <= wsum w l.
Proof.
  unfold wsum. induction l; destruct n; simpl; intros; try discriminate.
  - inversion H. subst. lia.
  - specialize (IHl _ _ H). lia.
Qed.

Lemma wsum_two : forall A (w : A -> nat) l n m y z,
  nth_error l n = Some y -> nth_error l m = Some z -> n <> m -> w y + w z <= wsum w l.
Proof.
  unfold wsum. induction l; destruct n; destruct m; simpl; intros; try discriminate; try congruence.
  - inversion H. subst. pose proof (wsum_nth_le _ w l m z H0). unfold wsum in *. lia.
  - inversion H0. subst. pose proof (wsum_nth_le _ w l n y H). unfold wsum in *. lia.
  - assert (n <> m) by congruence. specialize (IHl _ _ _ _ H H0 H2). lia.
Qed.

Lemma wsum_pos_exists : forall A (w : A -> nat) l, 0 < wsum w l -> exists n y, nth_error l n = Some y /\ 0 < w y.
Proof.
  unfold wsum. induction l; simpl; intros; try lia.
  destruct (w a) eqn:E.
  - destruct IHl as [n [y [H1 H2]]]; try lia. exists (S n), y. auto.
  - exists 0, a. simpl. split; auto. lia.
Qed.

Lemma wsum_zero_all : forall A (w : A -> nat) l n y, wsum w l = 0 -> nth_error l n = Some y -> w y = 0.
Proof. intros. pose proof (wsum_nth_le _ w l n y H0). lia. Qed.

Section Facts.
  Variable P : Type.
  Variable code : P -> instr P.

  Lemma step_inv : forall c t c',
    step P code c t = Some c' ->
    exists p, nth_error (thr c) t = Some p /\
      ((exists l k s' r, code p = Do l k /\ exec t l (sh c) = Some (s', r) /\
          c' = {| sh := s'; thr := set_nth (thr c) t (k r); hist := (t, l, r) :: hist c |}) \/
       (exists ch k, code p = Spawn ch k /\
          c' = {| sh := sh c; thr := set_nth (thr c) t k ++ [ch];
                  hist := (t, LStart, VNum (Z.of_nat (length (thr c)))) :: hist c |})).
  Proof.
    unfold step. intros c t c' H.
    destruct (nth_error (thr c) t) as [p|] eqn:E; try discriminate.
    exists p. split; auto.
    destruct (code p) eqn:C; try discriminate.
    - destruct (exec t l (sh c)) as [[s' r]|] eqn:X; try discriminate.
      inversion H. left. exists l, k, s', r. auto.
    - inversion H. right. exists child, k. auto.
  Qed.

  Lemma reachable_ind_inv : forall (c0 : config P) (Inv : config P -> Prop),
    Inv c0 ->
    (forall c t c', reachable P code c0 c -> Inv c -> step P code c t = Some c' -> Inv c') ->
    forall c, reachable P code c0 c -> Inv c.
  Proof. intros c0 Inv H0 Hs c R. induction R; eauto. Qed.

  Lemma run_reachable : forall schedule c0 c, reachable P code c0 c -> reachable P code c0 (run P code c schedule).
  Proof.
    induction schedule; simpl; intros; auto.
    destruct (step P code c a) eqn:E; auto.
    apply IHschedule. eapply reach_step; eauto.
  Qed.

  Lemma run_rest_reachable : forall fuel c0 c, reachable P code c0 c -> reachable P code c0 (run_rest P code fuel c).
  Proof.
    induction fuel; simpl; intros; auto.
    destruct (enabled P code c); auto.
    destruct (step P code c n) eqn:E; auto.
    apply IHfuel. eapply reach_step; eauto.
  Qed.

  Lemma run_picks_reachable : forall choices fuel c0 c,
    reachable P code c0 c -> reachable P code c0 (run_picks P code fuel c choices).
  Proof.
    induction choices; simpl; intros.
    - apply run_rest_reachable; auto.
    - destruct (enabled P code c) eqn:En; auto.
      match goal with |- context [step P code c ?t] => destruct (step P code c t) eqn:E end; auto.
      apply IHchoices. eapply reach_step; eauto.
  Qed.

  Lemma reachable_trans : forall c0 c1 c2, reachable P code c0 c1 -> reachable P code c1 c2 -> reachable P code c0 c2.
  Proof. intros c0 c1 c2 H1 H2. induction H2; auto. eapply reach_step; eauto. Qed.
End Facts.
