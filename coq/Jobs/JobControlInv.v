(* First inductive invariant of the access programs of Jobs/JobControl.v over all reachable
   configurations (any clients, any schedule): lock ownership, what the threads know about
   _active_agent, uniqueness of the thread that answers for the active job. *)
From Coq Require Import ZArith List Bool Lia Arith.
From Bardolph Require Import Jobs.Threads Jobs.ThreadsFacts Jobs.JobVocab Jobs.JobControl Jobs.JobControlSpec.
Import ListNotations.
Open Scope list_scope.
Open Scope nat_scope.

(* ---------- static facts about program counters ---------- *)
Fixpoint krels (k : kont) : nat :=
  match k with KRel k' => S (krels k') | KRetV _ k' => krels k' | _ => 0 end.
Definition held (p : pc) : nat := krels (snd p).

Definition needs_lock (pt : point) : bool :=
  match pt with
  | Enq1 _ _ | Enq2 | Run1 | Run2 | Run3 | Run4 _ | Run5 _ | Run6 _ | Done1 _ | Done2
  | Sp1 _ | Sp2 _ | Bg1 _ | Clear1 | Sj1 _ | Sj2 _ | Sj3 | Sj4 _ | Sj5 _ | Sj6 _ | RelV _ => true
  | _ => false
  end.
Definition top_rel (k : kont) : bool := match k with KRel _ => true | _ => false end.
Definition job_point (pt : point) : bool :=
  match pt with Job0 _ _ | Job1 _ _ | Job2 _ _ | Done0 _ | Bg0 _ => true | _ => false end.
Definition wf_pc (p : pc) : bool :=
  (negb (needs_lock (fst p)) || top_rel (snd p))
  && match fst p, snd p with Unw _, KRetV _ _ => false | _, _ => true end
  && (negb (job_point (fst p)) || match snd p with KJob => true | _ => false end).

Lemma krels_ret_to : forall k, held (ret_to k) = krels k.
Proof. destruct k; simpl; auto. destruct ops; simpl; auto. destruct o; simpl; auto. Qed.
Lemma krels_unw_to : forall e k, held (unw_to e k) = krels k.
Proof. induction k; simpl; auto. Qed.
Lemma wf_ret_to : forall k, wf_pc (ret_to k) = true.
Proof. destruct k; simpl; auto. destruct ops; simpl; auto. destruct o; simpl; auto. Qed.
Lemma wf_unw_to : forall e k, wf_pc (unw_to e k) = true.
Proof. induction k; simpl; auto. Qed.

Definition lk (c : config pc) := locks (sh c) 0.
Definition owner_depth (c : config pc) (t : nat) : nat :=
  match lk c with Some (o, n) => if Nat.eqb o t then n else 0 | None => 0 end.


(* ---------- classes of program points ---------- *)
Definition act_none_pt (pt : point) : bool :=
  match pt with Run2 | Run3 | Run4 _ => true | _ => false end.
(* the thread that answers for the active job a: from the store into _active_agent to its reset *)
Definition own_of (pt : point) : option Z :=
  match pt with
  | Run5 a | Run6 a | Job0 a true | Job1 a true | Job2 a true | Done0 a | Done1 a => Some a
  | _ => None
  end.
Definition own (p : pc) : nat := match own_of (fst p) with Some _ => 1 | None => 0 end.

Lemma own_ret_to : forall k, own (ret_to k) = 0.
Proof. destruct k; simpl; auto. destruct ops; simpl; auto. destruct o; simpl; auto. Qed.
Lemma own_unw_to : forall e k, own (unw_to e k) = 0.
Proof. induction k; simpl; auto. Qed.

Notation act c := (fields (sh c) 0).
Notation qu c := (deques (sh c) 0).
Notation bgd c := (dicts (sh c) 0).
Notation ev c := (events (hist c)).

Record Inv1 (c : config pc) : Prop := {
  i_wf : forall u q, nth_error (thr c) u = Some q -> wf_pc q = true;
  i_lock : forall u q, nth_error (thr c) u = Some q -> held q = owner_depth c u;
  i_lockown : forall o n, lk c = Some (o, n) -> o < length (thr c) /\ 1 <= n;
  i_actshape : act c = VNone \/ exists a, act c = VRef a;
  i_actnone : forall u q, nth_error (thr c) u = Some q -> act_none_pt (fst q) = true -> act c = VNone;
  i_actown : forall u q a, nth_error (thr c) u = Some q -> own_of (fst q) = Some a -> act c = VRef a;
  i_own : wsum own (thr c) = match act c with VNone => 0 | _ => 1 end
}.

Lemma holder_lock : forall c t p,
  (forall u q, nth_error (thr c) u = Some q -> held q = owner_depth c u) ->
  nth_error (thr c) t = Some p -> 1 <= held p -> locks (sh c) 0 = Some (t, held p).
Proof.
  intros c t p H Hn Hh. apply H in Hn. unfold owner_depth, lk in Hn.
  destruct (locks (sh c) 0) as [[o n]|]; try lia.
  destruct (Nat.eqb_spec o t); subst; try lia. congruence.
Qed.

Lemma wf_needs_lock : forall pt k, wf_pc (pt, k) = true -> needs_lock pt = true -> 1 <= krels k.
Proof.
  intros pt k H N. unfold wf_pc in H. simpl in H. rewrite N in H. simpl in H.
  destruct k; simpl in *; try discriminate; lia.
Qed.

(* two threads that both need the lock are the same thread *)
Lemma lock_exclusive : forall c u v pu ku pv kv,
  Inv1 c -> nth_error (thr c) u = Some (pu, ku) -> nth_error (thr c) v = Some (pv, kv) ->
  needs_lock pu = true -> needs_lock pv = true -> u = v.
Proof.
  intros c u v pu ku pv kv I Hu Hv Nu Nv.
  pose proof (wf_needs_lock _ _ (i_wf c I _ _ Hu) Nu) as Lu.
  pose proof (wf_needs_lock _ _ (i_wf c I _ _ Hv) Nv) as Lv.
  pose proof (holder_lock c u _ (i_lock c I) Hu Lu) as Eu.
  pose proof (holder_lock c v _ (i_lock c I) Hv Lv) as Ev.
  congruence.
Qed.

(* at most one thread answers for the active job *)
Lemma own_unique : forall c u v pu pv,
  Inv1 c -> nth_error (thr c) u = Some pu -> nth_error (thr c) v = Some pv ->
  own pu = 1 -> own pv = 1 -> u = v.
Proof.
  intros c u v pu pv I Hu Hv Ou Ov.
  destruct (Nat.eq_dec u v); auto.
  pose proof (wsum_two _ own _ _ _ _ _ Hu Hv n).
  pose proof (i_own c I). destruct (act c); lia.
Qed.

  (* inversion of one step into the cases of the access programs *)
  Ltac case_code :=
    match goal with
    | H : code ?bd ?vv (?pt, ?k) = _ |- _ =>
        destruct pt; simpl in H;
        try (match type of H with context [match ?k with _ => _ end] => destruct k; simpl in H end);
        try (match type of H with context [match bd ?j with _ => _ end] => destruct (bd j); simpl in H end);
        try (match type of H with context [if ?f then _ else _] => destruct f; simpl in H end);
        try discriminate; inversion H; subst; clear H
    end.

  Ltac exec_inv Hx :=
    simpl in Hx;
    repeat match type of Hx with
    | context [match locks ?s 0 with _ => _ end] =>
        let o := fresh "o" in let n := fresh "n" in let E := fresh "Elk" in
        destruct (locks s 0) as [[o n]|] eqn:E
    | context [if Nat.eqb ?o ?t then _ else _] => let E := fresh "Eot" in destruct (Nat.eqb o t) eqn:E
    | context [match deques ?s 0 with _ => _ end] => let E := fresh "Equ" in destruct (deques s 0) eqn:E
    | context [if dict_has ?d ?k then _ else _] => let E := fresh "Edh" in destruct (dict_has d k) eqn:E
    | context [if flags ?s ?e then _ else _] => let E := fresh "Efl" in destruct (flags s e) eqn:E
    end; try discriminate; inversion Hx; subst; clear Hx.

  (* all cases of one step; [I : Inv1 c] is used to know that a release is by the owner *)
  Ltac step_cases Hs I :=
    apply step_inv in Hs;
    destruct Hs as [[pt k] [Hp [[l [kf [s' [r [Hc [Hx Hc']]]]]]|[ch [kf [Hc Hc']]]]]];
    [ case_code;
      try (match type of Hx with exec _ (LRelease 0) _ = _ =>
             match type of Hp with nth_error _ _ = Some ?p =>
               let Hh := fresh "Hh" in let L := fresh "Hlk" in
               assert (Hh : 1 <= held p) by (unfold held; simpl; lia);
               pose proof (holder_lock _ _ _ (i_lock _ I) Hp Hh) as L;
               unfold held in L; simpl in L; simpl in Hx; rewrite L in Hx; rewrite Nat.eqb_refl in Hx; clear Hh
             end end);
      exec_inv Hx
    | case_code ].


Section Proofs.
  Variable bodies : Z -> body.
  Variable vr : variant.
  Notation code' := (code bodies vr).
  Notation step' := (step pc code').

  Lemma inv1_wf : forall c t c', Inv1 c -> step' c t = Some c' ->
    forall u q, nth_error (thr c') u = Some q -> wf_pc q = true.
  Proof.
    intros c t c' I Hs. step_cases Hs I; intros uu qq Hu; simpl in Hu.
    all: try (apply nth_error_app_one in Hu; destruct Hu as [[_ Hu]|[_ ->]]; [|reflexivity]).
    all: eapply nth_error_set_nth in Hu; [|exact Hp]; destruct Hu as [[-> ->]|[Hne Hu]]; [|eapply i_wf; eauto].
    all: pose proof (i_wf _ I _ _ Hp) as W.
    all: try apply wf_ret_to; try apply wf_unw_to; try reflexivity.
    all: repeat match goal with |- context [match ?x with _ => _ end] => destruct x end.
    all: try apply wf_ret_to; try apply wf_unw_to; try reflexivity.
    all: try (match goal with |- wf_pc (enter ?o _) = _ => destruct o; reflexivity end).
    all: unfold wf_pc in *; simpl in *; try (destruct k; simpl in *; auto; discriminate).
  Qed.

  Lemma held_enter : forall o r, held (enter o r) = 0.
  Proof. destruct o; reflexivity. Qed.

  Ltac held_norm :=
    repeat match goal with |- context [match ?x with _ => _ end] => destruct x end;
    repeat rewrite krels_ret_to; repeat rewrite krels_unw_to; repeat rewrite held_enter; simpl.

  Lemma inv1_lockown : forall c t c', Inv1 c -> step' c t = Some c' ->
    forall o n, lk c' = Some (o, n) -> o < length (thr c') /\ 1 <= n.
  Proof.
    intros c t c' I Hs. step_cases Hs I.
    all: pose proof (nth_error_lt _ _ _ _ Hp) as Ltl; pose proof (i_lockown _ I) as Lo.
    all: intros oo nn Ho; simpl in Ho.
    all: unfold lk in *; simpl in *; try rewrite app_length; rewrite set_nth_length.
    all: first [ apply Lo in Ho; simpl; lia
               | inversion Ho; subst; simpl; lia
               | destruct (krels k); inversion Ho; subst; simpl; lia
               | apply Nat.eqb_eq in Eot; inversion Ho; subst; simpl; lia
               | idtac ].
  Qed.

  Lemma inv1_lock : forall c t c', Inv1 c -> step' c t = Some c' ->
    forall u q, nth_error (thr c') u = Some q -> held q = owner_depth c' u.
  Proof.
    intros c t c' I Hs. step_cases Hs I.
    all: pose proof (i_lock _ I _ _ Hp) as Lt; pose proof (nth_error_lt _ _ _ _ Hp) as Ltl.
    all: pose proof (i_lockown _ I) as Lo.
    all: intros uu qq Hu; simpl in Hu.
    all: try (apply nth_error_app_one in Hu; destruct Hu as [[_ Hu]|[-> ->]];
              [| rewrite set_nth_length; unfold owner_depth, lk in *; simpl in *;
                 destruct (locks (sh c) 0) as [[o1 n1]|]; auto;
                 destruct (Nat.eqb_spec o1 (length (thr c))); auto;
                 specialize (Lo _ _ eq_refl); lia ]).
    all: eapply nth_error_set_nth in Hu; [|exact Hp]; destruct Hu as [[-> ->]|[Hne Hu]].
    (* other threads *)
    all: try (apply (i_lock _ I) in Hu; rewrite Hu; unfold owner_depth, lk in *; simpl in *;
              try rewrite Elk; try rewrite Hlk; auto;
              try (apply Nat.eqb_eq in Eot; subst);
              repeat match goal with |- context [Nat.eqb ?a ?b] => destruct (Nat.eqb_spec a b) end;
              try congruence; try lia; destruct (krels k); simpl;
              repeat match goal with |- context [Nat.eqb ?a ?b] => destruct (Nat.eqb_spec a b) end;
              congruence).
    all: repeat match goal with |- context [held (match ?x with _ => _ end)] => destruct x end.
    all: repeat rewrite krels_ret_to; repeat rewrite krels_unw_to; repeat rewrite held_enter.
    all: unfold owner_depth, lk, held in *; simpl in *; unfold updn in *; simpl in *.
    all: try rewrite Hlk in *; try rewrite Elk in *; try (apply Nat.eqb_eq in Eot; subst).
    all: try rewrite Nat.eqb_refl in *; try lia.
    all: try (destruct (krels k); simpl; try rewrite Nat.eqb_refl; lia).
  Qed.

  Lemma inv1_actshape : forall c t c', Inv1 c -> step' c t = Some c' ->
    act c' = VNone \/ exists a, act c' = VRef a.
  Proof.
    intros c t c' I Hs. step_cases Hs I.
    all: simpl; unfold updn; simpl.
    all: first [ exact (i_actshape _ I) | left; reflexivity | right; eexists; reflexivity ].
  Qed.

  Lemma actnone_needs_lock : forall pt, act_none_pt pt = true -> needs_lock pt = true.
  Proof. destruct pt; simpl; auto. Qed.
  Lemma actnone_enter : forall o r, act_none_pt (fst (enter o r)) = false.
  Proof. destruct o; reflexivity. Qed.
  Lemma ownof_enter : forall o r, own_of (fst (enter o r)) = None.
  Proof. destruct o; reflexivity. Qed.
  Lemma actnone_ret_to : forall k, act_none_pt (fst (ret_to k)) = false.
  Proof. destruct k; simpl; auto. destruct ops; simpl; auto. destruct o; simpl; auto. Qed.
  Lemma actnone_unw_to : forall e k, act_none_pt (fst (unw_to e k)) = false.
  Proof. induction k; simpl; auto. Qed.
  Lemma ownof_ret_to : forall k, own_of (fst (ret_to k)) = None.
  Proof. destruct k; simpl; auto. destruct ops; simpl; auto. destruct o; simpl; auto. Qed.
  Lemma ownof_unw_to : forall e k, own_of (fst (unw_to e k)) = None.
  Proof. induction k; simpl; auto. Qed.

  Lemma inv1_actnone : forall c t c', Inv1 c -> step' c t = Some c' ->
    forall u q, nth_error (thr c') u = Some q -> act_none_pt (fst q) = true -> act c' = VNone.
  Proof.
    intros c t c' I Hs. step_cases Hs I.
    all: intros uu qq Hu Hn; simpl in Hu.
    all: try (apply nth_error_app_one in Hu; destruct Hu as [[_ Hu]|[-> ->]]; [|discriminate Hn]).
    all: eapply nth_error_set_nth in Hu; [|exact Hp]; destruct Hu as [[-> ->]|[Hne Hu]].
    (* other threads: only a write by the lock holder could matter *)
    all: try (pose proof (i_actnone _ I _ _ Hu Hn) as Hold; simpl; unfold updn; simpl;
              first [ exact Hold | reflexivity
                    | exfalso; destruct qq as [pq kq]; apply Hne;
                      eapply (lock_exclusive c); [exact I | exact Hu | exact Hp | apply actnone_needs_lock; exact Hn | reflexivity] ]).
    (* the moving thread *)
    all: revert Hn; simpl.
    all: repeat match goal with |- context [act_none_pt (fst (match ?x with _ => _ end))] => destruct x eqn:? end.
    all: try rewrite actnone_ret_to; try rewrite actnone_unw_to; try rewrite actnone_enter; simpl; try discriminate.
    all: intros _; unfold updn; simpl; auto.
    all: try (eapply (i_actnone _ I); [exact Hp | reflexivity]).
    all: destruct (act c); simpl in *; auto; discriminate.
  Qed.

  Lemma inv1_actown : forall c t c', Inv1 c -> step' c t = Some c' ->
    forall u q a, nth_error (thr c') u = Some q -> own_of (fst q) = Some a -> act c' = VRef a.
  Proof.
    intros c t c' I Hs. step_cases Hs I.
    all: intros uu qq aa Hu Hn; simpl in Hu.
    all: try (match type of Hu with nth_error (_ ++ _) _ = _ =>
              apply nth_error_app_one in Hu; destruct Hu as [[_ Hu]|[-> ->]];
              [| simpl in Hn; first [ discriminate Hn
                                     | inversion Hn; subst; eapply (i_actown _ I); [exact Hp | reflexivity] ] ] end).
    all: eapply nth_error_set_nth in Hu; [|exact Hp]; destruct Hu as [[-> ->]|[Hne Hu]].
    (* other threads *)
    all: try (pose proof (i_actown _ I _ _ _ Hu Hn) as Hold; simpl; unfold updn; simpl;
              first [ exact Hold
                    | exfalso; pose proof (i_actnone _ I _ _ Hp eq_refl) as Hnone; congruence
                    | exfalso; apply Hne; eapply (own_unique c); [exact I | exact Hu | exact Hp | unfold own; rewrite Hn; reflexivity | reflexivity] ]).
    (* the moving thread *)
    all: revert Hn; simpl.
    all: repeat match goal with |- context [own_of (fst (match ?x with _ => _ end))] => destruct x eqn:? end.
    all: try rewrite ownof_ret_to; try rewrite ownof_unw_to; try rewrite ownof_enter; simpl; try discriminate.
    all: intros Hn; inversion Hn; subst; unfold updn; simpl; auto.
    all: try (eapply (i_actown _ I); [exact Hp | reflexivity]).
    all: destruct q; simpl in *; try discriminate; inversion Hn; subst;
         eapply (i_actown _ I); [exact Hp | reflexivity].
  Qed.

  Lemma own_enter : forall o r, own (enter o r) = 0.
  Proof. destruct o; reflexivity. Qed.

  Lemma inv1_own : forall c t c', Inv1 c -> step' c t = Some c' ->
    wsum own (thr c') = match act c' with VNone => 0 | _ => 1 end.
  Proof.
    intros c t c' I Hs. step_cases Hs I.
    all: simpl; try rewrite wsum_app;
         match goal with |- context [set_nth (thr ?c0) ?t0 ?new] =>
           pose proof (wsum_set_nth _ own (thr c0) t0 new _ Hp) as W end.
    all: pose proof (i_own _ I) as O.
    all: try (pose proof (i_actnone _ I _ _ Hp eq_refl) as An).
    all: try (pose proof (i_actown _ I _ _ _ Hp eq_refl) as Ao).
    all: unfold updn; simpl.
    all: repeat match type of W with context [own (match ?x with _ => _ end)] => destruct x eqn:? end.
    all: try rewrite own_ret_to in W; try rewrite own_unw_to in W; try rewrite own_enter in W.
    all: unfold wsum, own in *; simpl in *; try rewrite An in *; try rewrite Ao in *; try congruence; try lia.
  Qed.

  Lemma inv1_step : forall c t c', Inv1 c -> step' c t = Some c' -> Inv1 c'.
  Proof.
    intros c t c' I Hs. constructor.
    - eapply inv1_wf; eauto.
    - eapply inv1_lock; eauto.
    - eapply inv1_lockown; eauto.
    - eapply inv1_actshape; eauto.
    - eapply inv1_actnone; eauto.
    - eapply inv1_actown; eauto.
    - eapply inv1_own; eauto.
  Qed.

  (* initial configurations: every thread is a client about to issue its first call *)
  Definition client_pc (p : pc) : Prop := exists ops, p = client ops.

  Lemma client_pc_facts : forall p, client_pc p ->
    wf_pc p = true /\ held p = 0 /\ act_none_pt (fst p) = false /\ own_of (fst p) = None.
  Proof.
    intros p [ops ->]. unfold client.
    repeat split; [apply wf_ret_to | rewrite krels_ret_to; reflexivity | apply actnone_ret_to | apply ownof_ret_to].
  Qed.

  Lemma nth_init_client : forall clients u q,
    nth_error (thr (jc_init clients)) u = Some q -> client_pc q.
  Proof.
    intros clients u q H. simpl in H. apply nth_error_In in H. apply in_map_iff in H.
    destruct H as [ops [<- _]]. exists ops. reflexivity.
  Qed.

  Lemma wsum_zero : forall A (w : A -> nat) l, (forall x, In x l -> w x = 0) -> wsum w l = 0.
  Proof.
    unfold wsum. induction l; simpl; intros; auto. rewrite H by auto. rewrite IHl; auto.
  Qed.

  Lemma inv1_init : forall clients, Inv1 (jc_init clients).
  Proof.
    intros clients. constructor.
    - intros u q H. apply nth_init_client in H. apply client_pc_facts in H. tauto.
    - intros u q H. apply nth_init_client in H. apply client_pc_facts in H.
      unfold owner_depth, lk. simpl. tauto.
    - unfold lk. simpl. discriminate.
    - left. reflexivity.
    - intros u q H Hn. apply nth_init_client in H. apply client_pc_facts in H.
      destruct H as [_ [_ [H _]]]. congruence.
    - intros u q a H Hn. apply nth_init_client in H. apply client_pc_facts in H.
      destruct H as [_ [_ [_ H]]]. congruence.
    - simpl. apply wsum_zero. intros x Hx. apply in_map_iff in Hx. destruct Hx as [ops [<- _]].
      unfold client. apply own_ret_to.
  Qed.

  Lemma inv1_reachable : forall clients c, jc_reachable bodies vr clients c -> Inv1 c.
  Proof.
    intros clients c R. unfold jc_reachable in R.
    apply (reachable_ind_inv pc code' (jc_init clients) Inv1); auto.
    - apply inv1_init.
    - intros. eapply inv1_step; eauto.
  Qed.
End Proofs.
