(* Vocabulary shared by the model of job_control.py and its specification: which numbered
   lock / field / deque / dictionary of Jobs/Threads.v stands for which attribute of
   JobControl, and the kinds of observation marks.  Definitions only. *)
From Coq Require Import ZArith.

(* lock 0 = JobControl._lock, field 0 = _active_agent, deque 0 = _queue, dict 0 = _background
   (key = job name = job number), flag j = stop request of job j *)
Definition mk_begin_q : nat := 0.   (* a queued job's execute() is entered *)
Definition mk_begin_bg : nat := 1.  (* a background job's execute() is entered *)
Definition mk_end : nat := 2.       (* execute() returns *)
Definition mk_raise : nat := 3.     (* execute() raises *)
Definition mk_ret : nat := 4.       (* a client's call returns this value *)
Definition mk_exc : nat := 5.       (* a client's call raises *)
