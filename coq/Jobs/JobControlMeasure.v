(* Termination: a measure on configurations that every step of every thread decreases
   (remaining accesses of each thread, plus the cost of a whole job thread for every queued
   job).  Hence every execution, under every schedule, is finite; waiting for a stop request
   is not a step. *)
From Coq Require Import ZArith List Bool Lia Arith.
From Bardolph Require Import Jobs.Threads Jobs.ThreadsFacts Jobs.JobVocab Jobs.JobControl Jobs.JobControlInv.
Import ListNotations.
Open Scope list_scope.
Open Scope nat_scope.

Definition JOBQ : nat := 14.      (* accesses of one job thread, from start to its last release *)

Definition mu_pt (pt : point) : nat :=
  match pt with
  | Ret => 0 | RetV _ => 1 | RelV _ => 1 | Unw _ => 1
  | Enq0 _ _ => 26 | Enq1 _ _ => 24 | Enq2 => 9
  | Run0 => 8 | Run1 => 6 | Run2 => 5 | Run3 => 4 | Run4 _ => 3 + JOBQ | Run5 _ => 2 + JOBQ | Run6 _ => 1 + JOBQ
  | Done0 _ => 11 | Done1 _ => 9 | Done2 => 8
  | Sp0 _ => 18 | Sp1 _ => 16 | Sp2 _ => 15 | Bg0 _ => 4 | Bg1 _ => 2
  | Job0 _ _ => 14 | Job1 _ _ => 13 | Job2 _ _ => 12
  | Clear0 => 4 | Clear1 => 2 | Has0 => 4 | Has1 => 3 | Has2 => 2 | Isr0 _ => 4 | Isr1 _ => 3 | Isr2 _ => 2
  | Cur0 => 2 | Qd0 => 2 | Stop0 _ => 2
  | Sj0 _ => 9 | Sj1 _ => 7 | Sj2 _ => 6 | Sj3 => 4 | Sj4 _ => 5 | Sj5 _ => 4 | Sj6 _ => 3
  end.
Definition mu_op (o : op) : nat :=
  match o with
  | OAdd _ | OInsert _ => 27 | OSpawn _ => 19
  | OClear => 4 | OStop _ => 2 | OStopJob _ => 9
  | OHasJobs => 4 | OIsRunning _ => 4 | OGetCurrent => 2 | OGetQueued => 2
  end.
Fixpoint mu_ops (ops : list op) : nat := match ops with [] => 0 | o :: r => mu_op o + mu_ops r end.
Fixpoint mu_k (k : kont) : nat :=
  match k with KClient ops => mu_ops ops | KJob => 0 | KRel k' => 1 + mu_k k' | KRetV _ k' => 1 + mu_k k' end.
Definition mu_pc (p : pc) : nat := mu_pt (fst p) + mu_k (snd p).
Definition mu (c : config pc) : nat := wsum mu_pc (thr c) + JOBQ * length (deques (sh c) 0).

Lemma mu_enter : forall o r, mu_pc (enter o r) = mu_op o + mu_ops r.
Proof. destruct o; intros; unfold mu_pc; simpl; lia. Qed.
Lemma mu_ret_to : forall k, mu_pc (ret_to k) = mu_k k.
Proof. destruct k; simpl; auto. destruct ops; simpl; auto. rewrite mu_enter. auto. Qed.
Lemma mu_unw_to : forall e k, mu_pc (unw_to e k) <= 1 + mu_k k.
Proof. induction k; simpl; unfold mu_pc in *; simpl in *; lia. Qed.

Section Measure.
  Variable bodies : Z -> body.
  Variable vr : variant.
  Notation code' := (code bodies vr).
  Notation step' := (step pc code').

  Theorem step_decreases : forall c t c', step' c t = Some c' -> mu c' < mu c.
  Proof.
    intros c t c' Hs.
    apply step_inv in Hs;
    destruct Hs as [[pt k] [Hp [[l [kf [s' [r [Hc [Hx Hc']]]]]]|[ch [kf [Hc Hc']]]]]];
    [ case_code; exec_inv Hx | case_code ].
    all: unfold mu; simpl thr; simpl sh; simpl deques; unfold updn; simpl Nat.eqb; cbv iota;
         try rewrite wsum_app;
         match goal with |- context [set_nth (thr ?c0) ?t0 ?new] =>
           pose proof (wsum_set_nth _ mu_pc (thr c0) t0 new _ Hp) as W end.
    all: repeat match type of W with context [mu_pc (match ?x with _ => _ end)] => destruct x eqn:? end.
    all: try rewrite mu_ret_to in W; try rewrite mu_enter in W;
         try (match type of W with context [mu_pc (unw_to ?e ?k0)] => pose proof (mu_unw_to e k0) end).
    all: try rewrite app_length; try rewrite Equ; unfold wsum, mu_pc, JOBQ in *; simpl in *; try lia.
  Qed.

  (* the number of accesses performed under a schedule (threads that cannot move are skipped) *)
  Fixpoint moves (c : config pc) (schedule : list nat) : nat :=
    match schedule with
    | [] => 0
    | t :: r => match step' c t with Some c' => S (moves c' r) | None => moves c r end
    end.

  Theorem moves_bounded : forall schedule c, moves c schedule <= mu c.
  Proof.
    induction schedule; simpl; intros; try lia.
    destruct (step' c a) eqn:E; auto.
    apply step_decreases in E. specialize (IHschedule c0). lia.
  Qed.

  (* ... in particular from the initial configuration of any clients *)
  Definition mu_init (clients : list (list op)) : nat := list_sum (map mu_ops clients).
  Lemma mu_jc_init : forall clients, mu (jc_init clients) = mu_init clients.
  Proof.
    intros. unfold mu, mu_init, jc_init, init. simpl. rewrite Nat.add_0_r.
    unfold wsum. rewrite map_map. f_equal. apply map_ext. intros a. unfold client. apply mu_ret_to.
  Qed.
End Measure.
