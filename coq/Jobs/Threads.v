(* Generic interleaving semantics for threads that communicate through shared state
   (DESIGN 4.4).  A thread is a program counter [P] (supplied by the client file, it may carry
   local variables); [code p] says what the thread does next: it is finished, it performs one
   SHARED ACCESS whose result selects the next program counter, or it starts a thread.
   A configuration is the shared state, one program counter per thread (thread id =
   position, new threads are appended) and the history of fired accesses.  [step c t] fires
   the next access of thread [t] if it is enabled; an execution is a list of thread ids.
   This is the granularity that harness/sched.py exposes on the real code.
   Model file: definitions only. *)
From Coq Require Import ZArith List Bool.
Import ListNotations.
Open Scope list_scope.
Open Scope Z_scope.

Inductive exc := IndexError | KeyError | AttributeError | RuntimeError | UserError.

Inductive val :=
| VNone | VUnit
| VRef (r : Z)            (* reference to an object known by number (job/agent) *)
| VNum (n : Z)
| VBool (b : bool)
| VExc (e : exc)          (* the access raised *)
| VList (l : list Z).

(* shared accesses; locks, fields, deques, dictionaries are numbered, flags (threading.Event)
   are numbered by Z *)
Inductive label :=
| LAcquire (l : nat) | LRelease (l : nat)
| LRead (f : nat) | LWrite (f : nat) (v : val)
| LDqAppend (d : nat) (v : val) | LDqAppendLeft (d : nat) (v : val)
| LDqPopLeft (d : nat) | LDqPop (d : nat) | LDqLen (d : nat) | LDqClear (d : nat) | LDqList (d : nat)
| LDictSet (d : nat) (k : Z) (v : val) | LDictDel (d : nat) (k : Z) | LDictHas (d : nat) (k : Z)
| LDictLen (d : nat) | LDictGet (d : nat) (k : Z)
| LFlagSet (e : Z) | LFlagClear (e : Z) | LFlagTest (e : Z) | LFlagWait (e : Z)
| LStart                                  (* thread start; result = id of the new thread *)
| LMark (kind : nat) (v : val).           (* observation point without shared effect *)

Definition entry := (nat * label * val)%type.      (* thread, access, result *)

Record shared := {
  locks : nat -> option (nat * nat);       (* owner, depth (>= 1); re-entrant *)
  fields : nat -> val;
  deques : nat -> list val;
  dicts : nat -> list (Z * val);
  flags : Z -> bool }.

Definition shared0 : shared :=
  {| locks := fun _ => None; fields := fun _ => VNone; deques := fun _ => [];
     dicts := fun _ => []; flags := fun _ => false |}.

Definition updn {A} (f : nat -> A) (k : nat) (v : A) : nat -> A :=
  fun k' => if Nat.eqb k' k then v else f k'.
Definition updz {A} (f : Z -> A) (k : Z) (v : A) : Z -> A :=
  fun k' => if Z.eqb k' k then v else f k'.

Definition set_lock s l v := {| locks := updn (locks s) l v; fields := fields s; deques := deques s; dicts := dicts s; flags := flags s |}.
Definition set_field s f v := {| locks := locks s; fields := updn (fields s) f v; deques := deques s; dicts := dicts s; flags := flags s |}.
Definition set_deque s d v := {| locks := locks s; fields := fields s; deques := updn (deques s) d v; dicts := dicts s; flags := flags s |}.
Definition set_dict s d v := {| locks := locks s; fields := fields s; deques := deques s; dicts := updn (dicts s) d v; flags := flags s |}.
Definition set_flag s e v := {| locks := locks s; fields := fields s; deques := deques s; dicts := dicts s; flags := updz (flags s) e v |}.

(* dictionaries: association lists without duplicate keys, insertion ordered *)
Fixpoint dict_has (d : list (Z * val)) (k : Z) : bool :=
  match d with [] => false | (k', _) :: r => if k' =? k then true else dict_has r k end.
Fixpoint dict_get (d : list (Z * val)) (k : Z) : option val :=
  match d with [] => None | (k', v) :: r => if k' =? k then Some v else dict_get r k end.
Fixpoint dict_set (d : list (Z * val)) (k : Z) (v : val) : list (Z * val) :=
  match d with
  | [] => [(k, v)]
  | (k', v') :: r => if k' =? k then (k, v) :: r else (k', v') :: dict_set r k v
  end.
Definition dict_del (d : list (Z * val)) (k : Z) : list (Z * val) :=
  filter (fun kv => negb (fst kv =? k)) d.

Definition ref_of (v : val) : Z := match v with VRef r => r | _ => -1 end.

(* [exec t l s]: thread [t] performs access [l] in shared state [s]; [None] = blocked *)
Definition exec (t : nat) (l : label) (s : shared) : option (shared * val) :=
  match l with
  | LAcquire k =>
      match locks s k with
      | None => Some (set_lock s k (Some (t, 1%nat)), VBool true)
      | Some (o, n) => if Nat.eqb o t then Some (set_lock s k (Some (t, S n)), VBool true) else None
      end
  | LRelease k =>
      match locks s k with
      | Some (o, n) =>
          if Nat.eqb o t
          then Some (set_lock s k (match n with S (S m) => Some (o, S m) | _ => None end), VUnit)
          else Some (s, VExc RuntimeError)
      | None => Some (s, VExc RuntimeError)
      end
  | LRead f => Some (s, fields s f)
  | LWrite f v => Some (set_field s f v, VUnit)
  | LDqAppend d v => Some (set_deque s d (deques s d ++ [v]), VUnit)
  | LDqAppendLeft d v => Some (set_deque s d (v :: deques s d), VUnit)
  | LDqPopLeft d =>
      match deques s d with
      | [] => Some (s, VExc IndexError)
      | x :: r => Some (set_deque s d r, x)
      end
  | LDqPop d =>
      match deques s d with
      | [] => Some (s, VExc IndexError)
      | x :: r => Some (set_deque s d (removelast (x :: r)), last (x :: r) VNone)
      end
  | LDqLen d => Some (s, VNum (Z.of_nat (length (deques s d))))
  | LDqClear d => Some (set_deque s d [], VUnit)
  | LDqList d => Some (s, VList (map ref_of (deques s d)))
  | LDictSet d k v => Some (set_dict s d (dict_set (dicts s d) k v), VUnit)
  | LDictDel d k =>
      if dict_has (dicts s d) k then Some (set_dict s d (dict_del (dicts s d) k), VUnit)
      else Some (s, VExc KeyError)
  | LDictHas d k => Some (s, VBool (dict_has (dicts s d) k))
  | LDictLen d => Some (s, VNum (Z.of_nat (length (dicts s d))))
  | LDictGet d k => Some (s, match dict_get (dicts s d) k with Some v => v | None => VExc KeyError end)
  | LFlagSet e => Some (set_flag s e true, VUnit)
  | LFlagClear e => Some (set_flag s e false, VUnit)
  | LFlagTest e => Some (s, VBool (flags s e))
  | LFlagWait e => if flags s e then Some (s, VBool true) else None
  | LStart => Some (s, VUnit)
  | LMark _ v => Some (s, v)
  end.

Inductive instr (P : Type) :=
| Done                                   (* the thread has finished *)
| Do (l : label) (k : val -> P)          (* perform the access, continue according to its result *)
| Spawn (child : P) (k : P).             (* start a thread at [child], continue at [k] *)
Arguments Done {P}.
Arguments Do {P} l k.
Arguments Spawn {P} child k.

Fixpoint set_nth {A} (l : list A) (n : nat) (x : A) : list A :=
  match l, n with
  | [], _ => []
  | _ :: r, O => x :: r
  | y :: r, S m => y :: set_nth r m x
  end.

Section Sem.
  Variable P : Type.
  Variable code : P -> instr P.

  (* [hist] is the history of fired accesses, NEWEST FIRST *)
  Record config := { sh : shared; thr : list P; hist : list entry }.

  Definition log (c : config) : list entry := rev (hist c).

  Definition step (c : config) (t : nat) : option config :=
    match nth_error (thr c) t with
    | None => None
    | Some p =>
        match code p with
        | Done => None
        | Do l k =>
            match exec t l (sh c) with
            | None => None
            | Some (s', r) =>
                Some {| sh := s'; thr := set_nth (thr c) t (k r); hist := (t, l, r) :: hist c |}
            end
        | Spawn ch k =>
            Some {| sh := sh c; thr := set_nth (thr c) t k ++ [ch];
                    hist := (t, LStart, VNum (Z.of_nat (length (thr c)))) :: hist c |}
        end
    end.

  Definition init (ps : list P) : config := {| sh := shared0; thr := ps; hist := [] |}.

  (* an execution is a list of thread ids; a thread that cannot move is skipped *)
  Fixpoint run (c : config) (schedule : list nat) : config :=
    match schedule with
    | [] => c
    | t :: r => match step c t with Some c' => run c' r | None => run c r end
    end.

  Inductive reachable (c0 : config) : config -> Prop :=
  | reach_init : reachable c0 c0
  | reach_step : forall c t c', reachable c0 c -> step c t = Some c' -> reachable c0 c'.

  Definition finished (p : P) : bool := match code p with Done => true | _ => false end.
  Definition quiescent (c : config) : Prop := forall p, In p (thr c) -> finished p = true.
  Definition quiescentb (c : config) : bool := forallb finished (thr c).

  Definition can_step (c : config) (t : nat) : bool :=
    match step c t with Some _ => true | None => false end.
  Definition enabled (c : config) : list nat :=
    filter (can_step c) (seq 0 (length (thr c))).

  (* the scheduler of harness/sched.py: the i-th choice [n] selects the (n mod k)-th of the k
     enabled threads (ascending ids); when the choices are used up the lowest enabled thread
     runs, for at most [fuel] further steps.  Stops when no thread is enabled. *)
  Fixpoint run_rest (fuel : nat) (c : config) : config :=
    match fuel with
    | O => c
    | S f =>
        match enabled c with
        | [] => c
        | t0 :: _ => match step c t0 with Some c' => run_rest f c' | None => c end
        end
    end.

  Fixpoint run_picks (fuel : nat) (c : config) (choices : list Z) : config :=
    match choices with
    | [] => run_rest fuel c
    | n :: r =>
        match enabled c with
        | [] => c
        | (t0 :: _) as en =>
            let t := nth (Z.to_nat (n mod Z.of_nat (length en))) en t0 in
            match step c t with Some c' => run_picks fuel c' r | None => c end
        end
    end.
End Sem.

Arguments sh {P} c.
Arguments thr {P} c.
Arguments hist {P} c.
Arguments log {P} c.
