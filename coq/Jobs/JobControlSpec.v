(* Specification of C08, written from the property text and DESIGN 7 C08 "Reading", over the
   HISTORY of observable events only (newest first).  It does not mention program counters
   or the access programs of Jobs/JobControl.v; it is evaluated on the event log of the
   real JobControl (harness/props/c08.py) and proved about every history of the model.

   Abstract queue with front insertion: the events that touch the controller's queue
   (append, prepend, clear, take-from-front) are linearised by their position in the
   history - they happen under the controller's lock, so this is the order of the lock
   acquisitions of the calls.  *)
From Coq Require Import ZArith List Bool.
From Bardolph Require Import Jobs.Threads Jobs.JobVocab.
Import ListNotations.
Open Scope list_scope.
Open Scope Z_scope.

(* ---------- abstract events ---------- *)
Inductive sev :=
| SEnqBack (j : Z)          (* add_job's append *)
| SEnqFront (j : Z)         (* insert_job's appendleft *)
| SClear                    (* clear_queue *)
| SDeq (j : Z)              (* the controller takes j from the front in order to start it *)
| SDeqEmpty                 (* ... and found nothing *)
| SBegin (j : Z) (q : bool) (* execute() of job j entered; q: queued (true) / background *)
| SEnd (j : Z)              (* execute() returned *)
| SRaise (j : Z)            (* execute() raised *)
| SBgReg (j : Z)            (* spawn_job registered j under its name *)
| SBgForget (j : Z)         (* the completion callback removed it *)
| SAsk (j : Z) (b : bool)   (* `name in background` answered b *)
| SOther.

Definition abs (e : entry) : sev :=
  match e with
  | (_, LDqAppend O (VRef j), _) => SEnqBack j
  | (_, LDqAppendLeft O (VRef j), _) => SEnqFront j
  | (_, LDqClear O, _) => SClear
  | (_, LDqPopLeft O, VRef j) => SDeq j
  | (_, LDqPopLeft O, _) => SDeqEmpty
  | (_, LDqPop O, VRef j) => SDeq j          (* taken from the wrong end: still a take *)
  | (_, LDqPop O, _) => SDeqEmpty
  | (_, LMark 0%nat (VRef j), _) => SBegin j true
  | (_, LMark 1%nat (VRef j), _) => SBegin j false
  | (_, LMark 2%nat (VRef j), _) => SEnd j
  | (_, LMark 3%nat (VRef j), _) => SRaise j
  | (_, LDictSet O j _, _) => SBgReg j
  | (_, LDictDel O j, VUnit) => SBgForget j
  | (_, LDictHas O j, VBool b) => SAsk j b
  | _ => SOther
  end.

Definition events (h : list entry) : list sev := map abs h.      (* newest first, like h *)

Definition sev_eq_dec : forall a b : sev, {a = b} + {a <> b}.
Proof. decide equality; try apply Z.eq_dec; apply bool_dec. Defined.

(* ---------- the abstract FIFO queue with front insertion ---------- *)
Fixpoint aqueue (ev : list sev) : list Z :=
  match ev with
  | [] => []
  | e :: older =>
      let q := aqueue older in
      match e with
      | SEnqBack j => q ++ [j]
      | SEnqFront j => j :: q
      | SClear => []
      | SDeq _ => tl q
      | _ => q
      end
  end.

(* jobs that were in the queue when it was explicitly cleared *)
Fixpoint cleared (ev : list sev) : list Z :=
  match ev with
  | [] => []
  | SClear :: older => aqueue older ++ cleared older
  | _ :: older => cleared older
  end.

Definition enqueued (ev : list sev) (j : Z) : Prop := In (SEnqBack j) ev \/ In (SEnqFront j) ev.
Definition begun (ev : list sev) (j : Z) : Prop := exists q, In (SBegin j q) ev.
Definition left (ev : list sev) (j : Z) : Prop := In (SEnd j) ev \/ In (SRaise j) ev.
(* "executing": between execute() being entered and left *)
Definition executing (ev : list sev) (j : Z) : Prop := begun ev j /\ ~ left ev j.
Definition executing_queued (ev : list sev) (j : Z) : Prop := In (SBegin j true) ev /\ ~ left ev j.

Definition exec_count (ev : list sev) (j : Z) : nat :=
  (count_occ sev_eq_dec ev (SBegin j true) + count_occ sev_eq_dec ev (SBegin j false))%nat.

(* chronological sub-sequences (oldest first) *)
Definition deq_order (ev : list sev) : list Z :=
  rev (flat_map (fun e => match e with SDeq j => [j] | _ => [] end) ev).
Definition begin_order (ev : list sev) : list Z :=
  rev (flat_map (fun e => match e with SBegin j true => [j] | _ => [] end) ev).

(* [older] is the history at some earlier moment of [ev] *)
Definition earlier (older ev : list sev) : Prop := exists newer, ev = newer ++ older.

(* ---------- the predicates of the property ---------- *)

(* at most one queued job is executing at any instant *)
Definition mutex (ev : list sev) : Prop :=
  forall j1 j2, executing_queued ev j1 -> executing_queued ev j2 -> j1 = j2.

(* each start takes the head of the queue as it is at that moment, and jobs begin in the
   order in which they were taken (at most one taken job has not begun yet) *)
Definition fifo (ev : list sev) : Prop :=
  (forall older j, earlier (SDeq j :: older) ev -> hd_error (aqueue older) = Some j) /\
  (exists pending, deq_order ev = begin_order ev ++ pending /\ (length pending <= 1)%nat).

(* no job is executed twice *)
Definition at_most_once (ev : list sev) : Prop := forall j, (exec_count ev j <= 1)%nat.

(* in a final history: every job queued and not explicitly cleared was executed (exactly
   once, by at_most_once) and its execution is over *)
Definition all_executed (ev : list sev) : Prop :=
  forall j, enqueued ev j -> ~ In j (cleared ev) -> exec_count ev j = 1%nat /\ left ev j.

(* background jobs: reported under their name from registration until the completion
   callback has run; this interval contains the execution *)
Definition registered (ev : list sev) (j : Z) : Prop := In (SBgReg j) ev /\ ~ In (SBgForget j) ev.
Definition background_window (ev : list sev) : Prop :=
  (forall j, In (SBegin j false) ev -> ~ left ev j -> registered ev j) /\        (* executing => reported *)
  (forall older j, earlier (SBgForget j :: older) ev -> left older j) /\         (* forgotten only after it ended *)
  (forall older j b, earlier (SAsk j b :: older) ev ->
      (b = true <-> In (SBgReg j) older /\ ~ In (SBgForget j) older)).           (* the answer is the registration *)

(* ---------- the same as an executable monitor (oracle for real event logs) ---------- *)
Record astate := {
  a_queue : list Z;       (* abstract queue *)
  a_pending : list Z;     (* taken from the queue, execute() not yet entered (oldest first) *)
  a_exec : list Z;        (* queued jobs executing *)
  a_begun : list Z;
  a_left : list Z;
  a_enq : list Z;         (* ever queued *)
  a_cleared : list Z;
  a_bg : list Z;          (* registered background names *)
  a_bgreg : list Z;       (* ever registered *)
  a_bad : list nat        (* violated checks, newest first *)
}.

Definition astate0 : astate :=
  {| a_queue := []; a_pending := []; a_exec := []; a_begun := []; a_left := []; a_enq := [];
     a_cleared := []; a_bg := []; a_bgreg := []; a_bad := [] |}.

Definition memz (j : Z) (l : list Z) : bool := existsb (Z.eqb j) l.
Definition remz (j : Z) (l : list Z) : list Z := filter (fun x => negb (x =? j)) l.
Definition chk (b : bool) (code : nat) (bad : list nat) : list nat := if b then bad else code :: bad.

(* violation codes *)
Definition bad_mutex : nat := 1.        (* a queued job begins while another queued job executes *)
Definition bad_order : nat := 2.        (* a queued job begins that is not the oldest one taken from the queue *)
Definition bad_fifo : nat := 3.         (* the job taken is not the head of the abstract queue *)
Definition bad_twice : nat := 4.        (* execute() entered a second time *)
Definition bad_bg_hidden : nat := 5.    (* a background job executes while it is not registered *)
Definition bad_bg_forget : nat := 6.    (* a background job is forgotten before it has ended *)
Definition bad_scenario : nat := 7.     (* job number used twice: outside the quantifier (distinct jobs/names) *)
Definition bad_end : nat := 8.          (* execute() left without having been entered *)
Definition bad_ask : nat := 9.          (* `name in background` differs from the registration *)
Definition bad_final : nat := 10.       (* final state: something queued/active/registered, or a job not executed *)

Definition astep (s : astate) (e : sev) : astate :=
  match e with
  | SEnqBack j =>
      {| a_queue := a_queue s ++ [j]; a_pending := a_pending s; a_exec := a_exec s; a_begun := a_begun s;
         a_left := a_left s; a_enq := j :: a_enq s; a_cleared := a_cleared s; a_bg := a_bg s; a_bgreg := a_bgreg s;
         a_bad := chk (negb (memz j (a_enq s) || memz j (a_bgreg s))) bad_scenario (a_bad s) |}
  | SEnqFront j =>
      {| a_queue := j :: a_queue s; a_pending := a_pending s; a_exec := a_exec s; a_begun := a_begun s;
         a_left := a_left s; a_enq := j :: a_enq s; a_cleared := a_cleared s; a_bg := a_bg s; a_bgreg := a_bgreg s;
         a_bad := chk (negb (memz j (a_enq s) || memz j (a_bgreg s))) bad_scenario (a_bad s) |}
  | SClear =>
      {| a_queue := []; a_pending := a_pending s; a_exec := a_exec s; a_begun := a_begun s;
         a_left := a_left s; a_enq := a_enq s; a_cleared := a_queue s ++ a_cleared s; a_bg := a_bg s; a_bgreg := a_bgreg s;
         a_bad := a_bad s |}
  | SDeq j =>
      {| a_queue := tl (a_queue s); a_pending := a_pending s ++ [j]; a_exec := a_exec s; a_begun := a_begun s;
         a_left := a_left s; a_enq := a_enq s; a_cleared := a_cleared s; a_bg := a_bg s; a_bgreg := a_bgreg s;
         a_bad := chk (match a_queue s with x :: _ => x =? j | [] => false end) bad_fifo (a_bad s) |}
  | SDeqEmpty =>
      {| a_queue := a_queue s; a_pending := a_pending s; a_exec := a_exec s; a_begun := a_begun s;
         a_left := a_left s; a_enq := a_enq s; a_cleared := a_cleared s; a_bg := a_bg s; a_bgreg := a_bgreg s;
         a_bad := chk (match a_queue s with [] => true | _ => false end) bad_fifo (a_bad s) |}
  | SBegin j true =>
      {| a_queue := a_queue s; a_pending := tl (a_pending s); a_exec := j :: a_exec s; a_begun := j :: a_begun s;
         a_left := a_left s; a_enq := a_enq s; a_cleared := a_cleared s; a_bg := a_bg s; a_bgreg := a_bgreg s;
         a_bad := chk (match a_exec s with [] => true | _ => false end) bad_mutex
                  (chk (match a_pending s with x :: _ => x =? j | [] => false end) bad_order
                  (chk (negb (memz j (a_begun s))) bad_twice (a_bad s))) |}
  | SBegin j false =>
      {| a_queue := a_queue s; a_pending := a_pending s; a_exec := a_exec s; a_begun := j :: a_begun s;
         a_left := a_left s; a_enq := a_enq s; a_cleared := a_cleared s; a_bg := a_bg s; a_bgreg := a_bgreg s;
         a_bad := chk (memz j (a_bg s)) bad_bg_hidden
                  (chk (negb (memz j (a_begun s))) bad_twice (a_bad s)) |}
  | SEnd j | SRaise j =>
      {| a_queue := a_queue s; a_pending := a_pending s; a_exec := remz j (a_exec s); a_begun := a_begun s;
         a_left := j :: a_left s; a_enq := a_enq s; a_cleared := a_cleared s; a_bg := a_bg s; a_bgreg := a_bgreg s;
         a_bad := chk (memz j (a_begun s) && negb (memz j (a_left s))) bad_end
                  (chk (memz j (a_exec s) || memz j (a_bg s)) bad_bg_hidden (a_bad s)) |}
  | SBgReg j =>
      {| a_queue := a_queue s; a_pending := a_pending s; a_exec := a_exec s; a_begun := a_begun s;
         a_left := a_left s; a_enq := a_enq s; a_cleared := a_cleared s; a_bg := j :: a_bg s; a_bgreg := j :: a_bgreg s;
         a_bad := chk (negb (memz j (a_enq s) || memz j (a_bgreg s))) bad_scenario (a_bad s) |}
  | SBgForget j =>
      {| a_queue := a_queue s; a_pending := a_pending s; a_exec := a_exec s; a_begun := a_begun s;
         a_left := a_left s; a_enq := a_enq s; a_cleared := a_cleared s; a_bg := remz j (a_bg s); a_bgreg := a_bgreg s;
         a_bad := chk (memz j (a_left s)) bad_bg_forget (a_bad s) |}
  | SAsk j b =>
      {| a_queue := a_queue s; a_pending := a_pending s; a_exec := a_exec s; a_begun := a_begun s;
         a_left := a_left s; a_enq := a_enq s; a_cleared := a_cleared s; a_bg := a_bg s; a_bgreg := a_bgreg s;
         a_bad := chk (Bool.eqb b (memz j (a_bg s))) bad_ask (a_bad s) |}
  | SOther => s
  end.

Fixpoint monitor (ev : list sev) : astate :=
  match ev with
  | [] => astate0
  | e :: older => astep (monitor older) e
  end.

(* what must hold of the history when every thread has finished *)
Definition final_ok (s : astate) : bool :=
  match a_queue s, a_pending s, a_exec s, a_bg s with
  | [], [], [], [] =>
      forallb (fun j => memz j (a_cleared s) || (memz j (a_begun s) && memz j (a_left s))) (a_enq s)
      && forallb (fun j => memz j (a_begun s) && memz j (a_left s)) (a_bgreg s)
  | _, _, _, _ => false
  end.

Definition accepted (h : list entry) : Prop := a_bad (monitor (events h)) = [].
Definition accepted_final (h : list entry) : Prop :=
  a_bad (monitor (events h)) = [] /\ final_ok (monitor (events h)) = true.
