"""Simulated LIFX network (DESIGN 5.4): fake `lifxlan` device objects and a fake
`lifxlan.LifxLAN` that record every call made by the PRODUCTION wrappers
(bardolph/controller/lifx_lan_light.py, lifx_lan_api.py) and raise WorkflowException
according to a fault plan.

A *request* is one call of a method of a device object (or of the LifxLAN object); it is
identified by (device label, request kind, occurrence), occurrence = how many requests of
that kind the device has seen before, counted over the life of the Network object since the
last reset().  A fault plan is a set of such keys: those requests are not answered (raise
WorkflowException); all others are answered.  The pseudo device LAN ('*lan*') stands for
broadcasts / the socket.

Population entries: dict(name, group, location, kind='plain'|'multizone'|'matrix',
zones=n | height=h, width=w).
"""
import sys
import types

LAN = '*lan*'

# request kinds, in the order of the Coq type Lights.Faults.rkind
KINDS = ['lan_get_lights', 'lan_set_color_all', 'lan_set_power_all',
         'get_label', 'get_group', 'get_location', 'get_features', 'get_product_name',
         'get_color', 'set_color', 'get_power', 'set_power',
         'get_zones', 'set_zones', 'get_chain', 'get_tile', 'set_tile']


def ensure_lifxlan():
    """The real package when importable, otherwise a stub with the names the wrappers use."""
    try:
        import lifxlan  # noqa: F401
        import lifxlan.errors  # noqa: F401
        import lifxlan.msgtypes  # noqa: F401
        return 'real'
    except Exception:
        pass
    pkg = types.ModuleType('lifxlan')
    errors = types.ModuleType('lifxlan.errors')
    msgtypes = types.ModuleType('lifxlan.msgtypes')

    class WorkflowException(Exception):
        pass

    class InvalidParameterException(Exception):
        pass
    errors.WorkflowException = WorkflowException
    errors.InvalidParameterException = InvalidParameterException
    for n in ('GetDeviceChain', 'StateDeviceChain', 'GetTileState64', 'SetTileState64', 'StateTileState64'):
        setattr(msgtypes, n, type(n, (), {}))
    pkg.errors = errors
    pkg.msgtypes = msgtypes
    pkg.WorkflowException = WorkflowException
    pkg.LifxLAN = None
    sys.modules['lifxlan'] = pkg
    sys.modules['lifxlan.errors'] = errors
    sys.modules['lifxlan.msgtypes'] = msgtypes
    return 'stub'


class Network:
    def __init__(self, population, plan=None):
        self.population = [dict(p) for p in population]
        self.devices = [FakeDevice(self, p) for p in self.population]
        self.by_label = {d.label: d for d in self.devices}
        self.reset(plan)

    def reset(self, plan=None, keep_state=False):
        """Start a new observation: empty log, occurrence counters at zero, device state
        back to its initial value (unless keep_state)."""
        self.plan = set(plan or ())
        self.log = []        # (label, kind, occurrence, answered, payload)
        self.requests = []   # [dict(label, kind, payload, outcomes, resent_differently)]
        self._open = None    # (label, kind, index into requests or None)
        self.counts = {}
        if not keep_state:
            for d in self.devices:
                d.color = list(d.spec.get('color', [0, 0, 0, 0]))
                d.power = 0

    def request(self, label, kind, payload=None):
        from lifxlan.errors import WorkflowException
        occ = self.counts.get((label, kind), 0)
        self.counts[(label, kind)] = occ + 1
        ok = (label, kind, occ) not in self.plan
        self.log.append((label, kind, occ, ok, payload))
        self._group(label, kind, ok, payload)
        if not ok:
            raise WorkflowException('WorkflowException: Did not receive an answer from %s to %s #%d' % (label, kind, occ))

    # ---- grouping of attempts into requests ----
    def begin(self, label, kind):
        """Called by the shim around a production wrapper method (see instrument_wrappers): the
        attempts of kind `kind` at `label` that follow, up to the next begin(), are one request."""
        self._open = (label, kind, None)

    def _group(self, label, kind, ok, payload):
        if self._open is not None and self._open[0] == label and self._open[1] == kind:
            idx = self._open[2]
            if idx is None:
                self.requests.append({'label': label, 'kind': kind, 'payload': payload, 'outcomes': [ok], 'resent_differently': False})
                self._open = (label, kind, len(self.requests) - 1)
            else:
                rq = self.requests[idx]
                rq['outcomes'].append(ok)
                if rq['payload'] != payload:
                    rq['resent_differently'] = True
            return
        # a call that no wrapper method announced (LifxLAN calls, the getters used by the
        # constructors): every attempt is a request of its own
        self.requests.append({'label': label, 'kind': kind, 'payload': payload, 'outcomes': [ok], 'resent_differently': False})

    # ---- views of the log ----
    def attempts(self):
        """[(label, kind, answered, payload)] in order."""
        return [(l, k, ok, p) for (l, k, o, ok, p) in self.log]

    def delivered_at(self, label):
        """Calls that reached the device `label` (answered requests), with their arguments."""
        return [(k, p) for (l, k, o, ok, p) in self.log if l == label and ok]

    def labels(self):
        return [d.label for d in self.devices]


class _Chain:
    def __init__(self, height, width):
        self.tile_devices = [{'width': width, 'height': height}]
        self.start_index = 0


class _TileState:
    def __init__(self, colors):
        self.colors = colors


class FakeDevice:
    def __init__(self, net, spec):
        self.net = net
        self.spec = spec
        self.label = spec['name']
        self.kind = spec.get('kind', 'plain')
        self.color = list(spec.get('color', [0, 0, 0, 0]))
        self.power = 0

    def __repr__(self):
        return 'FakeDevice(%r, %s)' % (self.label, self.kind)

    # identity and product
    def get_label(self):
        self.net.request(self.label, 'get_label')
        return self.label

    def get_group(self):
        self.net.request(self.label, 'get_group')
        return self.spec['group']

    def get_location(self):
        self.net.request(self.label, 'get_location')
        return self.spec['location']

    def get_product_features(self):
        self.net.request(self.label, 'get_features')
        return {'color': True, 'multizone': self.kind == 'multizone', 'matrix': self.kind == 'matrix',
                'chain': False, 'infrared': False}

    def get_product_name(self):
        self.net.request(self.label, 'get_product_name')
        return {'plain': 'LIFX A19', 'multizone': 'LIFX Z', 'matrix': 'LIFX Candle'}[self.kind]

    # light
    def get_color(self):
        self.net.request(self.label, 'get_color')
        return list(self.color)

    def set_color(self, color, duration=0, rapid=False):
        self.net.request(self.label, 'set_color', [list(color), duration, rapid])
        self.color = list(color)

    def get_power(self):
        self.net.request(self.label, 'get_power')
        return self.power

    def set_power(self, power, duration=0, rapid=False):
        self.net.request(self.label, 'set_power', [power, duration, rapid])
        self.power = 65535 if power else 0

    # multizone
    def get_color_zones(self, start=None, end=None):
        self.net.request(self.label, 'get_zones', [start, end])
        return [[0, 0, 0, 0] for _ in range(self.spec.get('zones', 0))]

    def set_zone_color(self, start_index, end_index, color, duration=0, rapid=False, apply=1):
        self.net.request(self.label, 'set_zones', [start_index, end_index, list(color), duration])

    # matrix
    def req_with_resp(self, msg_type, response_type, payload={}, **kw):
        name = getattr(msg_type, '__name__', str(msg_type))
        if name == 'GetDeviceChain':
            self.net.request(self.label, 'get_chain')
            return _Chain(self.spec.get('height', 0), self.spec.get('width', 0))
        if name == 'GetTileState64':
            self.net.request(self.label, 'get_tile', [payload.get('width'), payload.get('height')])
            n = (self.spec.get('height', 0) or 0) * (self.spec.get('width', 0) or 0)
            return _TileState([[0, 0, 0, 0] for _ in range(n)])
        self.net.request(self.label, 'other:' + name)
        return None

    def fire_and_forget(self, msg_type, payload={}, timeout_secs=None, num_repeats=1):
        name = getattr(msg_type, '__name__', str(msg_type))
        if name == 'SetTileState64':
            self.net.request(self.label, 'set_tile',
                             [[list(c) if c is not None else None for c in payload.get('colors', [])],
                              payload.get('duration'), payload.get('width'), payload.get('height')])
            return
        self.net.request(self.label, 'other:' + name)


# multizone-only and matrix-only methods must be absent from other kinds?  The real
# lifxlan gives every Device req_with_resp/fire_and_forget and only MultiZoneLight the zone
# calls; the production wrappers only test hasattr(impl, 'set_zone_color') on a multizone
# wrapper, so a single fake class is observationally the same for them.


class FakeLifxLAN:
    """Stands for lifxlan.LifxLAN; every instance shares the Network given to install()."""
    network = None

    def __init__(self, num_lights=None, verbose=False):
        self.num_lights = num_lights
        self.net = FakeLifxLAN.network

    def get_lights(self):
        self.net.request(LAN, 'lan_get_lights')
        return list(self.net.devices)

    def set_color_all_lights(self, color, duration=0, rapid=False):
        self.net.request(LAN, 'lan_set_color_all', [list(color), duration, rapid])
        for d in self.net.devices:
            d.color = list(color)

    def set_power_all_lights(self, power_level, duration=0, rapid=False):
        self.net.request(LAN, 'lan_set_power_all', [power_level, duration, rapid])
        for d in self.net.devices:
            d.power = 65535 if power_level else 0


def install(network):
    """Make lifxlan.LifxLAN the fake bound to `network` (call before LifxLanApi is instantiated;
    bardolph.controller.lifx_lan_api looks the class up through the module at call time)."""
    ensure_lifxlan()
    import lifxlan
    FakeLifxLAN.network = network
    lifxlan.LifxLAN = FakeLifxLAN
    return network


# wrapper method -> request kind it makes
WRAPPER_METHODS = {
    'Light': {'get_color': 'get_color', 'set_color': 'set_color', 'get_power': 'get_power', 'set_power': 'set_power'},
    'MultizoneLight': {'get_zone_colors': 'get_zones', 'set_zone_colors': 'set_zones'},
    'MatrixLight': {'_get_size': 'get_chain', 'set_matrix': 'set_tile', 'get_matrix': 'get_tile'},
}


def instrument_wrappers():
    """Put a shim around the request methods of the production wrappers that tells the network
    where a request begins (so that retries can be told from repeated commands).  The shim calls
    the original attribute, whatever decorates it.  Idempotent."""
    ensure_lifxlan()
    from bardolph.controller import lifx_lan_light
    import functools
    for cname, methods in WRAPPER_METHODS.items():
        cls = getattr(lifx_lan_light, cname)
        for mname, kind in methods.items():
            orig = cls.__dict__.get(mname)
            if orig is None or getattr(orig, '_c12_shim', False):
                continue

            def make(orig, kind):
                @functools.wraps(orig)
                def shim(self, *a, **k):
                    net = FakeLifxLAN.network
                    impl = getattr(self, '_impl', None)
                    if net is not None and impl is not None:
                        net.begin(getattr(impl, 'label', None), kind)
                    return orig(self, *a, **k)
                shim._c12_shim = True
                return shim
            setattr(cls, mname, make(orig, kind))
    # the broadcasts of LifxLanApi (retried since D47): same announcement, addressed to the LAN
    from bardolph.controller import lifx_lan_api
    for mname, kind in (('set_color_all_lights', 'lan_set_color_all'), ('set_power_all_lights', 'lan_set_power_all')):
        orig = lifx_lan_api.LifxLanApi.__dict__.get(mname)
        if orig is None or getattr(orig, '_c12_shim', False):
            continue

        def make_lan(orig, kind):
            @functools.wraps(orig)
            def shim(self, *a, **k):
                net = FakeLifxLAN.network
                if net is not None:
                    net.begin(LAN, kind)
                return orig(self, *a, **k)
            shim._c12_shim = True
            return shim
        setattr(lifx_lan_api.LifxLanApi, mname, make_lan(orig, kind))
