"""Shared by the C07 and C14 checks: running scripts on the real pipeline (Parser + Machine +
LightSet) against simulated devices, and float <-> Coq conversions.

Two populations:
  'fakes'  the repository's own bardolph.fakes (fake_light_api): observation = call lists;
  'wire'   the production wrappers lifx_lan_api.LifxLanApi / lifx_lan_light.* on top of fake
           `lifxlan` device objects defined here: observation = arguments arriving at those
           objects (what would be put on the network).
Lights:  L1, L2 (group G, location Loc), Z (multi-zone, 16 zones), M (matrix 6x5)."""
import decimal
import math

import common
import tests_env

MODES = ['logical', 'raw', 'rgb']
KINDS = ['light', 'group', 'location', 'all', 'zone', 'matrix', 'p-light', 'p-group', 'p-location', 'p-all']


# ---------------------------------------------------------------------------
# floats

def float_code(x):
    """Injective integer code of a float; mirrors Base/PyNum.v sf_code."""
    if isinstance(x, int) and not isinstance(x, bool):
        x = float(x)
    if math.isnan(x):
        return 1
    if x == 0:
        return 3 if math.copysign(1.0, x) < 0 else 2
    if math.isinf(x):
        return 5 if x < 0 else 4
    m, e = math.frexp(abs(x))
    mant = int(m * (1 << 53))
    exp = e - 53
    if exp < -1074:
        sh = -1074 - exp
        mant >>= sh
        exp = -1074
    return 8 + (1 if x < 0 else 0) + 2 * (mant + (1 << 53) * (exp + 1074))


def lit(x):
    """Script literal that denotes exactly the float/int x (no exponent syntax in the language)."""
    if isinstance(x, int):
        return str(x)
    if x == int(x) and abs(x) < 2 ** 63:
        return str(int(x))
    return format(decimal.Decimal(x), 'f')


def coq_f(x):
    return common.coq_float(float(x))


def is_finite(x):
    return not (math.isnan(x) or math.isinf(x))


# ---------------------------------------------------------------------------
# simulated lifxlan

class FakeDevice:
    """Stands for a lifxlan Light / MultiZoneLight / TileChain: records what it is sent."""

    def __init__(self, label, group, location, multizone=False, matrix=False):
        self.label, self.group, self.location = label, group, location
        self.multizone, self.matrix = multizone, matrix
        self.calls = []
        self.color = [0, 0, 0, 0]
        self.power = 0

    def get_label(self):
        return self.label

    def get_group(self):
        return self.group

    def get_location(self):
        return self.location

    def get_product_features(self):
        return {'color': True, 'multizone': self.multizone, 'matrix': self.matrix}

    def get_product_name(self):
        return 'simulated'

    def get_color(self):
        return list(self.color)

    def get_power(self):
        return self.power

    def set_color(self, color, duration=0, rapid=False):
        self.calls.append(('color', list(color), duration))

    def set_power(self, power, duration=0, rapid=False):
        self.calls.append(('power', power, duration))

    def get_color_zones(self, start=None, end=None):
        return [[0, 0, 0, 0] for _ in range(16)]

    def set_zone_color(self, start, end, color, duration=0, rapid=False, apply=1):
        self.calls.append(('zone', start, end, list(color), duration))

    def req_with_resp(self, msg_type, resp_type, payload=None, **kw):
        class Resp:
            tile_devices = [{'width': 5, 'height': 6}]
            start_index = 0
            colors = [[0, 0, 0, 0]] * 30
        return Resp()

    def fire_and_forget(self, msg_type, payload=None, **kw):
        self.calls.append(('matrix', [None if c is None else list(c) for c in payload['colors']], payload['duration']))


class FakeLifxLAN:
    instance = None

    def __init__(self, num_lights=None, verbose=False):
        self.devices = [FakeDevice('L1', 'G', 'Loc'), FakeDevice('L2', 'G', 'Loc'),
                        FakeDevice('Z', 'GZ', 'Loc2', multizone=True), FakeDevice('M', 'GM', 'LocM', matrix=True)]
        self.calls = []
        FakeLifxLAN.instance = self

    def get_lights(self):
        return self.devices

    def set_color_all_lights(self, color, duration=0, rapid=False):
        self.calls.append(('color', list(color), duration))

    def set_power_all_lights(self, power, duration=0, rapid=False):
        self.calls.append(('power', power, duration))


class RecordingClock:
    def __init__(self):
        self.pauses = []

    def start(self):
        pass

    def stop(self):
        pass

    def reset(self):
        pass

    def pause_for(self, delay):
        self.pauses.append(delay)

    def wait_until(self, pattern):
        self.pauses.append(('until', repr(pattern)))


class ErrorLog:
    """Stands in for the `logging` module inside bardolph.vm.machine so that an exception that
    Machine.run swallows ("Machine stopped due to ...") is seen by the harness."""

    def __init__(self, real):
        self._real = real
        self.errors = []

    def __getattr__(self, name):
        return getattr(self._real, name)

    def error(self, msg, *a, **k):
        self.errors.append(str(msg))


class World:
    def __init__(self, kind):
        from bardolph.lib import injection, i_lib
        from bardolph.controller import i_controller, light_set
        self.kind = kind
        self.out = tests_env.configure(self.specs() if kind == 'fakes' else None)
        if kind == 'wire':
            import lifxlan
            from bardolph.controller import lifx_lan_api
            self._saved = lifxlan.LifxLAN
            lifxlan.LifxLAN = FakeLifxLAN
            try:
                api = lifx_lan_api.LifxLanApi()
            finally:
                lifxlan.LifxLAN = self._saved
            injection.bind_instance(api).to(i_controller.LightApi)
            self.lan = FakeLifxLAN.instance
            light_set.configure()
        self.clock = RecordingClock()
        injection.bind_instance(self.clock).to(i_lib.Clock)
        self.api = injection.provide(i_controller.LightApi)
        import bardolph.vm.machine as machine_mod
        if not isinstance(machine_mod.logging, ErrorLog):
            machine_mod.logging = ErrorLog(machine_mod.logging)
        self.errlog = machine_mod.logging
        # the injection registry is global: remember this world's bindings
        self._providers = dict(injection._providers)

    def activate(self):
        from bardolph.lib import injection
        if injection._providers != self._providers:
            injection._providers.clear()
            injection._providers.update(self._providers)

    @staticmethod
    def specs():
        from bardolph.fakes.fake_light_api import LightType
        return (('L1', 'G', 'Loc'), ('L2', 'G', 'Loc'),
                ('Z', 'GZ', 'Loc2', LightType.MULTI_ZONE, 16), ('M', 'GM', 'LocM', LightType.MATRIX, 6, 5))

    def clear(self):
        self.clock.pauses.clear()
        self.errlog.errors.clear()
        if hasattr(self.out, '_output_objects'):
            self.out._output_objects.clear()
        if self.kind == 'fakes':
            self.api._monitor.clear()
            for l in self.api.get_lights():
                l._monitor.clear()
                l._monitor._quiet = False
        else:
            self.lan.calls.clear()
            for d in self.lan.devices:
                d.calls.clear()

    def calls(self):
        """{'L1': [...], ..., 'all': [...]} with entries ('color', [4], dur) | ('power', p, dur) |
        ('zone', a, b, [4], dur) | ('matrix', cells, dur)."""
        res = {}
        if self.kind == 'fakes':
            from bardolph.fakes.activity_monitor import Action
            def conv(e):
                a = e[0]
                if a == Action.SET_COLOR:
                    return ('color', list(e[1]), e[2])
                if a == Action.SET_POWER:
                    return ('power', e[1], e[2])
                if a == Action.SET_ZONE_COLOR:
                    return ('zone', e[1], e[2], list(e[3]), e[4])
                if a == Action.SET_MATRIX:
                    return ('matrix', e[1], e[2])
                return ('other', a)
            for l in self.api.get_lights():
                res[l.get_name()] = [conv(e) for e in l.get_call_list()]
            res['all'] = [conv(e) for e in self.api.get_call_list()]
        else:
            for d in self.lan.devices:
                res[d.label] = list(d.calls)
            res['all'] = list(self.lan.calls)
        return res


class Run:
    pass


def run_script(world, src):
    """Compile and run on the real Parser/Machine, synchronously.  Returns a Run with
    .compiled, .errors (swallowed exceptions), .calls, .pauses, .printed, .reg."""
    from bardolph.parser.parse import Parser
    from bardolph.vm.machine import Machine
    world.activate()
    world.clear()
    r = Run()
    parser = Parser()
    r.compiled = bool(parser.parse(src))
    r.errors = []
    r.calls, r.pauses, r.printed, r.reg = {}, [], [], None
    if not r.compiled:
        r.errors = ['compile: ' + str(parser.get_errors())]
        return r
    m = Machine()
    try:
        m.run(parser.get_program())
    except Exception as ex:     # Machine.run catches everything; belt and braces
        r.errors.append('escaped: %s: %s' % (type(ex).__name__, ex))
    r.errors += list(world.errlog.errors)
    r.calls = world.calls()
    r.pauses = list(world.clock.pauses)
    out = world.out
    r.printed = list(out.get_objects()) if hasattr(out, 'get_objects') else []
    r.reg = m._reg
    return r


# ---------------------------------------------------------------------------
# scripts

def settings_text(mode, color, duration, time):
    names = ('red', 'green', 'blue') if mode == 'rgb' else ('hue', 'saturation', 'brightness')
    parts = ['%s %s' % (n, lit(v)) for n, v in zip(names, color[:3])]
    parts.append('kelvin %s' % lit(color[3]))
    if duration is not None:
        parts.append('duration %s' % lit(duration))
    if time is not None:
        parts.append('time %s' % lit(time))
    return ' '.join(parts)


COMMANDS = {
    'light': 'set "L1"', 'group': 'set group "G"', 'location': 'set location "Loc"', 'all': 'set all',
    'zone': 'set "Z" zone 2 5', 'matrix': 'set "M" row 1 2 column 0 1',
    'p-light': '%s "L1"', 'p-group': '%s group "G"', 'p-location': '%s location "Loc"', 'p-all': '%s all',
}


def command_text(kind, on=True):
    c = COMMANDS[kind]
    return c % ('on' if on else 'off') if kind.startswith('p-') else c


def extract(world_kind, calls, kinds):
    """Map the recorded calls of a script that issued `kinds` in order (each once) to
    {kind: [observation, ...]} -- one observation per receiving light: ('color', [4], dur) /
    ('power', p, dur).  Raises ValueError if the call pattern is not the expected one."""
    pos = {k: 0 for k in calls}

    def take(name, tag):
        lst = calls.get(name, [])
        i = pos[name]
        if i >= len(lst) or lst[i][0] != tag:
            raise ValueError('light %s: call %d is %r, expected %s' % (name, i, lst[i] if i < len(lst) else None, tag))
        pos[name] = i + 1
        return lst[i]
    res = {}
    for k in kinds:
        if k == 'light':
            res[k] = [take('L1', 'color')]
        elif k in ('group', 'location'):
            res[k] = [take('L1', 'color'), take('L2', 'color')]
        elif k == 'all':
            res[k] = [take('all', 'color')]
        elif k == 'zone':
            e = take('Z', 'zone')
            if (e[1], e[2]) != (2, 6):
                raise ValueError('zone range %r' % (e[1:3],))
            res[k] = [('color', e[3], e[4])]
        elif k == 'matrix':
            e = take('M', 'matrix')
            cells = e[1]
            if world_kind == 'fakes':
                # the repository's fake records the ColorMatrix and the unclamped duration
                raise ValueError('matrix is observed in the wire population only')
            staged = [cells[r * 5 + c] for r in (1, 2) for c in (0, 1)]
            others = [cells[i] for i in range(30) if i not in (5, 6, 10, 11)]
            if any(s != staged[0] for s in staged) or any(o != [0, 0, 0, 0] for o in others):
                raise ValueError('matrix cells: staged %r, others %r' % (staged, others[:2]))
            res[k] = [('color', staged[0], e[2])]
        elif k == 'p-light':
            res[k] = [take('L1', 'power')]
        elif k in ('p-group', 'p-location'):
            res[k] = [take('L1', 'power'), take('L2', 'power')]
        elif k == 'p-all':
            res[k] = [take('all', 'power')]
    for name, lst in calls.items():
        if pos.get(name, 0) != len(lst):
            raise ValueError('light %s: %d unexpected further calls: %r' % (name, len(lst) - pos.get(name, 0), lst[pos.get(name, 0):][:2]))
    return res


def chunks(l, n):
    return [l[i:i + n] for i in range(0, len(l), n)]


def coq_eval(tag, imports, fn, rendered, per_file=400, sep=';'):
    """Evaluate `fn [case; ...]` in Coq over sharded files; returns the list of per-case strings."""
    parts = chunks(rendered, per_file)
    files = ['Eval vm_compute in (%s %s).\n' % (fn, common.coq_list(p)) for p in parts]
    res = common.run_cases(tag, imports, files)
    out = []
    for (ok, strs, log), part in zip(res, parts):
        if not ok or len(strs) != 1:
            raise RuntimeError('coq evaluation of %s failed: %s' % (fn, log[-1500:]))
        items = strs[0].split(sep)[:-1]
        if len(items) != len(part):
            raise RuntimeError('coq evaluation of %s: %d results for %d cases' % (fn, len(items), len(part)))
        out.extend(items)
    return out


def fix_axioms(ctx):
    """`Print Assumptions` prints long axioms over several lines (the name alone on the first);
    re-read the compiler output so that the evidence lists every axiom of every theorem."""
    import re
    proof = ctx.proof or {}
    log = proof.get('log')
    if not log or not proof.get('theorems'):
        return
    chunks = re.split(r'(?m)^(?=Closed under the global context|Axioms:)', log)
    blocks = []
    for ch in chunks:
        if ch.startswith('Closed under the global context'):
            blocks.append([])
        elif ch.startswith('Axioms:'):
            names = []
            for line in ch.splitlines()[1:]:
                if line and not line[0].isspace():
                    names.append(line.split(':')[0].split()[0])
            blocks.append(names)
    if len(blocks) == len(proof['theorems']):
        for t, b in zip(proof['theorems'], blocks):
            t['axioms'] = b
