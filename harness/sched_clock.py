"""Deterministic scheduling of the REAL Clock / Machine / JobControl threads (DESIGN 5.3).

Nothing in the tree under test is changed.  From outside, this module
  * replaces the names `threading`, `time`, `datetime` inside bardolph.lib.clock and
    `threading`, `collections` inside bardolph.lib.job_control by controlled substitutes
    (Thread, Event, RLock, deque; virtual time()/sleep()/datetime.now());
  * installs yielding data descriptors for the attributes shared between threads:
    Machine._keep_running, Clock._keep_going, Clock._cue_time, Clock._start_time,
    JobControl._active_agent.
Every shared access is a *yield point*: the thread parks in front of the access until the
scheduler hands it the next step, then performs the access and runs on to its next yield
point.  A schedule is a list of integers: at step i the next thread is
runnable[schedule[i] % len(runnable)], where `runnable` lists the enabled threads in creation
order followed, when some sleeper or timed waiter has a deadline in the virtual future, by the
pseudo thread TIME (its step moves the virtual clock to the earliest such deadline).  When the
list is exhausted a policy function chooses.  The choices actually made are recorded
(`effective`), so every run can be replayed from a plain list of integers.

Blocking primitives never block the operating-system thread on the real primitive: a thread
waiting for an Event, a lock, a sleep or a join is simply not enabled.  No enabled thread, no
pending deadline and an unfinished thread = DEADLOCK (reported, never hung).  A hard
wall-clock guard covers the harness itself.
"""
import collections as _collections
import threading as _threading
import time as _time
import types

TIME = 'T'


class SchedAbort(BaseException):
    """Raised inside controlled threads when a run is torn down."""


class CThread:
    """Scheduler-side record of a controlled thread."""

    def __init__(self, sched, label, fn):
        self.sched = sched
        self.label = label
        self.fn = fn
        self.go = _threading.Semaphore(0)
        self.pending = ('begin',)
        self.blocker = None          # callable -> bool (enabled?) or None
        self.deadline = None         # virtual time at which a sleep / timed wait ends
        self.finished = False
        self.started = False
        self.error = None
        self.real = None
        self.finished_at_end = False
        self.pending_at_end = None

    def enabled(self):
        if self.finished or not self.started:
            return False
        return self.blocker is None or bool(self.blocker())

    def _body(self):
        self.sched._tls.cur = self
        self.go.acquire()
        try:
            if self.sched.aborting:
                raise SchedAbort()
            self.fn()
        except SchedAbort:
            pass
        except BaseException as ex:   # an exception escaping a thread is an observation
            self.error = ex
            self.sched.note_for(self, 'raise', type(ex).__name__, str(ex)[:200])
        finally:
            self.finished = True
            self.blocker = None
            self.deadline = None
            self.sched._parked.release()


class Sched:
    def __init__(self, schedule=(), policy=None, max_steps=4000, wall_guard=20.0, t0=1000000.0):
        self.schedule = list(schedule)
        self.policy = policy or rr_policy
        self.max_steps = max_steps
        self.wall_guard = wall_guard
        self.vnow = t0
        self.threads = []
        self.log = []                # (step, label, kind, name, value)
        self.effective = []          # the integers actually used
        self.chosen = []             # labels of the threads stepped (TIME included)
        self.step = 0
        self.aborting = False
        self.outcome = None
        self.blocked = []            # labels of unfinished threads at a deadlock
        self._parked = _threading.Semaphore(0)
        self._tls = _threading.local()
        self.counters = {}
        self.on_step = None          # optional callback(sched) before each choice
        self.done_when = None        # optional predicate(sched): the run is over when it holds

    # ----- called from controlled threads -----
    def cur(self):
        return getattr(self._tls, 'cur', None)

    def point(self, desc, blocker=None, deadline=None):
        """Park in front of a shared access."""
        t = self.cur()
        if t is None or self.aborting:
            if self.aborting and t is not None:
                raise SchedAbort()
            return
        t.pending = desc
        t.blocker = blocker
        t.deadline = deadline
        self._parked.release()
        t.go.acquire()
        t.blocker = None
        t.deadline = None
        if self.aborting:
            raise SchedAbort()

    def note(self, kind, name=None, value=None):
        t = self.cur()
        self.note_for(t, kind, name, value)

    def mark(self, name, value=None):
        """An annotation in the log (not a yield point), stamped with the virtual time."""
        self.note_for(self.cur(), 'mark', name, (self.vnow, value))

    def note_for(self, t, kind, name=None, value=None):
        if self.aborting:
            return          # the tear-down unwinds the threads through their `finally` blocks: not part of the run
        self.log.append((self.step, t.label if t is not None else '-', kind, name, value))

    def label_for(self, kind):
        n = self.counters.get(kind, 0) + 1
        self.counters[kind] = n
        return '%s%d' % (kind, n)

    # ----- set-up -----
    def spawn(self, fn, label, start=True):
        t = CThread(self, label, fn)
        t.real = _threading.Thread(target=t._body, daemon=True)
        self.threads.append(t)
        if start:
            t.started = True
            t.real.start()
        return t

    def start_thread(self, t):
        t.started = True
        t.real.start()

    # ----- the scheduler proper -----
    def runnable(self):
        r = [t for t in self.threads if t.enabled()]
        dls = [t.deadline for t in self.threads
               if t.started and not t.finished and t.deadline is not None and t.deadline > self.vnow]
        if dls:
            r.append(TIME)
        return r

    def run(self):
        g = self.wall_guard
        t_end = _time.time() + g
        try:
            while True:
                if all(t.finished for t in self.threads if t.started):
                    self.outcome = 'done'
                    break
                if self.done_when is not None and self.done_when(self):
                    self.outcome = 'done'
                    break
                if self.step >= self.max_steps:
                    self.outcome = 'steps'
                    break
                if _time.time() > t_end:
                    self.outcome = 'stall'
                    break
                if self.on_step is not None:
                    self.on_step(self)
                r = self.runnable()
                if not r:
                    self.outcome = 'deadlock'
                    self.blocked = [(t.label, t.pending) for t in self.threads if t.started and not t.finished]
                    break
                if self.step < len(self.schedule):
                    k = self.schedule[self.step] % len(r)
                else:
                    k = self.policy(self, r) % len(r)
                self.effective.append(k)
                pick = r[k]
                self.chosen.append(pick if pick == TIME else pick.label)
                if pick == TIME:
                    self.vnow = min(t.deadline for t in self.threads
                                    if t.started and not t.finished and t.deadline is not None and t.deadline > self.vnow)
                    self.log.append((self.step, TIME, 'advance', None, self.vnow))
                else:
                    pick.go.release()
                    if not self._parked.acquire(timeout=max(0.1, t_end - _time.time())):
                        self.outcome = 'stall'
                        break
                self.step += 1
        finally:
            for t in self.threads:
                t.finished_at_end = t.finished      # before the tear-down unwinds what is left
                t.pending_at_end = t.pending
            self.teardown()
        return self.outcome

    def teardown(self):
        self.aborting = True
        for t in self.threads:
            if t.started and not t.finished:
                t.go.release()
        for t in self.threads:
            if t.started and t.real is not None:
                t.real.join(2.0)

    # ----- virtual time -----
    def v_time(self):
        self.point(('time',))
        v = self.vnow
        self.note('time', None, v)
        return v

    def v_sleep(self, dt):
        self.point(('sleep', dt))
        dl = self.vnow + max(0.0, dt)
        self.note('sleep', None, dt)
        self.point(('wake',), blocker=lambda: self.vnow >= dl, deadline=dl)
        self.note('wake', None, self.vnow)

    def v_now(self):
        """datetime.now(): hour and minute of the virtual day (vnow seconds, day = 86400 s)."""
        self.point(('now',))
        s = int(self.vnow) % 86400
        v = (s // 3600, (s % 3600) // 60)
        self.note('now', None, (v[0], v[1], self.vnow))
        return _VNow(v[0], v[1])


class _VNow:
    def __init__(self, hour, minute):
        self.hour = hour
        self.minute = minute


# ---------------------------------------------------------------------------
# policies: function(sched, runnable) -> index

def rr_policy(sched, r):
    return sched.step


def prio_policy(order, burst=8, patience=60):
    """Pick the first runnable thread whose label starts with one of the prefixes in `order`
    (TIME is 'T').  Fair: a thread that has had `burst` consecutive steps while another choice
    existed gives way once (a strict priority would let a thread spin between the clock
    thread's set() and clear() for ever), and a runnable thread that has not had a step for
    `patience` steps gets one."""
    state = {'last': None, 'n': 0, 'seen': {}}

    def pol(sched, r):
        labs = [t if t == TIME else t.label for t in r]
        for lab in labs:
            state['seen'].setdefault(lab, sched.step)
        for lab in list(state['seen']):
            if lab not in labs:
                del state['seen'][lab]
        cands = []
        for p in order:
            for i, lab in enumerate(labs):
                if lab.startswith(p) and i not in cands:
                    cands.append(i)
        for i in range(len(r)):
            if i not in cands:
                cands.append(i)
        pick = cands[0]
        if labs[pick] == state['last'] and state['n'] >= burst:
            # give way to another THREAD (never to TIME: virtual time must not jump while a
            # preferred thread is in the middle of something)
            alt = [i for i in cands[1:] if labs[i] != TIME]
            if alt:
                pick = alt[0]
        starving = [i for i, lab in enumerate(labs) if lab != TIME and sched.step - state['seen'][lab] > patience]
        if starving:
            pick = starving[0]
        if labs[pick] == state['last']:
            state['n'] += 1
        else:
            state['last'], state['n'] = labs[pick], 1
        state['seen'][labs[pick]] = sched.step
        return pick
    return pol


def random_policy(rng):
    def pol(sched, r):
        return rng.randrange(1 << 16)
    return pol


# ---------------------------------------------------------------------------
# the controlled substitutes

_ACTIVE = [None]     # the scheduler in force (one at a time)


def active():
    s = _ACTIVE[0]
    if s is not None and s.cur() is not None:
        return s
    return None


class Thread:
    """Substitute for threading.Thread inside clock.py / job_control.py."""

    def __init__(self, target=None, args=(), kwargs=None, daemon=None, name=None):
        self._target = target
        self._args = args
        self._kwargs = kwargs or {}
        self._ct = None
        self._plain = None

    def _kind(self):
        owner = getattr(self._target, '__self__', None)
        n = type(owner).__name__
        if n == 'Clock':
            return 'K'
        if n == 'Agent':
            return 'J'
        return 'X'

    def start(self):
        s = active()
        if s is None:
            self._plain = _threading.Thread(target=self._target, args=self._args, kwargs=self._kwargs, daemon=True)
            self._plain.start()
            return
        label = s.label_for(self._kind())
        s.point(('thread_start', label))
        self._ct = s.spawn(lambda: self._target(*self._args, **self._kwargs), label)
        s.note('thread_start', label, None)

    def is_alive(self):
        s = active()
        if self._ct is None:
            return self._plain.is_alive() if self._plain is not None else False
        if s is not None:
            s.point(('is_alive', self._ct.label))
        v = not self._ct.finished
        if s is not None:
            s.note('is_alive', self._ct.label, v)
        return v

    def join(self, timeout=None):
        s = active()
        if self._ct is None:
            if self._plain is not None:
                self._plain.join(timeout)
            return
        if s is not None:
            ct = self._ct
            s.point(('join', ct.label), blocker=lambda: ct.finished)
            s.note('join', ct.label, None)


class Event:
    """threading.Event: set() wakes every thread waiting at that moment (they return True even
    when the flag has been cleared again before they run), wait() on a set flag returns at once."""

    def __init__(self):
        self._flag = False
        self._waiters = []

    def is_set(self):
        return self._flag

    def set(self):
        s = active()
        if s is not None:
            s.point(('ev_set',))
        self._flag = True
        for w in self._waiters:
            w['woken'] = True
        self._waiters = []
        if s is not None:
            s.note('ev_set', None, None)

    def clear(self):
        s = active()
        if s is not None:
            s.point(('ev_clear',))
        self._flag = False
        if s is not None:
            s.note('ev_clear', None, None)

    def wait(self, timeout=None):
        s = active()
        if s is None:
            return self._flag
        s.point(('ev_wait', timeout))
        if self._flag:
            s.note('ev_wait', timeout, 'set')
            return True
        w = {'woken': False}
        self._waiters.append(w)
        s.note('ev_wait', timeout, 'block')
        dl = None if timeout is None else s.vnow + timeout
        s.point(('ev_wake',), blocker=lambda: w['woken'] or (dl is not None and s.vnow >= dl), deadline=dl)
        if not w['woken'] and w in self._waiters:
            self._waiters.remove(w)
        s.note('ev_wake', None, 'woken' if w['woken'] else 'timeout')
        return w['woken']


class RLock:
    def __init__(self):
        self._owner = None
        self._count = 0

    def acquire(self, blocking=True, timeout=-1):
        s = active()
        if s is None:
            self._count += 1
            return True
        me = s.cur()
        # the 1 s acquisition time-out is modelled as blocking (DESIGN 8)
        s.point(('acquire',), blocker=lambda: self._owner is None or self._owner is me)
        self._owner = me
        self._count += 1
        s.note('acquire', None, self._count)
        return True

    def release(self):
        s = active()
        if s is not None:
            s.point(('release',))
        if self._count <= 0:
            raise RuntimeError('cannot release un-acquired lock')
        self._count -= 1
        if self._count == 0:
            self._owner = None
        if s is not None:
            s.note('release', None, self._count)

    __enter__ = acquire

    def __exit__(self, *a):
        self.release()


class YDeque(_collections.deque):
    """deque whose operations are yield points."""

    def _pt(self, name):
        s = active()
        if s is not None:
            s.point(('q.' + name,))
        return s

    def append(self, x):
        s = self._pt('append')
        super().append(x)
        if s is not None:
            s.note('q.append', None, _collections.deque.__len__(self))

    def appendleft(self, x):
        s = self._pt('appendleft')
        super().appendleft(x)
        if s is not None:
            s.note('q.appendleft', None, _collections.deque.__len__(self))

    def popleft(self):
        s = self._pt('popleft')
        v = super().popleft()
        if s is not None:
            s.note('q.popleft', None, _collections.deque.__len__(self))
        return v

    def clear(self):
        s = self._pt('clear')
        super().clear()
        if s is not None:
            s.note('q.clear', None, 0)

    def __len__(self):
        s = self._pt('len')
        n = _collections.deque.__len__(self)
        if s is not None:
            s.note('q.len', None, n)
        return n


class Shared:
    """Yielding data descriptor for one shared attribute."""

    def __init__(self, name):
        self.name = name
        self.slot = '_v_' + name

    def __set_name__(self, owner, name):
        pass

    def __get__(self, obj, cls=None):
        if obj is None:
            return self
        s = active()
        if s is not None:
            s.point(('read', self.name))
        try:
            v = obj.__dict__[self.slot]
        except KeyError:
            raise AttributeError(self.name)
        if s is not None:
            s.note('read', self.name, _show(v))
        return v

    def __set__(self, obj, v):
        s = active()
        if s is not None:
            s.point(('write', self.name, _show(v)))
        obj.__dict__[self.slot] = v
        if s is not None:
            s.note('write', self.name, _show(v))


def _show(v):
    if v is None or isinstance(v, (bool, int, float, str)):
        return v
    n = getattr(v, 'name', None)
    return 'agent:%s' % n if isinstance(n, str) else type(v).__name__


SHARED = {
    'Machine': ['_keep_running'],
    'Clock': ['_keep_going', '_cue_time', '_start_time'],
    'JobControl': ['_active_agent'],
}

_installed = {}


def install():
    """Put the substitutes in place (idempotent).  Objects must be created afterwards."""
    if _installed:
        return
    from bardolph.lib import clock, job_control
    from bardolph.vm import machine
    _installed['clock'] = (clock.threading, clock.time, clock.datetime)
    _installed['jc'] = (job_control.threading, job_control.collections)
    clock.threading = types.SimpleNamespace(Thread=Thread, Event=Event)
    clock.time = types.SimpleNamespace(
        time=lambda: (active().v_time() if active() else (_ACTIVE[0].vnow if _ACTIVE[0] else _time.time())),
        sleep=lambda dt: (active().v_sleep(dt) if active() else None))
    clock.datetime = types.SimpleNamespace(
        now=lambda: (active().v_now() if active() else _VNow(0, 0)))
    job_control.threading = types.SimpleNamespace(Thread=Thread, RLock=RLock)
    job_control.collections = types.SimpleNamespace(deque=YDeque)
    classes = {'Machine': machine.Machine, 'Clock': clock.Clock, 'JobControl': job_control.JobControl}
    for cname, attrs in SHARED.items():
        for a in attrs:
            setattr(classes[cname], a, Shared(a))
    _installed['classes'] = classes


def uninstall():
    if not _installed:
        return
    from bardolph.lib import clock, job_control
    clock.threading, clock.time, clock.datetime = _installed['clock']
    job_control.threading, job_control.collections = _installed['jc']
    for cname, attrs in SHARED.items():
        for a in attrs:
            try:
                delattr(_installed['classes'][cname], a)
            except AttributeError:
                pass
    _installed.clear()


class use:
    """with use(sched): ... -- makes `sched` the scheduler in force."""

    def __init__(self, sched):
        self.sched = sched

    def __enter__(self):
        install()
        _ACTIVE[0] = self.sched
        return self.sched

    def __exit__(self, *a):
        _ACTIVE[0] = None


def access_inventory(objs):
    """Names of instance attributes of the given objects that are plain (not wrapped); used by
    the access-inventory test: attributes written by two threads must be in SHARED."""
    out = {}
    for o in objs:
        out[type(o).__name__] = sorted(k for k in o.__dict__ if not k.startswith('_v_'))
    return out
