"""Grammar-directed generator of Bardolph scripts: every generated script comes as source text
and as a Coq term of type Lang.Syntax.script.  A symbol environment keeps most scripts
compilable (names defined before use, arities respected, macro names distinct from
variables).  All random choices come from the rng handed in."""
import lang
from common import coq_str, coq_z

REGS_NUM = ['hue', 'saturation', 'brightness', 'kelvin', 'duration']
PREC = {'or': 2, 'and': 3, '==': 4, '<=': 4, '>=': 4, '!=': 4, '<': 4, '>': 4, '+': 5, '-': 5, '*': 6, '/': 6, '%': 6, '^': 7}
BINOP = {'+': 'BAdd', '-': 'BSub', '*': 'BMul', '/': 'BDiv', '%': 'BMod', '^': 'BPow', '==': 'BEq', '!=': 'BNe',
         '<': 'BLt', '<=': 'BLe', '>': 'BGt', '>=': 'BGe', 'and': 'BAnd', 'or': 'BOr'}


def coq_lit(v):
    if isinstance(v, str):
        return '(LStr %s)' % coq_str(v)
    if isinstance(v, float):
        return '(LFlt %s)' % lang.coq_float(v)
    return '(LInt %s)' % coq_z(v)


def txt_num(v):
    if isinstance(v, float):
        s = repr(v)
        assert 'e' not in s and 'inf' not in s and 'nan' not in s
        return s
    return str(v)


def coq_opt(x):
    return 'None' if x is None else '(Some %s)' % x


def coq_list(items):
    return '[' + '; '.join(items) + ']'


class World:
    NAME_CHARS = 'abcXYZ019 _-.'

    @staticmethod
    def generate(rng, max_lights=6, kinds=True):
        n = rng.choice([0, 1, 2, 3, 3, 4, 5, max_lights])
        names = set()
        while len(names) < n:
            k = rng.randint(1, 5)
            nm = ''.join(rng.choice(World.NAME_CHARS) for _ in range(k)).strip()
            # a string that is exactly one of the marks - { [ ( is the subject of C16 (D50), not of these checks
            if nm and nm not in ('-',):
                names.add(nm)
        groups = ['g1', 'g 2', 'G3']
        locs = ['l1', 'L 2']
        # a light, a group or a location may be labelled with the empty string (D63): it is a name like any other
        if n and rng.random() < 0.1:
            names.discard(sorted(names)[0])
            names.add('')
        if rng.random() < 0.1:
            groups.append('')
        if rng.random() < 0.1:
            locs.append('')
        world = []
        for nm in sorted(names, key=lambda _: rng.random()):
            kind = ('plain',)
            if kinds:
                r = rng.random()
                if r < 0.15:
                    kind = ('multi', rng.choice([1, 8, 16]))
                elif r < 0.3:
                    kind = ('matrix', rng.randint(1, 4), rng.randint(1, 4))
            world.append((nm, rng.choice(groups), rng.choice(locs), kind))
        return world


class Gen:
    """One script.  Statement generators return (text, coq)."""

    def __init__(self, rng, world, opts=None):
        self.rng = rng
        self.world = world
        self.opts = opts or {}
        self.globals = {}        # name -> 'num' | 'str'
        self.macros = {}         # name -> ('num'|'str'|'time', value)
        self.routines = {}       # name -> (params, is_function)
        self.locals = None       # inside a routine: {name: type}
        self.loop_depth = 0
        self.in_matrix = False
        self.fresh = 0
        self.stats = {}
        self.unit_mode = 'logical'
        self.prev_open = False

    # ---- helpers
    def stat(self, k):
        self.stats[k] = self.stats.get(k, 0) + 1

    def vars_of(self, typ):
        out = [n for n, t in self.globals.items() if t == typ]
        if self.locals is not None:
            out = [n for n in out if n not in self.locals] + [n for n, t in self.locals.items() if t == typ]
        return out

    def declare(self, name, typ):
        if self.locals is not None:
            if name in self.locals or name not in self.globals:
                self.locals[name] = typ
            else:
                self.globals[name] = typ
        else:
            self.globals[name] = typ

    def new_var_name(self):
        pool = ['a', 'b', 'c', 'x', 'y', 'n', 'v1', 'k_2']
        cands = [p for p in pool if p not in self.macros and p not in self.routines]
        return self.rng.choice(cands)

    def num_lit(self, small=False):
        r = self.rng.random()
        if small:
            return self.rng.randint(0, 4)
        if r < 0.55:
            return self.rng.choice([0, 1, 2, 3, 5, 7, 10, 25, 50, 100, 120, 359, 360, 400, 1000, 65535])
        if r < 0.8:
            return self.rng.choice([0.5, 1.5, 2.25, 12.5, 33.75, 0.125, 99.5, 180.0])
        return self.rng.randint(0, 500)

    def light_name(self):
        r = self.rng.random()
        # the empty name cannot be written in a script (`on ""` is rejected): it is reached by the light loops only
        named = [l for l in self.world if l[0]]
        if named and r < 0.85:
            return self.rng.choice(named)[0]
        return self.rng.choice(['nobody', 'zz top'])

    def group_name(self, loc=False):
        named = [l for l in self.world if l[2 if loc else 1]]
        if named and self.rng.random() < 0.85:
            return self.rng.choice(named)[2 if loc else 1]
        return 'no such'

    # ---- expressions
    def gen_tree(self, depth):
        """expression tree: ('lit', v) | ('macro', m) | ('var', x) | ('reg', r) | ('call', f, args) |
        ('bin', op, a, b) | ('neg', a) | ('pos', a)"""
        rng = self.rng
        if depth <= 0 or rng.random() < 0.3:
            r = rng.random()
            nums = self.vars_of('num')
            mnums = [m for m, (t, _) in self.macros.items() if t == 'num']
            if r < 0.4 or not (nums or mnums):
                return ('lit', self.num_lit())
            if r < 0.7 and nums:
                return ('var', rng.choice(nums))
            if r < 0.8 and mnums:
                return ('macro', rng.choice(mnums))
            if r < 0.9:
                return ('reg', rng.choice(REGS_NUM))
            return self.gen_call_tree(depth)
        r = rng.random()
        if r < 0.08:
            return ('neg', self.gen_tree(depth - 1))
        if r < 0.1:
            return ('pos', self.gen_tree(depth - 1))
        if r < 0.16:
            return self.gen_call_tree(depth)
        op = rng.choice(['+', '-', '*', '+', '-', '*', '/', '%', '^', '<', '<=', '>', '>=', '==', '!=', 'and', 'or'])
        a = self.gen_tree(depth - 1)
        if op == '^':
            b = ('lit', rng.randint(0, 3))
            if a[0] != 'lit' or abs(a[1]) > 12 or isinstance(a[1], float):
                a = ('lit', rng.randint(0, 9))
        elif op in ('/', '%') and rng.random() < 0.9:
            b = ('lit', rng.choice([1, 2, 3, 4, 7, 10, 360, 0.5, 2.5]))
        else:
            b = self.gen_tree(depth - 1)
        return ('bin', op, a, b)

    def gen_call_tree(self, depth):
        rng = self.rng
        fns = [f for f, (ps, isf) in self.routines.items() if isf and len(ps) <= 2 and f != getattr(self, 'defining', None)]
        if self.in_matrix:
            # inside a matrix block only pure built-ins are called: a routine could issue device commands
            # of its own, which the documentation does not define inside a block (hidden NAME/MATRIX registers)
            fns = []
        if fns and rng.random() < 0.6:
            f = rng.choice(fns)
            n = len(self.routines[f][0])
            if f in getattr(self, 'recursive', set()):
                k = rng.randint(0, 5)
                return ('call', f, [(str(k), '(RLit (LInt %d))' % k)])
        else:
            f = rng.choice(['round', 'floor', 'ceil', 'trunc', 'cycle', 'sqrt'])
            n = 1
        args = [self.gen_rval_num(depth - 1, neg_ok=True) for _ in range(n)]
        return ('call', f, args)

    @staticmethod
    def tree_prec(t):
        if t[0] == 'bin':
            return PREC[t[1]]
        return 9

    def parenthesize(self, t, redundant=0.1):
        """insert ('paren', t) nodes where the concrete syntax needs them, and some it does not"""
        rng = self.rng
        k = t[0]
        if k == 'bin':
            op, a, b = t[1], self.parenthesize(t[2], redundant), self.parenthesize(t[3], redundant)
            p = PREC[op]
            right = op == '^'
            pa, pb = self.tree_prec(a), self.tree_prec(b)
            if pa < p or (pa == p and right):
                a = ('paren', a)
            if pb < p or (pb == p and not right):
                b = ('paren', b)
            out = ('bin', op, a, b)
        elif k in ('neg', 'pos'):
            a = self.parenthesize(t[1], redundant)
            if a[0] == 'bin':
                a = ('paren', a)
            out = (k, a)
        else:
            out = t
        if rng.random() < redundant:
            out = ('paren', out)
        return out

    def tree_text(self, t):
        k = t[0]
        if k == 'lit':
            return txt_num(t[1])
        if k in ('var', 'macro', 'reg'):
            return t[1]
        if k == 'call':
            return '[' + ' '.join([t[1]] + [a[0] for a in t[2]]) + ']'
        if k == 'bin':
            sp = ' ' if self.rng.random() < 0.8 or t[1] in ('and', 'or') else ''
            return self.tree_text(t[2]) + sp + t[1] + sp + self.tree_text(t[3])
        if k == 'neg':
            return '-' + self.tree_text(t[1])
        if k == 'pos':
            return '+' + self.tree_text(t[1])
        if k == 'paren':
            return '(' + self.tree_text(t[1]) + ')'
        raise ValueError(k)

    def tree_coq(self, t):
        k = t[0]
        if k == 'lit':
            return '(ELit %s)' % coq_lit(t[1])
        if k == 'var':
            return '(EVar %s)' % coq_str(t[1])
        if k == 'macro':
            return '(EMacro %s)' % coq_str(t[1])
        if k == 'reg':
            return '(EReg R_%s)' % t[1].upper()
        if k == 'call':
            return '(ECall %s %s)' % (coq_str(t[1]), coq_list([a[1] for a in t[2]]))
        if k == 'bin':
            return '(EBin %s %s %s)' % (BINOP[t[1]], self.tree_coq(t[2]), self.tree_coq(t[3]))
        if k == 'neg':
            return '(ENeg %s)' % self.tree_coq(t[1])
        if k == 'pos':
            return '(EPos %s)' % self.tree_coq(t[1])
        if k == 'paren':
            return '(EParen %s)' % self.tree_coq(t[1])
        raise ValueError(k)

    def gen_expr_rval(self, depth=2):
        t = self.parenthesize(self.gen_tree(depth))
        self.stat('rv_expr')
        return ('{' + self.tree_text(t) + '}', '(RExpr %s)' % self.tree_coq(t))

    # ---- value positions
    def gen_rval_num(self, depth=2, neg_ok=False):
        rng = self.rng
        if rng.random() < self.opts.get('p_expr', 0.0):
            return self.gen_expr_rval(self.opts.get('expr_depth', 3))
        r = rng.random()
        nums = self.vars_of('num')
        mnums = [m for m, (t, _) in self.macros.items() if t == 'num']
        if r < 0.35:
            v = self.num_lit()
            if neg_ok and rng.random() < 0.12 and v != 0:
                self.stat('rv_neg')
                return ('-' + txt_num(v), '(RNeg %s)' % coq_lit(v))
            self.stat('rv_lit')
            return (txt_num(v), '(RLit %s)' % coq_lit(v))
        if r < 0.55 and nums:
            x = rng.choice(nums)
            self.stat('rv_var')
            return (x, '(RVar %s)' % coq_str(x))
        if r < 0.62 and mnums:
            m = rng.choice(mnums)
            self.stat('rv_macro')
            if neg_ok and rng.random() < 0.2:
                return ('-' + m, '(RNegMacro %s)' % coq_str(m))
            return (m, '(RMacro %s)' % coq_str(m))
        if r < 0.7:
            reg = rng.choice(REGS_NUM)
            self.stat('rv_reg')
            return (reg, '(RReg R_%s)' % reg.upper())
        if r < 0.78 and depth > 0:
            t = self.gen_call_tree(depth)
            self.stat('rv_call')
            return ('[' + ' '.join([t[1]] + [a[0] for a in t[2]]) + ']', '(RCall %s %s)' % (coq_str(t[1]), coq_list([a[1] for a in t[2]])))
        return self.gen_expr_rval(max(depth, 1))

    def gen_small_int_rval(self, hi=4):
        """value position for counts / zones / rows: small non-negative integers"""
        rng = self.rng
        r = rng.random()
        if r < 0.6:
            v = rng.randint(0, hi)
            return (str(v), '(RLit (LInt %d))' % v)
        if r < 0.8:
            a, b = rng.randint(0, hi), rng.randint(0, 2)
            op = rng.choice(['+', '*', '-'])
            if op == '-' and b > a:
                a, b = b, a
            t = ('bin', op, ('lit', a), ('lit', b))
            return ('{' + self.tree_text(t) + '}', '(RExpr %s)' % self.tree_coq(t))
        cands = [x for x in self.vars_of('num') if x in getattr(self, 'small_vars', set())]
        if cands:
            x = rng.choice(cands)
            return (x, '(RVar %s)' % coq_str(x))
        v = rng.randint(0, hi)
        return (str(v), '(RLit (LInt %d))' % v)

    def gen_name_rval(self, pool):
        """value position denoting a light/group/location name: string literal, string macro or string variable"""
        rng = self.rng
        svars = self.vars_of('str')
        smac = [m for m, (t, _) in self.macros.items() if t == 'str']
        r = rng.random()
        if r < 0.2 and svars:
            x = rng.choice(svars)
            if getattr(self, 'braces_ok', False) and rng.random() < 0.4:
                # braces round a single value: the same light
                return ('{%s}' % x, '(RExpr (EVar %s))' % coq_str(x), ('NVar', x))
            return (x, '(RVar %s)' % coq_str(x), ('NVar', x))
        if r < 0.3 and smac:
            m = rng.choice(smac)
            return (m, '(RMacro %s)' % coq_str(m), ('NMacro', m))
        s = pool()
        return ('"%s"' % s, '(RLit (LStr %s))' % coq_str(s), ('NStr', s))

    @staticmethod
    def nameref_coq(nr):
        return '(%s %s)' % (nr[0], coq_str(nr[1]))

    # ---- statements
    def gen_block(self, n, allow, single_ok=False):
        """a statement position: begin ... end, or a single simple statement"""
        if single_ok and n == 1 and self.rng.random() < 0.4:
            st = self.gen_stmt(allow, simple_only=True)
            if st is not None:
                return st
        stmts = self.gen_stmts(n, allow)
        return ('begin\n' + ''.join(t + '\n' for t, _ in stmts) + 'end', '(SBlock %s)' % coq_list([c for _, c in stmts]))

    def gen_stmts(self, n, allow):
        out = []
        self.prev_open = False
        for i in range(n):
            st = self.gen_stmt(allow, last=(i == n - 1))
            if st is not None:
                out.append(st)
        self.prev_open = False
        return out

    def gen_stmt(self, allow, simple_only=False, last=False):
        rng = self.rng
        self.depth = getattr(self, 'depth', 0)
        if self.depth >= self.opts.get('max_depth', 4):
            simple_only = True
        kinds = [('reg', 14), ('set', 14), ('power', 6), ('assign', 12), ('print', 10), ('wait', 2), ('time', 4),
                 ('units', 3), ('get', 3), ('printf', 3)]
        if not simple_only:
            kinds += [('if', 9), ('repeat', 10), ('call', 7 if self.routines else 0)]
            if self.loop_depth > 0:
                kinds.append(('break', 2))
            if self.locals is not None:
                kinds.append(('return', 3))
            if self.opts.get('nested_defs') and self.locals is None and not self.in_matrix:
                kinds.append(('define', self.opts['nested_defs']))
        over = self.opts.get('weights', {})
        kinds = [(k, over.get(k, w)) for k, w in kinds]
        if self.in_matrix:
            kinds = [(k, w) for k, w in kinds if k in ('reg', 'assign', 'if', 'repeat', 'units')] + [('stage', 30)]
        kinds = [(k, w) for k, w in kinds if w > 0 and k in allow]
        total = sum(w for _, w in kinds)
        r = rng.random() * total
        for k, w in kinds:
            r -= w
            if r < 0:
                break
        self.stat('st_' + k)
        self.depth += 1
        try:
            return getattr(self, 'st_' + k)(last)
        finally:
            self.depth -= 1

    def st_reg(self, last):
        rng = self.rng
        self.prev_open = False
        if rng.random() < 0.12:
            v = self.gen_rval_num(neg_ok=True)
            return ('time ' + v[0], '(SReg R_TIME %s)' % v[1])
        reg = rng.choice(REGS_NUM + (['red', 'green', 'blue'] if self.opts.get('rgb') else []))
        v = self.gen_rval_num(neg_ok=True)
        return ('%s %s' % (reg, v[0]), '(SReg R_%s %s)' % (reg.upper(), v[1]))

    def gen_operand(self, color):
        rng = self.rng
        r = rng.random()
        multis = [l for l in self.world if l[3][0] == 'multi' and l[0]]
        mats = [l for l in self.world if l[3][0] == 'matrix' and l[0]]
        if color and r < 0.12 and (multis or rng.random() < 0.3):
            light = rng.choice(multis) if multis and rng.random() < 0.9 else None
            nm = light[0] if light else self.light_name()
            # zone numbers stay inside the light's strip (the simulated device indexes a list)
            by_name = [l for l in self.world if l[0] == nm and l[3][0] == 'multi']
            nz = by_name[0][3][1] if by_name else 8
            za = rng.randint(0, nz - 1)
            zb = rng.randint(za, nz - 1)
            a = (str(za), '(RLit (LInt %d))' % za) if rng.random() < 0.7 else ('{%d + 0}' % za, '(RExpr (EBin BAdd (ELit (LInt %d)) (ELit (LInt 0))))' % za)
            if rng.random() < 0.5:
                self.prev_open = False
                return ('"%s" zone %s %d' % (nm, a[0], zb), '(Zone (NStr %s) %s (Some (RLit (LInt %d))))' % (coq_str(nm), a[1], zb))
            self.prev_open = True
            return ('"%s" zone %s' % (nm, a[0]), '(Zone (NStr %s) %s None)' % (coq_str(nm), a[1]))
        if color and r < 0.2 and not self.in_matrix and (mats or rng.random() < 0.2) and self.opts.get('matrix', True):
            light = rng.choice(mats) if mats and rng.random() < 0.9 else None
            nm = light[0] if light else self.light_name()
            h, w = (light[3][1], light[3][2]) if light else (2, 2)
            # a target that is not a matrix light gets the implementation's 255 x 255 default matrix: one stage
            # costs the model a second under vm_compute, so only the one-statement form is generated for it
            if rng.random() < 0.5 or light is None:
                rows, cols, rf, txt = self.gen_spans(h, w)
                return ('"%s" %s' % (nm, txt), '(MatrixInline (NStr %s) %s %s %s)' % (coq_str(nm), rows, cols, rf))
            self.in_matrix = True
            self.mat_dims = (h, w)
            saved_loop = self.loop_depth
            self.loop_depth = 0
            body = self.gen_block(rng.randint(1, 4), ALL_KINDS)
            self.loop_depth = saved_loop
            self.in_matrix = False
            self.prev_open = False
            return ('"%s" %s' % (nm, body[0]), '(MatrixBlock (NStr %s) %s)' % (coq_str(nm), body[1]))
        self.prev_open = False
        kind = rng.choice(['TLight', 'TLight', 'TGroup', 'TLocation'])
        if kind == 'TLight':
            t, _, nr = self.gen_name_rval(self.light_name)
            return (t, '(Target TLight %s)' % self.nameref_coq(nr))
        if kind == 'TGroup':
            t, _, nr = self.gen_name_rval(lambda: self.group_name())
            return ('group ' + t, '(Target TGroup %s)' % self.nameref_coq(nr))
        t, _, nr = self.gen_name_rval(lambda: self.group_name(True))
        return ('location ' + t, '(Target TLocation %s)' % self.nameref_coq(nr))

    def gen_span(self, extent):
        rng = self.rng
        if rng.random() < 0.25:
            return None, 'None', ''
        a = rng.randint(0, max(0, extent - 1))
        ta = (str(a), '(RLit (LInt %d))' % a) if rng.random() < 0.7 else self.gen_small_int_rval(max(0, extent - 1))
        if rng.random() < 0.5:
            b = rng.randint(a, max(a, extent - 1))
            return True, '(Some (%s, Some (RLit (LInt %d))))' % (ta[1], b), '%s %d' % (ta[0], b)
        return False, '(Some (%s, None))' % ta[1], ta[0]

    def gen_spans(self, h, w):
        rng = self.rng
        rows_first = rng.random() < 0.6
        r_open, rows, rt = self.gen_span(h)
        c_open, cols, ct = self.gen_span(w)
        if rows == 'None' and cols == 'None':
            r_open, rows, rt = False, '(Some (RLit (LInt 0), None))', '0'
        parts = []
        order = ['row', 'column'] if rows_first else ['column', 'row']
        last_open = False
        for which in order:
            if which == 'row' and rows != 'None':
                parts.append('row ' + rt)
                last_open = (r_open is False)
            if which == 'column' and cols != 'None':
                parts.append('column ' + ct)
                last_open = (c_open is False)
        self.prev_open = last_open
        return rows, cols, 'true' if rows_first else 'false', ' '.join(parts)

    def st_stage(self, last):
        h, w = getattr(self, 'mat_dims', (2, 2))
        rows, cols, rf, txt = self.gen_spans(h, w)
        return ('stage ' + txt, '(SStage %s %s %s)' % (rows, cols, rf))

    def st_set(self, last):
        rng = self.rng
        r = rng.random()
        if r < 0.15 and not self.in_matrix:
            self.prev_open = False
            return ('set all', '(SSet OpAll)')
        if r < 0.2 and not self.in_matrix:
            self.prev_open = False
            return ('set default', '(SSet OpDefault)')
        n = rng.choice([1, 1, 1, 2, 3])
        ops = [self.gen_operand(True) for _ in range(n)]
        return ('set ' + ' and '.join(t for t, _ in ops), '(SSet (OpList %s))' % coq_list([c for _, c in ops]))

    def st_power(self, last):
        rng = self.rng
        kw, ctor = rng.choice([('on', 'SOn'), ('off', 'SOff')])
        self.prev_open = False
        if rng.random() < 0.3:
            return (kw + ' all', '(%s OpAll)' % ctor)
        n = rng.choice([1, 1, 2])
        ops = [self.gen_operand(False) for _ in range(n)]
        return (kw + ' ' + ' and '.join(t for t, _ in ops), '(%s (OpList %s))' % (ctor, coq_list([c for _, c in ops])))

    def st_assign(self, last):
        rng = self.rng
        self.prev_open = False
        if rng.random() < 0.15 and self.world:
            x = rng.choice(['s', 'nm'])
            if x in self.macros or x in self.routines or self.type_of(x) == 'num':
                return self.st_reg(last)
            t, c, _ = self.gen_name_rval(self.light_name)
            self.declare(x, 'str')
            return ('assign %s %s' % (x, t), '(SAssign %s %s)' % (coq_str(x), c))
        x = self.new_var_name()
        if self.type_of(x) == 'str':
            return self.st_reg(last)
        v = self.gen_rval_num(neg_ok=True)
        self.declare(x, 'num')
        getattr(self, 'small_vars', set()).discard(x)
        return ('assign %s %s' % (x, v[0]), '(SAssign %s %s)' % (coq_str(x), v[1]))

    def type_of(self, x):
        if self.locals is not None and x in self.locals:
            return self.locals[x]
        return self.globals.get(x)

    def st_print(self, last):
        rng = self.rng
        kw, ctor = rng.choice([('print', 'SPrint'), ('println', 'SPrintln')])
        self.prev_open = False
        if last and rng.random() < 0.15:
            return (kw, '(%s None)' % ctor)
        r = rng.random()
        svars = self.vars_of('str')
        if r < 0.15:
            s = rng.choice(['hello', 'a b', 'x;y', "it's"])
            return ('%s "%s"' % (kw, s), '(%s (Some (RLit (LStr %s))))' % (ctor, coq_str(s)))
        if r < 0.25 and svars:
            x = rng.choice(svars)
            return ('%s %s' % (kw, x), '(%s (Some (RVar %s)))' % (ctor, coq_str(x)))
        v = self.gen_rval_num()
        return ('%s %s' % (kw, v[0]), '(%s (Some %s))' % (ctor, v[1]))

    def st_printf(self, last):
        rng = self.rng
        self.prev_open = False
        n = rng.randint(0, 3)
        pieces = []
        nums = self.vars_of('num')
        for i in range(n):
            pieces.append(rng.choice(['{}', '{}', '{} ', 'v={} ', '{:>6} ']))
        if rng.random() < 0.4:
            pieces.append('{%s} ' % rng.choice(REGS_NUM + nums[:2]))
        if rng.random() < 0.3:
            pieces.append('\\n')
        rng.shuffle(pieces)
        fmt = ''.join(pieces) or 'text'
        args = [self.gen_rval_num(1, neg_ok=True) for _ in range(n)]
        return ('printf "%s" %s' % (fmt, ' '.join(a[0] for a in args)),
                '(SPrintf %s %s)' % (coq_str(fmt), coq_list([a[1] for a in args])))

    def st_wait(self, last):
        self.prev_open = False
        return ('wait', 'SWait')

    def st_time(self, last):
        rng = self.rng
        self.prev_open = False
        from bardolph.lib.time_pattern import TimePattern
        pats = []
        n = rng.choice([1, 1, 2, 3])
        tmac = [m for m, (t, _) in self.macros.items() if t == 'time']
        for _ in range(n):
            if tmac and rng.random() < 0.3:
                m = rng.choice(tmac)
                pats.append((m, '(TMacro %s)' % coq_str(m)))
            else:
                text = rng.choice(['8:00', '9:30', '*:15', '1*:*5', '2*:0*', '*:*', '23:59', '0:00', '*7:3*'])
                p = TimePattern.from_string(text)
                pats.append((text, '(TPat %s %s)' % (coq_str(text), lang.coq_tp(p))))
        return ('time at ' + ' or '.join(t for t, _ in pats), '(STimeAt %s)' % coq_list([c for _, c in pats]))

    def st_units(self, last):
        self.prev_open = False
        modes = ['logical', 'raw'] + (['rgb'] if self.opts.get('rgb') else [])
        m = self.rng.choice(modes)
        return ('units ' + m, '(SUnits UM_%s)' % m.upper())

    def st_get(self, last):
        self.prev_open = False
        t, c, _ = self.gen_name_rval(self.light_name)
        return ('get ' + t, '(SGet %s)' % c)

    def st_if(self, last):
        rng = self.rng
        c = self.gen_expr_rval(2) if rng.random() < 0.8 else self.gen_rval_num(1, neg_ok=True)
        s1 = self.gen_block(rng.randint(1, 3), ALL_KINDS, single_ok=True)
        if rng.random() < 0.5:
            s2 = self.gen_block(rng.randint(1, 3), ALL_KINDS, single_ok=True)
            self.prev_open = False
            return ('if %s %s\nelse %s' % (c[0], self.as_block_text(s1), s2[0]), '(SIf %s %s (Some %s))' % (c[1], self.as_block_coq(s1), s2[1]))
        self.prev_open = False
        # a dangling `else` of an enclosing if must not attach here: always a block
        return ('if %s %s' % (c[0], self.as_block_text(s1)), '(SIf %s %s None)' % (c[1], self.as_block_coq(s1)))

    @staticmethod
    def as_block_text(s):
        return s[0] if s[0].startswith('begin') else 'begin\n' + s[0] + '\nend'

    @staticmethod
    def as_block_coq(s):
        return s[1] if s[1].startswith('(SBlock') else '(SBlock [%s])' % s[1]

    def st_define(self, last):
        self.prev_open = False
        saved_depth = self.depth
        self.depth = 1
        try:
            st = self.gen_routine()
        finally:
            self.depth = saved_depth
        return st if st is not None else self.st_reg(last)

    def st_break(self, last):
        self.prev_open = False
        return ('break', 'SBreak')

    def st_return(self, last):
        self.prev_open = False
        if last and self.rng.random() < 0.2:
            return ('return', '(SReturn None)')
        v = self.gen_rval_num(1)
        return ('return ' + v[0], '(SReturn (Some %s))' % v[1])

    def st_call(self, last):
        rng = self.rng
        cands = [f for f in self.routines if f != getattr(self, 'defining', None)]
        if not cands:
            return self.st_reg(last)
        f = rng.choice(cands)
        ps, _ = self.routines[f]
        args = [self.gen_rval_num(1, neg_ok=True) for _ in ps]
        if f in getattr(self, 'recursive', set()):
            k = rng.randint(0, 5)
            args = [(str(k), '(RLit (LInt %d))' % k)]
        bracketed = rng.random() < 0.3 and not self.prev_open
        self.prev_open = False
        txt = ' '.join([f] + [a[0] for a in args])
        if bracketed:
            txt = '[' + txt + ']'
        return (txt, '(SCall %s %s %s)' % (coq_str(f), coq_list([a[1] for a in args]), 'true' if bracketed else 'false'))

    def gen_with(self):
        rng = self.rng
        v = rng.choice(['i', 'j', 'h'])
        if v in self.macros or v in self.routines or self.type_of(v) == 'str':
            v = 'idx'
        if rng.random() < 0.5:
            a, b = self.gen_rval_num(1, neg_ok=True), self.gen_rval_num(1, neg_ok=True)
            self.declare(v, 'num')
            return ('with %s from %s to %s' % (v, a[0], b[0]), '(WRange %s %s %s)' % (coq_str(v), a[1], b[1]), v)
        self.declare(v, 'num')
        if rng.random() < 0.5:
            s = self.gen_rval_num(1)
            return ('with %s cycle %s' % (v, s[0]), '(WCycle %s (Some %s))' % (coq_str(v), s[1]), v)
        self.loop_with_open = True
        return ('with %s cycle' % v, '(WCycle %s None)' % coq_str(v), v)

    def st_repeat(self, last):
        rng = self.rng
        kind = rng.choice(['count', 'count', 'range', 'countwith', 'while', 'infinite', 'all', 'groups', 'locations', 'in', 'in'])
        self.stat('loop_' + kind)
        self.loop_depth += 1
        nbody = rng.randint(1, 3)
        head_t = head_c = None
        pre = None
        if kind == 'count':
            n = self.gen_small_int_rval(4)
            head_t, head_c = n[0], '(LCount %s)' % n[1]
        elif kind == 'range':
            v = rng.choice(['i', 'j', 'r'])
            if v in self.macros or v in self.routines or self.type_of(v) == 'str':
                v = 'idx'
            a, b = rng.randint(-2, 5), rng.randint(-2, 5)
            ta = (str(a), '(RLit (LInt %d))' % a) if a >= 0 else ('-%d' % -a, '(RNeg (LInt %d))' % -a)
            tb = (str(b), '(RLit (LInt %d))' % b) if b >= 0 else ('-%d' % -b, '(RNeg (LInt %d))' % -b)
            self.declare(v, 'num')
            if a >= 0 and b >= 0:
                self.small_vars = getattr(self, 'small_vars', set()) | {v}
            head_t = 'with %s from %s to %s' % (v, ta[0], tb[0])
            head_c = '(LRange %s %s %s)' % (coq_str(v), ta[1], tb[1])
        elif kind == 'countwith':
            n = self.gen_small_int_rval(5)
            w = self.gen_with()
            head_t, head_c = n[0] + ' ' + w[0], '(LCountWith %s %s)' % (n[1], w[1])
        elif kind == 'while':
            v = 'w%d' % self.loop_depth
            if v in self.macros or v in self.routines:
                v = 'wv%d' % self.loop_depth
            k = rng.randint(0, 3)
            pre = ('assign %s 0' % v, '(SAssign %s (RLit (LInt 0)))' % coq_str(v))
            self.declare(v, 'num')
            head_t = 'while {%s < %d}' % (v, k)
            head_c = '(LWhile (RExpr (EBin BLt (EVar %s) (ELit (LInt %d)))))' % (coq_str(v), k)
            self.while_var = v
        elif kind == 'infinite':
            v = 'q%d' % self.loop_depth
            k = rng.randint(0, 3)
            pre = ('assign %s 0' % v, '(SAssign %s (RLit (LInt 0)))' % coq_str(v))
            self.declare(v, 'num')
            head_t, head_c = '', 'LInfinite'
        else:
            x = rng.choice(['l', 'lt', 'each'])
            if x in self.macros or x in self.routines or self.type_of(x) == 'num':
                x = 'lname'
            w = None
            if kind == 'in':
                srcs = []
                self.braces_ok = True
                for _ in range(rng.choice([1, 2, 2, 3])):
                    r = rng.random()
                    if r < 0.4:
                        t, c, _ = self.gen_name_rval(self.light_name)
                        srcs.append((t, '(SrcLight %s)' % c))
                    elif r < 0.7:
                        t, c, _ = self.gen_name_rval(lambda: self.group_name())
                        srcs.append(('group ' + t, '(SrcGroup %s)' % c))
                    else:
                        t, c, _ = self.gen_name_rval(lambda: self.group_name(True))
                        srcs.append(('location ' + t, '(SrcLocation %s)' % c))
                self.braces_ok = False
                head = 'in ' + ' and '.join(t for t, _ in srcs) + ' as ' + x
                ctor = '(LIn %s %s %%s)' % (coq_list([c for _, c in srcs]), coq_str(x))
            else:
                kw = {'all': 'all', 'groups': 'group', 'locations': 'location'}[kind]
                head = kw + ' as ' + x
                ctor = '(%s %s %%s)' % ({'all': 'LAll', 'groups': 'LGroups', 'locations': 'LLocations'}[kind], coq_str(x))
            self.declare(x, 'str')
            if rng.random() < 0.4:
                w = self.gen_with()
                head += ' ' + w[0]
            head_t, head_c = head, ctor % coq_opt(w[1] if w else None)
        body_stmts = self.gen_stmts(nbody, ALL_KINDS)
        if kind == 'while':
            v = self.while_var if kind == 'while' else None
            v = head_t.split('{')[1].split(' ')[0]
            inc = ('assign %s {%s + 1}' % (v, v), '(SAssign %s (RExpr (EBin BAdd (EVar %s) (ELit (LInt 1)))))' % (coq_str(v), coq_str(v)))
            body_stmts.insert(rng.randint(0, len(body_stmts)), inc) if rng.random() < 0.5 else body_stmts.append(inc)
            # a `break` before the increment is fine (loop ends); everything else reaches the increment
        if kind == 'infinite':
            v = pre[0].split(' ')[1]
            inc = ('assign %s {%s + 1}' % (v, v), '(SAssign %s (RExpr (EBin BAdd (EVar %s) (ELit (LInt 1)))))' % (coq_str(v), coq_str(v)))
            brk = ('if {%s >= %d} break' % (v, k), '(SIf (RExpr (EBin BGe (EVar %s) (ELit (LInt %d)))) SBreak None)' % (coq_str(v), k))
            body_stmts = [brk] + body_stmts + [inc]
        self.loop_depth -= 1
        self.prev_open = False
        body_t = 'begin\n' + ''.join(t + '\n' for t, _ in body_stmts) + 'end'
        body_c = '(SBlock %s)' % coq_list([c for _, c in body_stmts])
        t = 'repeat %s %s' % (head_t, body_t)
        c = '(SRepeat %s %s)' % (head_c, body_c)
        if pre:
            # two statements in one: only ever used inside statement lists (coq_list joins with '; ')
            return (pre[0] + '\n' + t, pre[1] + '; ' + c)
        return (t, c)

    # ---- definitions and whole scripts
    def gen_routine(self):
        rng = self.rng
        f = rng.choice(['f', 'g', 'helper', 'do_it', 'calc'])
        if f in self.routines or f in self.macros or f in self.globals:
            return None
        nparams = rng.choice([0, 1, 1, 2, 3])
        pool = ['p', 'q', 'a', 'x', 'n']
        params = rng.sample(pool, nparams)
        params = [p for p in params if p not in self.macros and p not in self.routines]
        is_function = rng.random() < 0.6
        self.locals = {p: 'num' for p in params}
        self.defining = f
        saved_loop = self.loop_depth
        self.loop_depth = 0
        stmts = self.gen_stmts(rng.randint(1, 4), ALL_KINDS)
        if is_function:
            v = self.gen_rval_num(1)
            stmts.append(('return ' + v[0], '(SReturn (Some %s))' % v[1]))
        self.loop_depth = saved_loop
        self.locals = None
        self.defining = None
        self.routines[f] = (params, is_function)
        head = 'define %s' % f + (' with ' + ' '.join(params) if params else '')
        body_t = 'begin\n' + ''.join(t + '\n' for t, _ in stmts) + 'end'
        body_c = '(SBlock %s)' % coq_list([c for _, c in stmts])
        return (head + ' ' + body_t, '(SDefineRoutine %s %s %s)' % (coq_str(f), coq_list([coq_str(p) for p in params]), body_c))

    def gen_recursive(self):
        """a routine that calls itself with a decreasing argument (depth bounded by the literal arguments used)"""
        rng = self.rng
        f = rng.choice(['fact', 'sum_to', 'down'])
        if f in self.routines or f in self.macros or f in self.globals:
            return None
        p = rng.choice(['n', 'k', 'a'])
        if p in self.macros or p in self.routines:
            return None
        op = rng.choice(['*', '+'])
        self.routines[f] = ([p], True)
        self.recursive = getattr(self, 'recursive', set()) | {f}
        side = rng.choice(['', 'assign %s {%s + 0}\n' % (p, p), 'print %s\n' % p])
        side_c = {'': [], 'assign': ['(SAssign %s (RExpr (EBin BAdd (EVar %s) (ELit (LInt 0)))))' % (coq_str(p), coq_str(p))],
                  'print': ['(SPrint (Some (RVar %s)))' % coq_str(p)]}[side.split(' ')[0] if side else '']
        text = ('define %s with %s begin\n%sif {%s <= 1} begin\nreturn 1\nend\nreturn {%s %s [%s {%s - 1}]}\nend'
                % (f, p, side, p, p, op, f, p))
        rec = '(ECall %s [RExpr (EBin BSub (EVar %s) (ELit (LInt 1)))])' % (coq_str(f), coq_str(p))
        body = side_c + ['(SIf (RExpr (EBin BLe (EVar %s) (ELit (LInt 1)))) (SBlock [SReturn (Some (RLit (LInt 1)))]) None)' % coq_str(p),
                         '(SReturn (Some (RExpr (EBin %s (EVar %s) %s))))' % (BINOP[op], coq_str(p), rec)]
        return (text, '(SDefineRoutine %s [%s] (SBlock %s))' % (coq_str(f), coq_str(p), coq_list(body)))

    def gen_macro(self):
        rng = self.rng
        m = rng.choice(['m1', 'LIMIT', 'the_light', 'noon', 'k'])
        if m in self.macros or m in self.routines or m in self.globals:
            return None
        r = rng.random()
        if r < 0.5:
            v = self.num_lit()
            self.macros[m] = ('num', v)
            return ('define %s %s' % (m, txt_num(v)), '(SDefineMacro %s (MLit %s))' % (coq_str(m), coq_lit(v)))
        if r < 0.7 and self.world:
            s = self.light_name()
            self.macros[m] = ('str', s)
            return ('define %s "%s"' % (m, s), '(SDefineMacro %s (MLit (LStr %s)))' % (coq_str(m), coq_str(s)))
        if r < 0.85:
            from bardolph.lib.time_pattern import TimePattern
            text = rng.choice(['12:30', '*:45', '2*:*0'])
            p = TimePattern.from_string(text)
            self.macros[m] = ('time', text)
            return ('define %s %s' % (m, text), '(SDefineMacro %s (MTime %s %s))' % (coq_str(m), coq_str(text), lang.coq_tp(p)))
        others = list(self.macros)
        if others:
            o = rng.choice(others)
            self.macros[m] = self.macros[o]
            return ('define %s %s' % (m, o), '(SDefineMacro %s (MRef %s))' % (coq_str(m), coq_str(o)))
        return None

    def gen_script(self, size):
        items = self.gen_items(size)
        return '\n'.join(t for t, _ in items) + '\n', coq_list([c for _, c in items])

    def gen_items(self, size):
        rng = self.rng
        items = []
        for _ in range(size):
            r = rng.random()
            st = None
            pr = self.opts.get('p_routine', 0.15)
            if r < pr:
                st = self.gen_routine() if rng.random() > self.opts.get('p_recursive', 0.0) else self.gen_recursive()
            elif r < pr + 0.1:
                st = self.gen_macro()
            if st is None:
                st = self.gen_stmt(ALL_KINDS)
            if st is not None:
                items.append(st)
        return items


ALL_KINDS = {'define', 'reg', 'set', 'power', 'assign', 'print', 'wait', 'time', 'units', 'get', 'printf', 'if', 'repeat',
             'call', 'break', 'return', 'stage'}




# ---------------------------------------------------------------------------
# small construction kit: every function returns (text, coq) for one statement / value

class K:
    @staticmethod
    def lit(v):
        return (txt_num(v), '(RLit %s)' % coq_lit(v))

    @staticmethod
    def lit_s(s):
        return ('"%s"' % s, '(RLit (LStr %s))' % coq_str(s))

    @staticmethod
    def var(x):
        return (x, '(RVar %s)' % coq_str(x))

    @staticmethod
    def expr(tree_text, tree_coq):
        return ('{' + tree_text + '}', '(RExpr %s)' % tree_coq)

    @staticmethod
    def e_bin(op, a, b):
        return ('%s %s %s' % (a[0], op, b[0]), '(EBin %s %s %s)' % (BINOP[op], a[1], b[1]))

    @staticmethod
    def e_var(x):
        return (x, '(EVar %s)' % coq_str(x))

    @staticmethod
    def e_lit(v):
        return (txt_num(v), '(ELit %s)' % coq_lit(v))

    @staticmethod
    def e_call(f, args):
        return ('[' + ' '.join([f] + [a[0] for a in args]) + ']', '(ECall %s %s)' % (coq_str(f), coq_list([a[1] for a in args])))

    @staticmethod
    def r_call(f, args):
        return ('[' + ' '.join([f] + [a[0] for a in args]) + ']', '(RCall %s %s)' % (coq_str(f), coq_list([a[1] for a in args])))

    @staticmethod
    def assign(x, rv):
        return ('assign %s %s' % (x, rv[0]), '(SAssign %s %s)' % (coq_str(x), rv[1]))

    @staticmethod
    def pr(rv):
        return ('print %s' % rv[0], '(SPrint (Some %s))' % rv[1])

    @staticmethod
    def reg(r, rv):
        return ('%s %s' % (r, rv[0]), '(SReg R_%s %s)' % (r.upper(), rv[1]))

    @staticmethod
    def block(items):
        return ('begin\n' + ''.join(t + '\n' for t, _ in items) + 'end', '(SBlock %s)' % coq_list([c for _, c in items]))

    @staticmethod
    def define(f, params, items):
        b = K.block(items)
        return ('define %s%s %s' % (f, ' with ' + ' '.join(params) if params else '', b[0]),
                '(SDefineRoutine %s %s %s)' % (coq_str(f), coq_list([coq_str(p) for p in params]), b[1]))

    @staticmethod
    def call(f, args):
        return (' '.join([f] + [a[0] for a in args]), '(SCall %s %s false)' % (coq_str(f), coq_list([a[1] for a in args])))

    @staticmethod
    def ret(rv):
        return ('return %s' % rv[0], '(SReturn (Some %s))' % rv[1])

    @staticmethod
    def if_(cond, items, else_items=None):
        b = K.block(items)
        if else_items is None:
            return ('if %s %s' % (cond[0], b[0]), '(SIf %s %s None)' % (cond[1], b[1]))
        e = K.block(else_items)
        return ('if %s %s\nelse %s' % (cond[0], b[0], e[0]), '(SIf %s %s (Some %s))' % (cond[1], b[1], e[1]))

    @staticmethod
    def rep_count(n, items):
        b = K.block(items)
        return ('repeat %s %s' % (n[0], b[0]), '(SRepeat (LCount %s) %s)' % (n[1], b[1]))

    @staticmethod
    def rep_range(v, a, b_, items):
        b = K.block(items)
        return ('repeat with %s from %s to %s %s' % (v, a[0], b_[0], b[0]),
                '(SRepeat (LRange %s %s %s) %s)' % (coq_str(v), a[1], b_[1], b[1]))

    @staticmethod
    def rep_all(x, items):
        b = K.block(items)
        return ('repeat all as %s %s' % (x, b[0]), '(SRepeat (LAll %s None) %s)' % (coq_str(x), b[1]))

    @staticmethod
    def rep_group(g, x, items):
        b = K.block(items)
        return ('repeat in group "%s" as %s %s' % (g, x, b[0]),
                '(SRepeat (LIn [SrcGroup (RLit (LStr %s))] %s None) %s)' % (coq_str(g), coq_str(x), b[1]))

    @staticmethod
    def set_light_var(x):
        return ('set %s' % x, '(SSet (OpList [Target TLight (NVar %s)]))' % coq_str(x))

    @staticmethod
    def brk():
        return ('break', 'SBreak')


SCENARIO_KINDS = ['shadow', 'shadow', 'shadow', 'unwind', 'unwind', 'nested_def', 'nested_def', 'loop_in_loop',
                       'arg_alias', 'arg_alias', 'paramless_local', 'paramless_local', 'computed_sources', 'late_macro', 'self_bound',
                       'single_item_range', 'none_param', 'later_param_shadows', 'raw_cycle', 'blockless_routine',
                       'raw_power', 'odd_counts', 'param_like_macro', 'called_sources', 'units_under_time']


def scenario(rng, world, kind=None):
    """Directed scripts for situations the free generator reaches rarely: a parameter shadowing a global and
    holding a falsy value when it is assigned (in plain code, in a loop, in a conditional); a return out of
    loops nested in a light loop while the caller has values pending; a routine defined inside a branch that
    is not taken or a loop body; index variables of caller and callee loops."""
    # names written into the script text are never empty (the world of the case may hold an empty label: the light loops reach it)
    world = [l for l in world if l[0] and l[1] and l[2]]
    kind = kind or rng.choice(SCENARIO_KINDS)
    g = rng.choice(['a', 'x', 'n', 'level'])
    items = []
    if kind == 'shadow':
        v0 = rng.choice([5, 7, 100, 2.5])
        arg = rng.choice([0, 0, 0.0, 1, 3])
        items.append(K.assign(g, K.lit(v0)))
        inc = K.assign(g, K.expr(*K.e_bin('+', K.e_var(g), K.e_lit(rng.choice([1, 7])))))
        wrap = rng.choice(['plain', 'loop', 'if', 'loop_if', 'countdown'])
        body = []
        if wrap == 'plain':
            body = [inc]
        elif wrap == 'loop':
            body = [K.rep_count(K.lit(rng.randint(1, 3)), [inc])]
        elif wrap == 'if':
            body = [K.if_(K.expr(*K.e_bin('<', K.e_var(g), K.e_lit(50))), [inc])]
        elif wrap == 'loop_if':
            body = [K.rep_range('k', K.lit(1), K.lit(2), [K.if_(K.expr(*K.e_bin('>=', K.e_var(g), K.e_lit(0))), [inc])])]
        else:
            dec = K.assign(g, K.expr(*K.e_bin('-', K.e_var(g), K.e_lit(1))))
            body = [K.rep_count(K.lit(arg if isinstance(arg, int) else 2), [dec]), K.if_(K.expr(*K.e_bin('==', K.e_var(g), K.e_lit(0))), [inc])]
        body.append(K.pr(K.var(g)))
        if world and rng.random() < 0.4:
            body.append(K.reg('hue', K.var(g)))
            body.append(('set all', '(SSet OpAll)'))
        items.append(K.define('bump', [g] + (['q'] if rng.random() < 0.3 else []), body))
        args = [K.lit(arg)] + ([K.lit(9)] if 'q' in items[-1][0].split('begin')[0] else [])
        items.append(K.call('bump', args))
        items.append(K.pr(K.var(g)))
        items.append(K.call('bump', [K.var(g)] + args[1:]))
        items.append(K.pr(K.var(g)))
    elif kind == 'unwind':
        grp = world[0][1] if world else 'g1'
        inner = [K.ret(K.lit(5))]
        depth = rng.choice([1, 2, 2])
        body = inner
        for d in range(depth):
            body = [K.rep_count(K.lit(rng.randint(1, 3)), body)] if d < depth - 1 or rng.random() < 0.3 else [K.rep_range('j', K.lit(1), K.lit(2), body)]
        outer = rng.choice(['all', 'group'])
        fbody = [K.rep_all('lx', body)] if outer == 'all' else [K.rep_group(grp, 'lx', body)]
        fbody.append(K.ret(K.lit(6)))
        items.append(K.define('probe', [], fbody))
        site = rng.choice(['operand', 'arg', 'caller_loop', 'caller_loop'])
        if site == 'operand':
            items.append(K.pr(K.expr(*K.e_bin('+', K.e_lit(100), K.e_call('probe', [])))))
            items.append(K.pr(K.expr(*K.e_bin('*', K.e_call('probe', []), K.e_lit(2)))))
        elif site == 'arg':
            items.append(K.define('twice', ['v'], [K.ret(K.expr(*K.e_bin('*', K.e_var('v'), K.e_lit(2))))]))
            items.append(K.pr(K.expr(*K.e_bin('+', K.e_lit(1), K.e_call('twice', [K.r_call('probe', [])])))))
        else:
            items.append(K.rep_all('each', [K.assign('r', K.r_call('probe', [])), K.pr(K.var('each')), K.set_light_var('each')]))
        items.append(K.pr(K.lit(999)))
    elif kind == 'computed_sources':
        # names of a light list given by expressions in braces and by calls: visited in the order written
        names = [l[0] for l in world][:3] or ['no such']
        grp = world[0][1] if world else 'g1'
        items.append(K.assign('first', K.lit_s(names[0])))
        items.append(K.assign('second', K.lit_s(names[-1])))
        items.append(K.assign('gname', K.lit_s(grp)))
        items.append(K.define('pick', ['n'], [K.pr(K.var('n')), K.if_(K.expr(*K.e_bin('==', K.e_var('n'), K.e_lit(1))), [K.ret(K.var('first'))]), K.ret(K.var('second'))]))
        body = [K.pr(K.var('lx')), K.set_light_var('lx')]
        srcs = rng.sample([('{first}', '(SrcLight (RExpr (EVar "first")))'), ('{second}', '(SrcLight (RExpr (EVar "second")))'),
                           ('[pick 1]', '(SrcLight (RCall "pick" [RLit (LInt 1)]))'), ('[pick 2]', '(SrcLight (RCall "pick" [RLit (LInt 2)]))'),
                           ('group {gname}', '(SrcGroup (RExpr (EVar "gname")))'), ('first', '(SrcLight (RVar "first"))'),
                           ('"%s"' % names[0], '(SrcLight (RLit (LStr %s)))' % coq_str(names[0]))], rng.randint(2, 3))
        b = K.block(body)
        items.append(('repeat in %s as lx %s' % (' and '.join(t for t, _ in srcs), b[0]),
                      '(SRepeat (LIn %s "lx" None) %s)' % (coq_list([c for _, c in srcs]), b[1])))
        items.append(K.pr(K.lit(999)))
    elif kind == 'none_param':
        # a parameter (or local) bound to the empty result of a bare `return` still hides the global of the same name
        v0 = rng.choice([70, 500, 2.5])
        bare = ('return', '(SReturn None)')
        items.append(K.assign(g, K.lit(v0)))
        items.append(K.define('lookup', ['k'], [K.pr(K.var('k')), bare]))
        items.append(K.define('show', [g], [K.pr(K.var(g))]))
        items.append(K.define('pass_on', [g], [K.call('show', [K.var(g)]), K.pr(K.var(g))]))
        items.append(K.call('show', [K.r_call('lookup', [K.lit(50)])]))
        items.append(K.call('show', [K.lit(8)]))
        items.append(K.call('pass_on', [K.r_call('lookup', [K.lit(51)])]))
        items.append(K.define('keep', ['q'], [K.assign('mine', K.lit(1)), K.assign('mine', K.r_call('lookup', [K.lit(99)])), K.pr(K.var('mine')), K.pr(K.var('q'))]))
        items.append(K.call('keep', [K.lit(3)]))
        items.append(K.pr(K.var(g)))
    elif kind == 'later_param_shadows':
        # a second or third parameter named like a global defined above the routine hides it like a first one does
        g2 = rng.choice(['step', 'count2', 'b'])
        items.append(K.assign(g, K.lit(7)))
        items.append(K.assign(g2, K.lit(9)))
        items.append(K.define('second', ['start', g], [K.pr(K.var('start')), K.pr(K.var(g)), K.assign(g, K.expr(*K.e_bin('+', K.e_var(g), K.e_lit(1)))), K.pr(K.var(g))]))
        items.append(K.define('third', ['p', g2, g], [K.rep_count(K.lit(2), [K.if_(K.expr(*K.e_bin('<', K.e_var(g), K.e_lit(100))), [K.assign(g, K.expr(*K.e_bin('*', K.e_var(g), K.e_lit(10))))])]),
                                                     K.pr(K.var(g)), K.pr(K.var(g2)), K.ret(K.var(g))]))
        items.append(K.call('second', [K.lit(3), K.lit(50)]))
        items.append(K.pr(K.r_call('third', [K.lit(1), K.lit(2), K.lit(3)])))
        items.append(K.pr(K.var(g)))
        items.append(K.pr(K.var(g2)))
    elif kind == 'blockless_routine':
        # a routine without parameters whose body is one statement without begin / end: every kind of statement may start it
        def bare(f, body):
            return ('define %s %s' % (f, body[0]), '(SDefineRoutine %s [] %s)' % (coq_str(f), body[1]))
        n = rng.randint(2, 3)
        bodies = [K.rep_count(K.lit(n), [K.pr(K.lit(1))]),
                  ('repeat %d print 2' % n, '(SRepeat (LCount (RLit (LInt %d))) (SPrint (Some (RLit (LInt 2)))))' % n),
                  K.if_(K.expr(*K.e_bin('<', K.e_lit(1), K.e_lit(2))), [K.pr(K.lit(3))]),
                  K.pr(K.lit(4)), ('on all', '(SOn OpAll)'), K.reg('hue', K.lit(5)), K.assign('zz', K.lit(6)), ('set all', '(SSet OpAll)'),
                  ('units raw', '(SUnits UM_RAW)'), ('println 8', '(SPrintln (Some (RLit (LInt 8))))'),
                  K.rep_range('ix', K.lit(1), K.lit(n), [K.pr(K.var('ix'))]),
                  ('repeat all as lx print lx', '(SRepeat (LAll "lx" None) (SPrint (Some (RVar "lx"))))')]
        rng.shuffle(bodies)
        names = []
        for i, b in enumerate(bodies[:rng.randint(4, 8)]):
            names.append('rb%d' % i)
            items.append(bare(names[-1], b))
        for nm in names:
            items.append(K.call(nm, []))
        items.append(('units logical', '(SUnits UM_LOGICAL)'))
        items.append(K.pr(K.lit(999)))
    elif kind == 'raw_cycle':
        # `with v cycle` divides a full turn by the count: 65536 in raw units, 360 otherwise -- in plain code, with a start
        # value, over lights, and in a routine that runs under the units of its caller
        n = rng.choice([2, 3, 4, 8])
        b1 = K.block([K.pr(K.var('h')), K.reg('hue', K.var('h'))])
        cyc = lambda start: '(WCycle "h" %s)' % ('None' if start is None else '(Some (RLit (LInt %d)))' % start)
        loop_a = ('repeat %d with h cycle %s' % (n, b1[0]), '(SRepeat (LCountWith (RLit (LInt %d)) %s) %s)' % (n, cyc(None), b1[1]))
        loop_b = ('repeat 2 with h cycle 1000 %s' % b1[0], '(SRepeat (LCountWith (RLit (LInt 2)) %s) %s)' % (cyc(1000), b1[1]))
        loop_c = ('repeat all as lx with h cycle %s' % b1[0], '(SRepeat (LAll "lx" (Some %s)) %s)' % (cyc(None), b1[1]))
        items.append(K.define('turn', [], [loop_a, K.ret(K.lit(1))]))
        items.append(('units raw', '(SUnits UM_RAW)'))
        items.append(loop_a)
        items.append(loop_b)
        items.append(loop_c)
        items.append(K.call('turn', []))
        items.append(('units logical', '(SUnits UM_LOGICAL)'))
        items.append(loop_a)
        items.append(K.call('turn', []))
        items.append(K.pr(K.lit(999)))
    elif kind == 'raw_power':
        # on / off of a group, a location, a light and all lights while raw units are in force and a duration is set: the
        # duration is sent as it is (milliseconds), as `set` sends it; and again after the switch back (C01g_2)
        grp = world[0][1] if world else 'g1'
        loc = world[0][2] if world else 'l1'
        name = world[0][0] if world else 'no such'
        tg = lambda k, n: '(Target %s (NStr %s))' % (k, coq_str(n))
        power = lambda on, txt, ops: ('%s %s' % ('on' if on else 'off', txt), '(%s (OpList [%s]))' % ('SOn' if on else 'SOff', '; '.join(ops)))
        items.append(('units raw', '(SUnits UM_RAW)'))
        items.append(K.reg('duration', K.lit(rng.choice([1500, 250, 4000]))))
        items.append(power(True, 'group "%s"' % grp, [tg('TGroup', grp)]))
        items.append(power(False, 'location "%s"' % loc, [tg('TLocation', loc)]))
        items.append(power(True, '"%s" and group "%s"' % (name, grp), [tg('TLight', name), tg('TGroup', grp)]))
        items.append(('off all', '(SOff OpAll)'))
        items.append(('set group "%s"' % grp, '(SSet (OpList [%s]))' % tg('TGroup', grp)))
        items.append(('units logical', '(SUnits UM_LOGICAL)'))
        items.append(power(True, 'group "%s"' % grp, [tg('TGroup', grp)]))
        items.append(K.reg('duration', K.lit(2.5)))
        items.append(power(False, 'location "%s" and "%s"' % (loc, name), [tg('TLocation', loc), tg('TLight', name)]))
    elif kind == 'units_under_time':
        # a unit switch across the raw boundary while a time of day is held and a duration is set, then commands: the duration is
        # converted with the switch whatever the time register holds (C01b_2); and back again
        from bardolph.lib.time_pattern import TimePattern
        text = rng.choice(['8:00', '12:*', '*:15', '0:00'])
        pat = '(TPat %s %s)' % (coq_str(text), lang.coq_tp(TimePattern.from_string(text)))
        name = world[0][0] if world else 'no such'
        first, second = rng.choice([('raw', 'logical'), ('logical', 'raw')])
        mode = {'raw': 'UM_RAW', 'logical': 'UM_LOGICAL', 'rgb': 'UM_RGB'}
        items.append(('units %s' % first, '(SUnits %s)' % mode[first]))
        items.append(K.reg('duration', K.lit(rng.choice([2, 1.5, 2000, 1500]))))
        items.append(('time at %s' % text, '(STimeAt [%s])' % pat))
        items.append(('units %s' % second, '(SUnits %s)' % mode[second]))
        items.append(('set all', '(SSet OpAll)'))
        items.append(('on "%s"' % name, '(SOn (OpList [(Target TLight (NStr %s))]))' % coq_str(name)))
        items.append(('units %s' % first, '(SUnits %s)' % mode[first]))
        items.append(('set "%s"' % name, '(SSet (OpList [(Target TLight (NStr %s))]))' % coq_str(name)))
    elif kind == 'odd_counts':
        # counts that never meet zero exactly on the way down: a fraction, a negative number, bounds a fraction apart (C01g_1)
        b1 = [K.pr(K.var('q')), K.assign('q', K.expr('q + 1', '(EBin BAdd (EVar "q") (ELit (LInt 1)))'))]
        items.append(K.assign('q', K.lit(0)))
        items.append(K.rep_count(K.lit(2.5), b1))
        items.append(K.assign('want', K.lit(2)))
        items.append(K.assign('have', K.lit(5)))
        items.append(K.rep_count(K.expr('want - have', '(EBin BSub (EVar "want") (EVar "have"))'), b1))
        items.append(K.rep_count(K.expr('have / 2', '(EBin BDiv (EVar "have") (ELit (LInt 2)))'), b1))
        items.append(K.rep_range('i', K.lit(0), K.lit(1.5), [K.pr(K.var('i'))]))
        items.append(K.rep_range('i', K.lit(2), K.lit(0.5), [K.pr(K.var('i'))]))
        items.append(K.pr(K.var('q')))
    elif kind == 'param_like_macro':
        # a parameter named like a constant defined before: inside the routine it is the parameter, outside the name stays
        # the constant -- also as the argument of the call itself (C03g_1)
        m = rng.choice(['level', 'lamp_k', 'n'])
        v = rng.choice([40, 7, 2.5])
        mac = lambda: (m, '(RMacro %s)' % coq_str(m))
        items.append(('define %s %s' % (m, txt_num(v)), '(SDefineMacro %s (MLit %s))' % (coq_str(m), coq_lit(v))))
        items.append(K.define('dim', ['x', m], [K.pr(K.var(m)), K.assign(m, K.expr('%s + 1' % m, '(EBin BAdd (EVar %s) (ELit (LInt 1)))' % coq_str(m))), K.pr(K.var(m)), K.pr(K.var('x'))]))
        items.append(K.call('dim', [K.lit(1), mac()]))
        items.append(K.pr(mac()))
        items.append(K.reg('hue', mac()))
        items.append(K.call('dim', [mac(), K.lit(9)]))
        items.append(K.pr(mac()))
    elif kind == 'called_sources':
        # the name of a group / location in a light list comes from a routine that itself commands lights and loops over them:
        # whatever the call leaves in the operand register, the members listed are those of the group it names (C04g_1)
        grp = world[0][1] if world else 'g1'
        loc = world[0][2] if world else 'l1'
        name = world[0][0] if world else 'no such'
        items.append(K.define('pick_g', [], [('on "%s"' % name, '(SOn (OpList [(Target TLight (NStr %s))]))' % coq_str(name)),
                                             K.rep_all('z', [K.pr(K.var('z'))]), K.ret(K.lit_s(grp))]))
        items.append(K.define('pick_l', [], [('off location "%s"' % loc, '(SOff (OpList [(Target TLocation (NStr %s))]))' % coq_str(loc)), K.ret(K.lit_s(loc))]))
        b = K.block([K.pr(K.var('l'))])
        items.append(('repeat in group [pick_g] as l %s' % b[0], '(SRepeat (LIn [SrcGroup (RCall "pick_g" [])] "l" None) %s)' % b[1]))
        items.append(('repeat in location [pick_l] and "%s" and group [pick_g] as l %s' % (name, b[0]),
                      '(SRepeat (LIn [SrcLocation (RCall "pick_l" []); SrcLight (RLit (LStr %s)); SrcGroup (RCall "pick_g" [])] "l" None) %s)' % (coq_str(name), b[1])))
        b2 = K.block([K.pr(K.var('l')), K.pr(K.var('v'))])
        items.append(('repeat in group [pick_g] as l with v from 0 to 100 %s' % b2[0],
                      '(SRepeat (LIn [SrcGroup (RCall "pick_g" [])] "l" (Some (WRange "v" (RLit (LInt 0)) (RLit (LInt 100))))) %s)' % b2[1]))
    elif kind == 'single_item_range':
        # a light loop with an interpolated variable over exactly one item (increment 0, nothing divided): the item is
        # still the light's name, and nothing is left behind when the loop ends; the same for a count of one
        name = world[0][0] if world else 'no such'
        a, b_ = rng.randint(0, 5), rng.randint(6, 20)
        body = K.block([K.pr(K.var('lx')), K.pr(K.var('v')), K.reg('hue', K.var('v')), K.set_light_var('lx')])
        wr = '(WRange "v" (RLit (LInt %d)) (RLit (LInt %d)))' % (a, b_)
        loop1 = ('repeat in "%s" as lx with v from %d to %d %s' % (name, a, b_, body[0]),
                 '(SRepeat (LIn [SrcLight (RLit (LStr %s))] "lx" (Some %s)) %s)' % (coq_str(name), wr, body[1]))
        b2 = K.block([K.pr(K.var('v'))])
        loop2 = ('repeat 1 with v from %d to %d %s' % (a, b_, b2[0]), '(SRepeat (LCountWith (RLit (LInt 1)) %s) %s)' % (wr, b2[1]))
        if rng.random() < 0.5:
            items.append(K.define('once', [], [loop1, loop2, K.ret(K.lit(3))]))
            items.append(K.pr(K.expr(*K.e_bin('+', K.e_lit(100), K.e_call('once', [])))))
        else:
            items.append(K.rep_count(K.lit(2), [loop1, loop2]))
        items.append(loop1)
        items.append(K.pr(K.lit(999)))
    elif kind == 'self_bound':
        # the bounds of a range loop are evaluated before the index variable is initialised, even when they read it
        v = rng.choice(['n', 'k', 'i'])
        hi = rng.randint(2, 4)
        items.append(K.assign(v, K.lit(hi)))
        items.append(K.rep_range(v, K.lit(1), K.var(v), [K.pr(K.var(v))]))
        items.append(K.pr(K.var(v)))
        items.append(K.assign(v, K.lit(hi)))
        items.append(K.rep_range(v, K.expr(*K.e_bin('-', K.e_var(v), K.e_lit(1))), K.expr(*K.e_bin('+', K.e_var(v), K.e_lit(1))), [K.pr(K.var(v))]))
        items.append(K.define('cnt', [v], [K.rep_range(v, K.lit(0), K.var(v), [K.pr(K.var(v))]), K.ret(K.var(v))]))
        items.append(K.pr(K.r_call('cnt', [K.lit(2)])))
        b = K.block([K.reg('hue', K.var(v)), K.pr(K.var(v))])
        items.append(('repeat %d with %s from 10 to {%s * 10} %s' % (3, v, v, b[0]),
                      '(SRepeat (LCountWith (RLit (LInt 3)) (WRange %s (RLit (LInt 10)) (RExpr (EBin BMul (EVar %s) (ELit (LInt 10)))))) %s)' % (coq_str(v), coq_str(v), b[1])))
    elif kind == 'late_macro':
        # a macro defined after a routine whose parameter / local has the same name: inside the routine the name is still the parameter
        p1 = rng.choice(['level', 'n', 'amount'])
        loc = rng.choice(['tmp', 'acc2'])
        items.append(K.define('show', [p1], [K.pr(K.var(p1)), K.assign(p1, K.expr(*K.e_bin('+', K.e_var(p1), K.e_lit(1)))), K.ret(K.var(p1))]))
        items.append(K.define('twice', [p1, 'other'], [K.assign(loc, K.expr(*K.e_bin('*', K.e_var(p1), K.e_lit(2)))), K.pr(K.var(loc)),
                                                     K.ret(K.expr(*K.e_bin('+', K.e_var(loc), K.e_var('other'))))]))
        items.append(('define %s 50' % p1, '(SDefineMacro %s (MLit (LInt 50)))' % coq_str(p1)))
        items.append(('define %s 70' % loc, '(SDefineMacro %s (MLit (LInt 70)))' % coq_str(loc)))
        items.append(K.pr(K.r_call('show', [K.lit(7)])))
        items.append(K.pr(K.r_call('twice', [K.lit(4), K.lit(1)])))
        items.append(K.pr(('%s' % p1, '(RMacro %s)' % coq_str(p1))))
        items.append(K.call('show', [('%s' % loc, '(RMacro %s)' % coq_str(loc))]))
    elif kind == 'arg_alias':
        # arguments are evaluated in the caller's scope: a caller variable named like one of the callee's parameters
        p1, p2 = rng.choice([('a', 'b'), ('h', 's'), ('x', 'n')])
        items.append(K.assign(p1, K.lit(1)))
        items.append(K.assign(p2, K.lit(2)))
        items.append(K.define('pair', [p1, p2], [K.pr(K.var(p1)), K.pr(K.var(p2)),
                                                K.ret(K.expr(*K.e_bin('+', K.e_bin('*', K.e_var(p1), K.e_lit(10)), K.e_var(p2))))]))
        items.append(K.call('pair', [K.lit(5), K.var(p1)]))
        items.append(K.call('pair', [K.var(p2), K.var(p1)]))
        items.append(K.pr(K.r_call('pair', [K.lit(7), K.expr(*K.e_bin('+', K.e_var(p1), K.e_lit(1)))])))
        items.append(K.pr(K.expr(*K.e_bin('+', K.e_call('pair', [K.expr(*K.e_bin('*', K.e_var(p2), K.e_lit(3))), K.var(p1)]), K.e_var(p2)))))
        items.append(K.define('outer', [p2], [K.call('pair', [K.lit(3), K.var(p2)]), K.pr(K.r_call('pair', [K.var(p2), K.var(p2)])),
                                            K.rep_range('k', K.lit(1), K.lit(2), [K.call('pair', [K.var('k'), K.var(p2)])])]))
        items.append(K.call('outer', [K.lit(4)]))
        if rng.random() < 0.6:
            gcd = K.define('gcd', [p1, p2], [K.if_(K.expr(*K.e_bin('==', K.e_var(p2), K.e_lit(0))), [K.ret(K.var(p1))]),
                                            K.ret(K.r_call('gcd', [K.var(p2), K.expr(*K.e_bin('%', K.e_var(p1), K.e_var(p2)))]))])
            items.append(gcd)
            items.append(K.pr(K.r_call('gcd', [K.lit(rng.choice([48, 30, 21])), K.lit(rng.choice([18, 12, 14]))])))
        items.append(K.pr(K.var(p1)))
        items.append(K.pr(K.var(p2)))
    elif kind == 'paramless_local':
        # a routine without parameters has its own locals and loop indices: the caller's are untouched
        v = rng.choice(['scratch', 't', 'acc'])
        idx = rng.choice(['i', 'j'])
        items.append(K.define('helper', [], [K.assign(v, K.lit(5)), K.rep_range(idx, K.lit(10), K.lit(11), [K.pr(K.var(idx))]),
                                            K.assign(v, K.expr(*K.e_bin('+', K.e_var(v), K.e_lit(1)))), K.ret(K.var(v))]))
        items.append(K.define('work', [v], [K.rep_range(idx, K.lit(1), K.lit(3), [K.pr(K.var(idx)), K.assign('got', K.r_call('helper', [])),
                                                                              K.pr(K.var(idx)), K.pr(K.var(v)), K.pr(K.var('got'))]),
                                           K.call('helper', []), K.ret(K.expr(*K.e_bin('+', K.e_var(v), K.e_lit(1))))]))
        items.append(K.pr(K.r_call('work', [K.lit(4)])))
        items.append(K.assign('level', K.lit(0)))
        items.append(K.define('rec', [], [K.assign('mine', K.var('level')), K.assign('level', K.expr(*K.e_bin('+', K.e_var('level'), K.e_lit(1)))),
                                         K.if_(K.expr(*K.e_bin('<', K.e_var('level'), K.e_lit(3))), [K.call('rec', [])]), K.pr(K.var('mine'))]))
        items.append(K.call('rec', []))
        items.append(K.call('helper', []))
        items.append(('printf "{%s} {mine} {level} "' % v, '(SPrintf "{%s} {mine} {level} " [])' % v))
    elif kind == 'nested_def':
        first = K.define('early', ['p'], [K.pr(K.var('p')), K.ret(K.lit(1))]) if rng.random() < 0.6 else None
        if first:
            items.append(first)
        inner_def = K.define('late', [], [K.pr(K.lit(42)), K.reg('hue', K.lit(33))])
        cond_false = K.expr(*K.e_bin('>', K.e_lit(1), K.e_lit(2)))
        cond_true = K.expr(*K.e_bin('<', K.e_lit(1), K.e_lit(2)))
        shape = rng.choice(['if_false', 'if_false', 'if_true', 'if_else', 'loop', 'while_false'])
        if shape == 'if_false':
            items.append(K.if_(cond_false, [K.pr(K.lit(1)), inner_def, K.pr(K.lit(2))]))
        elif shape == 'if_true':
            items.append(K.if_(cond_true, [inner_def, K.pr(K.lit(2))]))
        elif shape == 'if_else':
            items.append(K.if_(cond_false, [inner_def, K.pr(K.lit(2))], [K.pr(K.lit(3))]))
        elif shape == 'loop':
            items.append(K.rep_range('i', K.lit(1), K.lit(3), [K.pr(K.var('i')), inner_def, K.if_(K.expr(*K.e_bin('==', K.e_var('i'), K.e_lit(2))), [K.brk()])]))
        else:
            b = K.block([inner_def, K.pr(K.lit(8))])
            items.append(('repeat while %s %s' % (cond_false[0], b[0]), '(SRepeat (LWhile %s) %s)' % (cond_false[1], b[1])))
        items.append(K.reg('hue', K.lit(20)))
        items.append(K.pr(K.lit(7)))
        items.append(K.call('late', []))
        if first:
            items.append(K.call('early', [K.lit(3)]))
        items.append(('set all', '(SSet OpAll)'))
    else:
        callee = K.define('inner', [], [K.rep_range('i', K.lit(10), K.lit(12), [K.pr(K.var('i')), K.if_(K.expr(*K.e_bin('==', K.e_var('i'), K.e_lit(rng.choice([10, 11, 12])))), [K.brk()])]), K.ret(K.lit(0))])
        items.append(callee)
        items.append(K.rep_range('j', K.lit(1), K.lit(3), [K.rep_range('k', K.lit(10), K.lit(12), [K.pr(K.var('k')), K.if_(K.expr(*K.e_bin('==', K.e_var('k'), K.e_lit(12))), [K.brk()])]), K.pr(K.var('j')), K.call('inner', [])]))
        items.append(K.pr(K.lit(999)))
    return items
