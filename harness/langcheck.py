"""The language-core pipeline comparison shared by C01, C03, C04 (and used by C05, C17):

  script text  --real Parser-->  program  --real Loader-->  image  --real Machine--> trace
  script AST   --Coq compile-->  program  (correspondence A)
  program      --Coq load---->   image    (correspondence B)
  program      --Coq run_vm-->   trace    (correspondence C)
  script AST   --Coq run_src-->  trace    (ORACLE: the reference semantics)
"""
import json
import os
import common
import lang
import gen_prog

IMPORTS = 'From Bardolph Require Import Run.VmShow Run.SemShow Lang.Instr Lang.World Lang.Syntax Gen.Codes.'
SEM_FUEL = 4000
LONG_SEM_FUEL = 300
VM_FUEL = 40000


class Case:
    def __init__(self, items, world, origin):
        self.items = items          # list of (text, coq) top-level statements
        self.world = world
        self.origin = origin

    @property
    def text(self):
        return '\n'.join(t for t, _ in self.items) + '\n'

    @property
    def coq(self):
        return gen_prog.coq_list([c for _, c in self.items])

    def replay(self):
        return {'script': self.text, 'world': self.world, 'ast': self.coq, 'origin': self.origin}


def generate_cases(rng, n, opts=None, size=(2, 8), tag='gen'):
    cases = []
    stats = {}
    p_scn = (opts or {}).get('p_scenario', 0.12)
    # every directed scenario once, whatever the draw
    if p_scn > 0:
        for k in sorted(set(gen_prog.SCENARIO_KINDS)):
            world = gen_prog.World.generate(rng, kinds=(opts or {}).get('kinds', True))
            cases.append(Case(gen_prog.scenario(rng, world, k), world, '%s-scenario-%s' % (tag, k)))
            stats['scenario'] = stats.get('scenario', 0) + 1
    for i in range(n):
        world = gen_prog.World.generate(rng, kinds=(opts or {}).get('kinds', True))
        if rng.random() < p_scn:
            cases.append(Case(gen_prog.scenario(rng, world), world, '%s-scenario-%d' % (tag, i)))
            stats['scenario'] = stats.get('scenario', 0) + 1
            continue
        g = gen_prog.Gen(rng, world, opts)
        items = g.gen_items(rng.randint(*size))
        cases.append(Case(items, world, '%s-%d' % (tag, i)))
        for k, v in g.stats.items():
            stats[k] = stats.get(k, 0) + v
    return cases, stats


def load_corpus(prop):
    d = os.path.join(common.VERIF, 'corpus', prop)
    out = []
    if os.path.isdir(d):
        for f in sorted(os.listdir(d)):
            if f.endswith('.json'):
                j = json.load(open(os.path.join(d, f)))
                out.append(Case([tuple(x) for x in j['items']], [tuple(l[:3]) + (tuple(l[3]),) for l in j['world']], 'corpus/' + f))
    return out


def observe_impl(case):
    """Everything the implementation does with the case."""
    obs = {}
    try:
        prog, errs = lang.compile_script(case.text)
    except Exception as ex:
        obs['compile_exc'] = type(ex).__name__ + ': ' + str(ex)
        return obs
    obs['errors'] = errs
    if prog is None:
        obs['rejected'] = True
        return obs
    obs['program'] = prog
    obs['program_txt'] = lang.show_program(prog)
    from bardolph.vm.loader import Loader
    loader = Loader()
    loader.load(prog)
    code = loader.get_code()
    routines = {k: v for k, v in loader.get_routines().items() if type(v).__name__ == 'Routine'}
    obs['image_txt'] = lang.show_program(code)
    obs['routines'] = {k: (v.get_address(), v.get_return()) for k, v in routines.items()}
    st, evs = lang.run_program_impl(prog, case.world, max_steps=VM_FUEL // 2)
    obs['status'], obs['events'] = st, evs
    return obs


def coq_eval(cases_obs, want_sem=True):
    """Evaluate compile / load / vm / sem in Coq for the accepted cases; returns per case dict."""
    bodies = []
    idxs = []
    for i, (case, obs) in enumerate(cases_obs):
        if 'program' not in obs:
            continue
        w = lang.coq_world(case.world)
        prog = lang.coq_program(obs['program'])
        b = 'Eval vm_compute in (compile_case %s).\n' % case.coq
        b += 'Eval vm_compute in (load_case %s).\n' % prog
        # a script the implementation did not finish within its step budget is not run in the models either
        # (nothing to compare; deep recursion is very slow under vm_compute): compiler and loader are still compared
        long_run = obs.get('status') == 'FUEL'
        b += 'Eval vm_compute in (vm_case %d %s %s).\n' % (10 if long_run else VM_FUEL, prog, w)
        if want_sem:
            # (the reference semantics still gets a modest budget: a script it finishes in a few hundred units and the
            # implementation does not finish at all is a script that does not end)
            b += 'Eval vm_compute in (sem_case %d %s %s).\n' % (LONG_SEM_FUEL if long_run else SEM_FUEL, case.coq, w)
            b += 'Eval vm_compute in (covered_case %s).\n' % case.coq
        bodies.append(b)
        idxs.append(i)
    per = 5 if want_sem else 3
    packed, groups = [], []
    for k in range(0, len(bodies), 12):
        packed.append(''.join(bodies[k:k + 12]))
        groups.append(idxs[k:k + 12])
    res = common.run_cases('lang', IMPORTS, packed)
    out = {}
    for (ok, strs, log), grp in zip(res, groups):
        if not ok or len(strs) != per * len(grp):
            # find the culprit by running the group's cases one by one
            for i in grp:
                case, obs = cases_obs[i]
                single = bodies[idxs.index(i)]
                r = common.run_cases('lang1', IMPORTS, [single])[0]
                if r[0] and len(r[1]) == per:
                    out[i] = r[1]
                else:
                    out[i] = {'coq_error': r[2][-1500:]}
            continue
        for k, i in enumerate(grp):
            out[i] = strs[per * k:per * k + per]
    return out


def classify(spec, impl):
    """stable signature fragment for spec trace vs implementation trace"""
    (sst, sev), (ist, iev) = spec, impl
    k = 0
    while k < min(len(sev), len(iev)) and sev[k] == iev[k]:
        k += 1
    if k == len(sev) and k == len(iev):
        if sst != ist:
            if ist.startswith('ABORT') and not sst.startswith('ABORT'):
                return 'script-aborts-' + ist.split(':', 1)[1]
            if sst.startswith('ABORT') and not ist.startswith('ABORT'):
                return 'continues-after-' + sst.split(':', 1)[1]
            return 'different-error'
        return None
    if k == len(iev):
        if ist.startswith('ABORT'):
            return 'script-aborts-' + ist.split(':', 1)[1]
        return 'missing-' + sev[k].split('|')[0]
    if k == len(sev):
        if sst.startswith('ABORT'):
            return 'continues-after-' + sst.split(':', 1)[1]
        return 'extra-' + iev[k].split('|')[0]
    a, b = sev[k].split('|'), iev[k].split('|')
    if a[0] != b[0]:
        return 'wrong-event-%s-for-%s' % (b[0], a[0])
    for j in range(1, min(len(a), len(b))):
        if a[j] != b[j]:
            field = {('P', 3): 'duration', ('C', 3): 'duration', ('C', 2): 'colour', ('AC', 1): 'colour', ('AC', 2): 'duration',
                     ('AP', 2): 'duration', ('P', 1): 'target', ('C', 1): 'target', ('O', 1): 'value', ('W', 1): 'delay',
                     ('Z', 2): 'zone-start', ('Z', 3): 'zone-end', ('M', 2): 'cells'}.get((a[0], j), 'field%d' % j)
            return '%s-%s' % (a[0], field)
    return 'event-shape'


def shrink(case, still_fails, budget=10):
    """delete top-level statements while the failure persists"""
    items = list(case.items)
    i = 0
    while i < len(items) and budget > 0 and len(items) > 1:
        trial = items[:i] + items[i + 1:]
        budget -= 1
        c = Case(trial, case.world, case.origin + '/shrunk')
        try:
            if still_fails(c):
                items = trial
                continue
        except Exception:
            pass
        i += 1
    return Case(items, case.world, case.origin + '/shrunk')


def compare_all(ctx, prop, cases, want_sem=True, do_shrink=True):
    """Runs the whole comparison.  Records counterexamples / broken ties on ctx; returns summary."""
    cases_obs = [(c, observe_impl(c)) for c in cases]
    coq = coq_eval(cases_obs, want_sem) if ctx.model_runnable else {}
    summary = {'cases': len(cases), 'rejected': 0, 'agree': 0, 'unsupported': 0, 'fuel': 0,
               'aborting': 0, 'events': 0, 'oracle_diffs': 0}
    for i, (case, obs) in enumerate(cases_obs):
        ctx.count()
        if 'compile_exc' in obs:
            ctx.counterexample(prop + '/compiler-raises', 'the compiler raises %s on a generated script' % obs['compile_exc'], case.replay())
            continue
        if obs.get('rejected'):
            summary['rejected'] += 1
            ctx.extra.setdefault('rejected_samples', [])
            if len(ctx.extra['rejected_samples']) < 3:
                ctx.extra['rejected_samples'].append({'script': case.text, 'errors': obs['errors']})
            # the generator writes valid scripts only (an AST the reference semantics runs): a rejection is the compiler's
            ctx.counterexample(prop + '/valid-script-rejected', 'a valid generated script is rejected: %s' % str(obs['errors'])[:160], case.replay())
            continue
        if i not in coq:
            continue
        r = coq[i]
        if isinstance(r, dict):
            if 'Stack overflow' in r['coq_error'] or 'TIMEOUT' in r['coq_error']:
                summary['fuel'] += 1      # evaluation resources of the harness, counted like fuel exhaustion
                continue
            ctx.broken_tie('correspondence', 'coq evaluation failed', {'script': case.text, 'log': r['coq_error']})
            continue
        impl = (obs['status'], obs['events'])
        summary['events'] += len(obs['events'])
        if want_sem and len(r) >= 5:
            # inside the fragment of the forward-simulation theorem: reference semantics and machine model agree by proof
            summary['in_theorem_fragment' if r[4] == 'covered' else 'outside_theorem_fragment'] = \
                summary.get('in_theorem_fragment' if r[4] == 'covered' else 'outside_theorem_fragment', 0) + 1
        if obs['status'].startswith('ABORT'):
            summary['aborting'] += 1
        # A: compiler
        if r[0] != obs['program_txt']:
            a, b = obs['program_txt'].split(';'), r[0].split(';')
            k = 0
            while k < min(len(a), len(b)) and a[k] == b[k]:
                k += 1
            ctx.broken_tie('correspondence', 'A: compile(AST) vs Parser.get_program()',
                           {'script': case.text, 'at': k, 'implementation': a[max(0, k - 2):k + 3], 'model': b[max(0, k - 2):k + 3]})
        # B: loader
        want_img = obs['image_txt'] + '#'
        got_img, _, got_rt = r[1].partition('#')
        if got_img != obs['image_txt']:
            ctx.broken_tie('correspondence', 'B: load vs Loader.get_code()', {'script': case.text})
        else:
            model_rt = {}
            for ent in [e for e in got_rt.split(';') if e]:
                nm, _, addrs = ent.rpartition('@')
                a, b = addrs.split(',')
                model_rt.setdefault(lang.parse_val(nm), (int(a), int(b)))
            if model_rt != obs['routines']:
                ctx.broken_tie('correspondence', 'B: routine table vs Loader.get_routines()',
                               {'script': case.text, 'implementation': obs['routines'], 'model': model_rt})
        # C: machine
        vm = lang.canon_model_final(r[2])
        if 'unsupported' in vm[0]:
            summary['unsupported'] += 1
            continue
        if obs['status'] == 'FUEL' and want_sem:
            sem = lang.canon_model_final(r[3])
            if sem[0] == 'FIN' and len(sem[1]) < 2000:
                # the reference semantics finishes the script within a small budget; does the implementation with a large one?
                st2, evs2 = lang.run_program_impl(obs['program'], case.world, max_steps=VM_FUEL * 10)
                if st2 == 'FUEL':
                    rep = case.replay()
                    rep['expected'] = [sem[0]] + sem[1][:30]
                    rep['actual'] = ['no end within %d instructions' % (VM_FUEL * 10)] + evs2[:30]
                    ctx.counterexample('%s/script-does-not-end' % prop, 'the script ends after %d events by its source, the implementation is still running after %d instructions: %s'
                                       % (len(sem[1]), VM_FUEL * 10, case.text.strip().replace('\n', ' ; ')[:300]), rep)
                    continue
        if vm[0].startswith('FUEL') or obs['status'] == 'FUEL':
            summary['fuel'] += 1
            continue
        if vm != impl:
            ctx.broken_tie('correspondence', 'C: run_vm vs Machine.run', {'script': case.text, 'world': case.world,
                           'implementation': [impl[0]] + impl[1][:12], 'model': [vm[0]] + vm[1][:12], 'class': classify(vm, impl)})
        # O: oracle
        if want_sem:
            sem = lang.canon_model_final(r[3])
            if 'unsupported' in sem[0]:
                summary['unsupported'] += 1
                continue
            if sem[0].startswith('FUEL'):
                summary['fuel'] += 1
                continue
            cls = classify(sem, impl)
            if cls is not None:
                summary['oracle_diffs'] += 1
                small = case
                if do_shrink and summary["oracle_diffs"] <= 2:
                    def still(c):
                        o = observe_impl(c)
                        if 'program' not in o:
                            return False
                        rr = coq_eval([(c, o)], True).get(0)
                        if not rr or isinstance(rr, dict):
                            return False
                        s2 = lang.canon_model_final(rr[3])
                        return classify(s2, (o['status'], o['events'])) == cls
                    small = shrink(case, still)
                    o2 = observe_impl(small)
                    rr = coq_eval([(small, o2)], True).get(0)
                    sem2 = lang.canon_model_final(rr[3]) if rr and not isinstance(rr, dict) else sem
                    impl2 = (o2['status'], o2['events']) if 'status' in o2 else impl
                else:
                    sem2, impl2 = sem, impl
                rep = small.replay()
                rep['expected'] = [sem2[0]] + sem2[1][:30]
                rep['actual'] = [impl2[0]] + impl2[1][:30]
                ctx.counterexample('%s/%s' % (prop, cls), 'running the script does not do what its source says (%s): %s'
                                   % (cls, small.text.strip().replace('\n', ' ; ')[:300]), rep)
                continue
        summary['agree'] += 1
        key = case.text
        if len(obs['events']) >= 2:
            ctx.nontriv(key)
        if i % 40 == 0:
            ctx.sample({'script': case.text, 'world': case.world, 'trace': [obs['status']] + obs['events'][:8]}, limit=4)
    return summary
