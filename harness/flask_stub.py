"""A stub of the part of the Flask API that web/front_end.py uses (Flask, Werkzeug and
Jinja2 are not installed here; the property itself says "with a stub of the Flask API").

  Blueprint(name, import_name).route(rule)   records (rule, endpoint function), in order;
  render_template(template, **context)       records (template, context) and returns a Page;
  request.headers                            the headers of the request being dispatched.

`dispatch(blueprint, url, headers)` plays the part of Werkzeug's URL map for the rule
shapes the blueprint uses: a rule is '/' followed by '/'-separated segments, each either
a literal or `<name>` (the default string converter: one or more characters, no '/').
A rule without converters has priority over a rule with converters (Werkzeug sorts
static rules first); among rules of the same kind the first registered wins.  No
percent-decoding, no redirects, no strict-slash handling: request paths are taken
literally.  A path that matches no rule yields NotFound (Flask's 404), nothing is called.

install() puts the stub into sys.modules as `flask` (and removes a previously imported
web.front_end so that it is re-imported against the stub)."""
import sys
import types


class NotFound(Exception):
    pass


class Page:
    """What render_template returns: the template name and the context it was given."""
    def __init__(self, template, context):
        self.template = template
        self.context = context

    def __repr__(self):
        return 'Page(%r)' % (self.template,)


class Blueprint:
    def __init__(self, name, import_name, **kw):
        self.name = name
        self.import_name = import_name
        self.rules = []          # [(rule text, function)] in registration order

    def route(self, rule, **options):
        def deco(fn):
            self.rules.append((rule, fn))
            return fn
        return deco


class _Headers(dict):
    def get(self, key, default=None):
        for k, v in self.items():
            if k.lower() == key.lower():
                return v
        return default


class _Request:
    def __init__(self):
        self.headers = _Headers()
        self.path = None


request = _Request()
rendered = []                   # every Page produced, in order (the harness clears it)


def render_template(template, **context):
    page = Page(template, context)
    rendered.append(page)
    return page


def parse_rule(rule):
    """'/stop/<script_path>' -> [('static', 'stop'), ('param', 'script_path')]; '/' -> []."""
    if not rule.startswith('/'):
        raise ValueError('rule must start with a slash: %r' % rule)
    if rule == '/':
        return []
    segs = []
    for part in rule[1:].split('/'):
        if part.startswith('<') and part.endswith('>') and len(part) > 2 and ':' not in part:
            segs.append(('param', part[1:-1]))
        elif '<' in part or '>' in part:
            raise ValueError('unsupported converter in rule %r' % rule)
        else:
            segs.append(('static', part))
    return segs


def match_rule(segs, url):
    """None, or the dict of converter values."""
    if not url.startswith('/'):
        return None
    parts = [] if url == '/' else url[1:].split('/')
    if len(parts) != len(segs):
        return None
    args = {}
    for (kind, text), part in zip(segs, parts):
        if kind == 'static':
            if part != text:
                return None
        else:
            if part == '':
                return None
            args[text] = part
    return args


def resolve(blueprint, url):
    """(rule text, function, args) of the rule that serves `url`, or None."""
    parsed = [(rule, fn, parse_rule(rule)) for rule, fn in blueprint.rules]
    static = [r for r in parsed if all(k == 'static' for k, _ in r[2])]
    dynamic = [r for r in parsed if not all(k == 'static' for k, _ in r[2])]
    for rule, fn, segs in static + dynamic:
        args = match_rule(segs, url)
        if args is not None:
            return rule, fn, args
    return None


def dispatch(blueprint, url, headers=None):
    """Serve one request: returns what the view function returns; raises NotFound when no
    rule matches; any exception of the view function propagates (Flask would answer 500)."""
    hit = resolve(blueprint, url)
    if hit is None:
        raise NotFound(url)
    rule, fn, args = hit
    request.headers = _Headers(headers or {})
    request.path = url
    return fn(**args)


def install():
    mod = types.ModuleType('flask')
    mod.Blueprint = Blueprint
    mod.render_template = render_template
    mod.request = request
    mod.__verif_stub__ = True
    sys.modules['flask'] = mod
    sys.modules.pop('web.front_end', None)
    return mod
