"""Injection set-up for running the implementation inside the harness (mirrors
tests/test_module.configure, with the population given by the caller)."""
import logging


def configure(specs=None, output='list', clock='fake', extra_settings=None):
    from bardolph.controller import light_set
    from bardolph.fakes import fake_clock, fake_light_api
    from bardolph.lib import injection, log_config, object_list_output, settings, std_out_output, i_lib
    from bardolph.runtime import runtime_module
    injection.configure()
    conf = {
        'log_level': logging.CRITICAL,
        'log_to_console': True,
        'single_light_discover': True,
        'use_fakes': True,
        'sleep_time': 0.0,
    }
    if extra_settings:
        conf.update(extra_settings)
    settings.using(conf).configure()
    logging.disable(logging.CRITICAL)
    if clock == 'fake':
        fake_clock.configure()
    if specs is None:
        fake_light_api.using_small_set().configure()
    else:
        fake_light_api.using(specs).configure()
    light_set.configure()
    runtime_module.configure()
    if output == 'list':
        out = object_list_output.ObjectListOutput()
        injection.bind_instance(out).to(i_lib.Output)
        return out
    std_out_output.configure()
    return None
