"""Texts that break one documented rule each (C06): fragments x contexts.  Every text must be rejected."""

FRAGMENTS = {
    'break-outside-loop': ['break', 'if {1} break', 'repeat 2 begin hue 1 end break', 'define f begin break end',
                           'define f begin if {1} begin break end end', 'repeat 2 begin hue 1 end if {1} begin break end',
                           'repeat 2 begin define f begin break end end', 'if {1} begin hue 1 end else break'],
    'return-outside-routine': ['return', 'return 5', 'if {1} return', 'repeat 2 begin return end', 'print 1 return print 2',
                               'define f begin return 1 end return'],
    'assign-to-macro': ['define m 5 assign m 6', 'define m 5 repeat 2 begin assign m 1 end', 'define m "a" assign m "b"',
                        'define m 5 define f begin assign m 1 end', 'define m 5 assign m {m + 1}', 'define m 12:30 assign m 1',
                        'define m 5 define f with m begin hue 1 end assign m 6', 'define m 5 define f with a m begin hue a end f 1 2 assign m 7'],
    'redefine-macro': ['define m 5 define m 6', 'define m 5 define m begin hue 1 end', 'define m 5 hue m define m "x"',
                       'define m 5 define k m define m 7',
                       # the name is also a local symbol where the redefinition stands: parameter, light variable, loop index, the routine itself
                       'define m 5 define f with m begin define m 6 end f 1 print m',
                       'define lamp "a" define g begin repeat all as lamp begin define lamp "b" end end g on lamp',
                       'define level 100 define h begin repeat with level from 1 to 2 begin define level 7 end end brightness level',
                       'define f with f begin define f 5 end', 'define m 5 define f with a m begin define m a end'],
    'undefined-name': ['hue x', 'print y', 'assign a b', 'hue {x + 1}', 'f 1', 'hue [g 2]', 'repeat n begin hue 1 end',
                       'define f with a begin hue b end', 'if {q} hue 1', 'set "a" zone z', 'repeat with i from 1 to k begin hue i end',
                       'define f begin assign loc 1 end hue loc', 'assign v 1 hue {v + w}', 'define f with a begin hue a end f u',
                       'printf "{}" nope', 'define f with p_ begin hue p_ end hue p_', 'define f with p_ q_ begin hue p_ end define g begin hue q_ end',
                       'define f with p_ begin assign loc_ p_ end print loc_', 'define f with p_ begin hue p_ end on p_', 'repeat while {c < 3} begin hue 1 end', 'time at noon', 'define m k', 'hue {1 + [h 2]}',
                       # the first assignment of a name cannot read that name
                       'assign count {count + 1}', 'assign total {2 * total}', 'assign a 1 assign b {a + b}', 'define f begin assign n {n - 1} end f',
                       'assign v v', 'define f with p begin assign q {p + q} end f 1'],
    'nested-routine': ['define f begin define g begin hue 1 end end', 'define f with a begin repeat 2 begin define g begin hue 1 end end end',
                       'define f begin if {1} begin define g with x begin hue x end end end',
                       'define f begin hue 1 define g with y begin hue y end hue 2 end'],
    'missing-end': ['repeat 2 begin hue 1', 'define f begin hue 1', 'if {1} begin hue 1', 'set "a" begin stage row 0 column 0',
                    'repeat 2 begin repeat 3 begin hue 1 end', 'define f begin repeat 2 begin hue 1 end', 'if {1} begin hue 1 end else begin hue 2',
                    'repeat all as x begin set x', 'repeat with i from 1 to 3 begin hue i', 'define f with a begin if {a} begin hue a end'],
    'unbalanced': ['hue {1 + 2', 'hue {(1 + 2}', 'hue {1 + 2)}', 'hue {1 + 2}}', 'define f with a begin hue a end hue [f 1',
                   'define f with a begin hue a end hue [f 1]]', 'hue {[round 1.5}', 'hue (1)', 'hue {((1)}', 'hue }', 'hue ]', 'print {1} }',
                   'hue {1 + (2 * 3}', 'hue {1 + 2 * 3)}', 'assign x {', 'hue [round {1.5]}', 'if {(1 < 2} hue 1', 'print {1 + }'],
    # outside expressions a minus is allowed in front of a number only: a time pattern, a string, a name that is no number macro
    'minus-before-non-number': ['hue -12:00', 'time -1*:30', 'define dawn 6:15 time -dawn', 'define dawn 6:15 assign x -dawn', 'define f with a begin hue a end f -23:59',
                                'assign v 5 hue -v', 'hue -"x"', 'define s "txt" hue -s', 'time at -12:00', 'print -5', 'define dawn *:30 duration -dawn'],
    'bad-time-pattern': ['time at 25:00', 'time at 12:60', 'time at 8:00 or 25:00', 'time at 8:00 or 9:00 or 12:75', 'time at 1:2', 'time at 123:00',
                         'time at -8:00', 'time at 8:00 or', 'define t 25:00', 'define t 12:30 time at t or 24:00', 'time at 3*:00', 'time at *:6*',
                         'time at 8:00 or noon', 'time at 24:00', 'time at 8:0', 'time at :30', 'time at 8:', 'time at 8:00 or 7:61 or 9:00', 'time at **:00',
                         'time at 10:00 or 12', 'time at 10:00 or 1030', 'time at 10:00 or "11:00"', 'define n 1030 time at 10:00 or n',
                         'define s "x" time at 10:00 or 9:00 or s', 'time at 10:00 or 2.5', 'time at 12', 'time at "12:00"', 'define n 5 time at n'],
}

CONTEXTS = [
    ('top', '%s'),
    ('after-valid', 'hue 1\nassign ok 2\n%s'),
    ('before-valid', '%s\nhue 1'),
    ('in-loop', 'repeat 2 begin\n%s\nend'),
    ('in-routine', 'define w_ begin\n%s\nend'),
    ('in-if', 'if {1} begin\n%s\nend'),
    ('in-else', 'if {0} hue 1 else begin\n%s\nend'),
    ('after-loop', 'repeat 2 begin hue 5 end\n%s'),
    ('after-routine', 'define w_ with p begin hue p end\n%s'),
]


def texts():
    out = []
    for rule, frags in FRAGMENTS.items():
        for frag in frags:
            for cname, ctx in CONTEXTS:
                if rule == 'break-outside-loop' and cname == 'in-loop':
                    continue     # inside a loop a break is legal
                if rule == 'return-outside-routine' and cname == 'in-routine':
                    continue     # inside a routine a return is legal
                out.append((rule, cname, ctx % frag))
    return out
