"""Language-core plumbing shared by C01-C06, C16-C18: running the real compiler / loader /
VM under observation, and printing their data as Coq terms and canonical strings."""
import math
import common
from common import coq_str, coq_z, coq_list

# ---------------------------------------------------------------------------
# canonical strings (must mirror coq/Run/Show.v and coq/Run/VmShow.v)


def show_str(s):
    out = []
    for ch in s:
        n = ord(ch)
        if n < 32 or n >= 127 or n in (92, 59, 39):
            out.append('\\x%02x' % n if n < 256 else '\\u%04x' % n)
        else:
            out.append(ch)
    return "'" + ''.join(out) + "'"


def show_float(x):
    if math.isnan(x):
        return 'fnan'
    if math.isinf(x):
        return 'finf' if x > 0 else 'f-inf'
    if x == 0:
        return 'f-0' if math.copysign(1.0, x) < 0 else 'f0'
    m, e = math.frexp(abs(x))
    mant = int(m * (1 << 53))
    exp = e - 53
    while mant % 2 == 0:
        mant //= 2
        exp += 1
    return 'f%s%dp%d' % ('-' if x < 0 else '', mant, exp)


def tp_alternatives(p):
    alts = getattr(p, '_alternatives', None)
    if alts is None:
        alts = [(p._hour_set, p._minute_set)]
    return [(sorted(h), sorted(m)) for h, m in alts]


def show_tp(p):
    return ''.join(''.join('%d.' % z for z in h) + ':' + ''.join('%d.' % z for z in m) + '+' for h, m in tp_alternatives(p))


def show_val(v, fuel=3):
    from bardolph.vm.vm_codes import Operand
    from bardolph.controller.units import UnitMode
    from bardolph.lib.time_pattern import TimePattern
    if isinstance(v, bool):
        return 'bT' if v else 'bF'
    if isinstance(v, int):
        return 'i%d' % v
    if isinstance(v, float):
        return show_float(v)
    if isinstance(v, str):
        return 's' + show_str(v)
    if v is None:
        return 'n'
    if isinstance(v, Operand):
        return 'o' + v.name
    if isinstance(v, UnitMode):
        return 'u' + v.name
    if isinstance(v, TimePattern):
        return 't' + show_tp(v)
    if isinstance(v, (list, tuple)):
        if fuel == 0:
            return 'l?'
        return 'l[' + ''.join(show_val(x, fuel - 1) + ',' for x in v) + ']'
    return '?' + type(v).__name__


def show_zs(l):
    return ''.join('%d,' % z for z in l)


def parse_val(s):
    """Inverse of show_val for the scalar kinds (used to format the model's printf events)."""
    if s.startswith('i'):
        return int(s[1:])
    if s.startswith('f'):
        body = s[1:]
        if body == 'nan':
            return float('nan')
        if body in ('inf', '-inf'):
            return float(body)
        if body in ('0', '-0'):
            return float(body + '.0') if body == '0' else -0.0
        m, e = body.split('p')
        return math.ldexp(float(int(m)), int(e))
    if s == 'bT':
        return True
    if s == 'bF':
        return False
    if s == 'n':
        return None
    if s.startswith("s'"):
        body = s[2:-1]
        out = []
        i = 0
        while i < len(body):
            if body[i] == '\\' and body[i + 1] == 'x':
                out.append(chr(int(body[i + 2:i + 4], 16)))
                i += 4
            else:
                out.append(body[i])
                i += 1
        return ''.join(out)
    if s.startswith('o'):
        from bardolph.vm.vm_codes import Operand
        return Operand[s[1:]]
    if s.startswith('u'):
        from bardolph.controller.units import UnitMode
        return UnitMode[s[1:]]
    raise ValueError('cannot parse value ' + s)


# ---------------------------------------------------------------------------
# Coq terms

def coq_float(x):
    if math.isnan(x):
        return 'PrimFloat.nan'
    if math.isinf(x):
        return 'PrimFloat.infinity' if x > 0 else 'PrimFloat.neg_infinity'
    if x == 0:
        return 'PrimFloat.neg_zero' if math.copysign(1.0, x) < 0 else 'PrimFloat.zero'
    return '(%s)%%float' % float(x).hex()


def coq_tp(p):
    return coq_list(['(%s, %s)' % (coq_list([coq_z(z) for z in h]), coq_list([coq_z(z) for z in m])) for h, m in tp_alternatives(p)])


def coq_param(v):
    from bardolph.vm.vm_codes import (Register, LoopVar, Operand, Operator, JumpCondition, IoOp, SetOp, OpCode)
    from bardolph.controller.units import UnitMode
    from bardolph.lib.time_pattern import TimePattern
    if v is None:
        return 'PNone'
    if isinstance(v, bool):
        return '(PBool %s)' % ('true' if v else 'false')
    if isinstance(v, int):
        return '(PInt %s)' % coq_z(v)
    if isinstance(v, float):
        return '(PFlt %s)' % coq_float(v)
    if isinstance(v, str):
        return '(PStr %s)' % coq_str(v)
    for cls, ctor, pre in ((Register, 'PReg', 'R'), (LoopVar, 'PLoopVar', 'LV'), (Operand, 'POperand', 'OD'),
                           (Operator, 'POperator', 'OP'), (JumpCondition, 'PJump', 'JC'), (IoOp, 'PIoOp', 'IO'),
                           (SetOp, 'PSetOp', 'SO'), (UnitMode, 'PMode', 'UM'), (OpCode, 'POpCode', 'OC')):
        if isinstance(v, cls):
            return '(%s %s_%s)' % (ctor, pre, v.name)
    if isinstance(v, TimePattern):
        return '(PTime %s)' % coq_tp(v)
    return '(POther %s)' % coq_str(type(v).__name__)


def coq_instr(inst):
    return '(mkI OC_%s %s %s)' % (inst.op_code.name, coq_param(inst.param0), coq_param(inst.param1))


def coq_program(prog):
    return coq_list([coq_instr(i) for i in prog])


def show_param(v):
    from bardolph.vm.vm_codes import (Register, LoopVar, Operand, Operator, JumpCondition, IoOp, SetOp, OpCode)
    from bardolph.controller.units import UnitMode
    from bardolph.lib.time_pattern import TimePattern
    if v is None:
        return '-'
    if isinstance(v, bool):
        return 'bT' if v else 'bF'
    if isinstance(v, int):
        return 'i%d' % v
    if isinstance(v, float):
        return show_float(v)
    if isinstance(v, str):
        return 's' + show_str(v)
    for cls, pre in ((Register, 'R'), (LoopVar, 'L'), (Operand, 'o'), (UnitMode, 'u'), (Operator, 'X'),
                     (JumpCondition, 'J'), (IoOp, 'I'), (SetOp, 'S'), (OpCode, 'C')):
        if isinstance(v, cls):
            return pre + v.name
    if isinstance(v, TimePattern):
        return 't' + show_tp(v)
    return '?' + type(v).__name__


def show_instr(inst):
    return '%s %s %s' % (inst.op_code.name, show_param(inst.param0), show_param(inst.param1))


def show_program(prog):
    return ''.join(show_instr(i) + ';' for i in prog)


# worlds: list of (name, group, location, kind) with kind = ('plain',) | ('multi', n) | ('matrix', h, w)

def coq_world(world):
    items = []
    for name, group, loc, kind in world:
        if kind[0] == 'plain':
            k = 'KPlain'
        elif kind[0] == 'multi':
            k = '(KMulti %d)' % kind[1]
        else:
            k = '(KMatrix %d %d)' % (kind[1], kind[2])
        items.append('(mkLight %s %s %s %s [0;0;0;0])' % (coq_str(name), coq_str(group), coq_str(loc), k))
    return coq_list(items)


def fake_specs(world):
    from bardolph.fakes.fake_light_api import LightType
    specs = []
    for name, group, loc, kind in world:
        if kind[0] == 'plain':
            specs.append((name, group, loc))
        elif kind[0] == 'multi':
            specs.append((name, group, loc, LightType.MULTI_ZONE, kind[1]))
        else:
            specs.append((name, group, loc, LightType.MATRIX, kind[1], kind[2]))
    return tuple(specs)


SMALL_WORLD = [('light_1', 'a', 'b', ('plain',)), ('light_2', 'group', 'loc', ('plain',)), ('light_0', 'group', 'loc', ('plain',))]

# ---------------------------------------------------------------------------
# running the implementation under observation

EXC_KIND = {'TypeError': 'type', 'ZeroDivisionError': 'zerodiv', 'IndexError': 'index', 'ValueError': 'value',
            'OverflowError': 'value', 'AssertionError': 'assert', 'KeyError': 'internal', 'AttributeError': 'internal'}


LAST_EXC = None


class Recorder:
    def __init__(self):
        self.events = []

    def add(self, s):
        self.events.append(s)


def install_world(world, rec, output='rec'):
    """Configure injection with a fake population and recording clock / output / lights."""
    import tests_env
    from bardolph.lib import injection, i_lib
    from bardolph.fakes import activity_monitor
    from bardolph.fakes.activity_monitor import Action
    from bardolph.controller import i_controller
    tests_env.configure(specs=fake_specs(world), output='list')

    class RecClock(i_lib.Clock):
        def start(self): pass
        def stop(self): pass
        def reset(self): pass
        def pause_for(self, t): rec.add('W|' + show_val(t))
        def wait_until(self, p): rec.add('U|' + show_tp(p))
        def wait(self): return True

    injection.bind_instance(RecClock()).to(i_lib.Clock)

    class RecOutput(i_lib.Output):
        def out(self, obj):
            rec.add('O|' + show_val(obj))
        def newline(self):
            rec.add('NL')
        def flush(self):
            rec.add('FL')

    if output == 'rec':
        injection.bind_instance(RecOutput()).to(i_lib.Output)

    light_set = injection.provide(i_controller.LightSet)
    api = injection.provide(i_controller.LightApi)
    owners = {id(api._monitor): None}
    for l in api.get_lights():
        owners[id(l._monitor)] = l.get_name()

    orig = activity_monitor.ActivityMonitor.log_call

    def log_call(self, name, *params):
        before = len(self._actions)
        orig(self, name, *params)
        if len(self._actions) == before:
            return
        owner = owners.get(id(self), '?')
        if name == Action.SET_COLOR:
            if owner is None:
                rec.add('AC|%s|%d' % (show_zs(params[0]), params[1]))
            else:
                rec.add('C|%s|%s|%d' % (show_str(owner), show_zs(params[0]), params[1]))
        elif name == Action.SET_POWER:
            if owner is None:
                rec.add('AP|%d|%d' % (params[0], params[1]))
            else:
                rec.add('P|%s|%d|%d' % (show_str(owner), params[0], params[1]))
        elif name == Action.SET_ZONE_COLOR:
            rec.add('Z|%s|%d|%d|%s|%d' % (show_str(owner), params[0], params[1], show_zs(params[2]), params[3]))
        elif name == Action.SET_MATRIX:
            cells = params[0].get_colors()
            rec.add('M|%s|%s|%s' % (show_str(owner), ''.join(show_zs(c) + '/' for c in cells), show_val(params[1])))
        elif name == Action.GET_COLOR:
            rec.add('G|' + show_str(owner))
        else:
            rec.add('X|%s' % name.name)

    activity_monitor.ActivityMonitor.log_call = log_call
    return orig


def uninstall(orig):
    from bardolph.fakes import activity_monitor
    activity_monitor.ActivityMonitor.log_call = orig


def run_program_impl(program, world, max_steps=20000):
    """Run an already compiled program on the real Machine; returns (status, events).
    status: 'FIN' | 'ABORT:<kind>' | 'FUEL'."""
    from bardolph.vm.machine import Machine
    from bardolph.vm.vm_codes import OpCode
    rec = Recorder()
    orig = install_world(world, rec)
    try:
        m = Machine()
        m.reset()
        del rec.events[:]
        state = {'exc': None, 'steps': 0}

        class Fuel(Exception):
            pass

        def wrap(fn):
            def inner():
                state['steps'] += 1
                if state['steps'] > max_steps:
                    m._keep_running = False
                    state['fuel'] = True
                    raise Fuel()
                try:
                    return fn()
                except Exception as ex:
                    state['exc'] = ex
                    raise
            return inner

        for op in list(m._fn_table):
            if op is not OpCode.STOP:
                m._fn_table[op] = wrap(m._fn_table[op])
        rec_before_flush = None
        # one instruction can take unbounded time (a tower of ^ on integers): such runs are counted like exhausted fuel
        with time_limit(60) as tl:
            m.run(program)
        if state.get('fuel') or tl.fired:
            return 'FUEL', rec.events
        global LAST_EXC
        LAST_EXC = state['exc']
        if state['exc'] is not None:
            kind = EXC_KIND.get(type(state['exc']).__name__, 'other:' + type(state['exc']).__name__)
            return 'ABORT:' + kind, rec.events
        return 'FIN', rec.events
    finally:
        uninstall(orig)


def ensure_env():
    """Parser needs the runtime bound; configure a default environment once."""
    from bardolph.lib import injection
    from bardolph.runtime import i_runtime
    if i_runtime.Runtime not in injection._providers:
        import tests_env
        tests_env.configure()


class CompilerHangs(Exception):
    pass


class time_limit:
    """with time_limit(5): ...  raises CompilerHangs in the main thread when the body runs longer (pure-Python loops)"""

    def __init__(self, seconds):
        self.seconds = seconds

    def __enter__(self):
        import signal
        import threading
        self.active = threading.current_thread() is threading.main_thread()
        self.fired = False
        if self.active:
            def on_alarm(signum, frame):
                self.fired = True
                raise CompilerHangs('no result after %s s' % self.seconds)
            self.old = signal.signal(signal.SIGALRM, on_alarm)
            signal.setitimer(signal.ITIMER_REAL, self.seconds)
        return self

    def __exit__(self, *a):
        import signal
        if self.active:
            signal.setitimer(signal.ITIMER_REAL, 0)
            signal.signal(signal.SIGALRM, self.old)
        return False


def compile_script(text, limit=10):
    from bardolph.parser.parse import Parser
    ensure_env()
    parser = Parser()
    with time_limit(limit):
        ok = parser.parse(text)
    return (parser.get_program() if ok else None), parser.get_errors()


def format_printf_event(ev):
    """Model event  F|'fmt'|v1,v2,|'name'=v,...  -> the string the implementation hands to the sink
    ('O|s...'), or None when str.format raises on it (the run then aborts)."""
    _, fmt_s, args_s, named_s = ev.split('|')
    fmt = parse_val('s' + fmt_s).replace('\\n', '\n')
    args = [parse_val(a) for a in split_top(args_s)]
    named = {}
    for item in split_top(named_s):
        k, v = item.split('=', 1)
        named[parse_val('s' + k)] = parse_val(v)
    try:
        return 'O|' + show_val(fmt.format(*args, **named)), None
    except Exception as ex:
        return None, EXC_KIND.get(type(ex).__name__, 'other:' + type(ex).__name__)


def split_top(s):
    """split 'a,b,' on commas that are not inside quotes"""
    out, cur, inq = [], '', False
    for ch in s:
        if ch == "'":
            inq = not inq
            cur += ch
        elif ch == ',' and not inq:
            out.append(cur)
            cur = ''
        else:
            cur += ch
    return out


def canon_model_final(s):
    """Model result string -> (status, events) with printf events formatted by Python."""
    head, _, evs = s.partition('#')
    events = [e for e in evs.split(';') if e] if evs else []
    # show_str escapes ';' so the split is safe
    out = []
    status = head
    for e in events:
        if e.startswith('F|'):
            text, err = format_printf_event(e)
            if text is None:
                return 'ABORT:' + err, out
            out.append(text)
        else:
            out.append(e)
    return status, out
