#!/venv/bin/python
"""check <Cnn> [--tier quick|thorough] [--replay file]

1. regenerate coq/Gen from /repo, build Props/<Cnn>.vo (full .vo), recompile the
   property file to collect Print Assumptions;
2. run the property's correspondence / oracle comparisons (harness/props/<cnn>.py);
3. decide: counterexample -> VIOLATION with replay; broken proof or correspondence
   without counterexample -> VIOLATION ... no-failing-input-found; listed findings ->
   KNOWN-FINDING and exit 0;
4. write evidence/<Cnn>.json.
"""
import argparse
import importlib
import json
import os
import sys
import traceback

HERE = os.path.dirname(os.path.abspath(__file__))
sys.path.insert(0, HERE)
import common  # noqa: E402

sys.path.insert(0, common.REPO)
os.environ.setdefault('PYTHONHASHSEED', '0')


def main():
    ap = argparse.ArgumentParser()
    ap.add_argument('prop')
    ap.add_argument('--tier', default=os.environ.get('VERIF_TIER', 'quick'))
    ap.add_argument('--replay')
    ap.add_argument('--no-build', action='store_true')
    args = ap.parse_args()
    if args.replay:
        args.replay = os.path.abspath(args.replay)
    seed = int(os.environ.get('VERIF_SEED', '20261001'))
    prop = args.prop.upper()
    ctx = common.Ctx(prop, args.tier if args.tier in ('quick', 'thorough') else 'quick', seed)
    mod = importlib.import_module('props.' + prop.lower())
    os.chdir(common.REPO)

    if not args.replay:
        import glob
        for old in glob.glob(os.path.join(common.VERIF, 'replays', prop + '_*.json')):
            os.remove(old)
    if args.replay:
        payload = json.load(open(args.replay))
        ok = mod.replay(ctx, payload)
        print('replay: property %s on this input' % ('HOLDS' if ok else 'FAILS'))
        return 0 if ok else 1

    # 1. proof obligations
    ok_gen, log_gen = common.regen()
    if not ok_gen:
        # a generated file the translator could not produce does not compile (fail closed): the build below breaks for exactly
        # the properties whose theorems or models depend on it; the others are not concerned (a rewrite of web_app.py is no
        # reason for the language properties to stop being shown)
        ctx.extra['translator_failures'] = [l for l in log_gen.splitlines() if 'FAILED' in l][-10:]
    rc, log = common.build(['Props/%s.vo' % prop] + getattr(mod, 'EXTRA_TARGETS', []))
    proof = common.compile_props(prop) if rc == 0 else {'ok': False, 'rc': rc, 'log': log, 'theorems': [], 'stated': []}
    if rc != 0 and not proof['stated']:
        import re
        try:
            src = open(os.path.join(common.COQ, 'Props', prop + '.v')).read()
            proof['stated'] = re.findall(r'^\s*Theorem\s+(\S+)', src, re.M)
        except OSError:
            pass
    ctx.proof = proof
    if not proof['ok']:
        tail = (log if rc != 0 else proof['log'])
        errs = [l for l in tail.splitlines() if 'Error' in l or 'File "' in l]
        ctx.broken_tie('proof', 'Props/%s.vo' % prop, '\n'.join(errs[-12:]) + '\n---\n' + tail[-1500:])
    # the development declares no axiom and switches off no kernel check (tools/audit.py)
    import subprocess
    aud = subprocess.run([sys.executable, os.path.join(common.VERIF, 'tools', 'audit.py')], capture_output=True, text=True)
    if aud.returncode != 0:
        ctx.broken_tie('proof', 'audit', aud.stdout[-2000:])
    ctx.extra['audit'] = aud.stdout.splitlines()[0] if aud.stdout else ''
    ctx.model_runnable = common.models_built(getattr(mod, 'MODEL_TARGETS', []))
    ctx.stage('build+props')

    # 2./3. correspondence, oracle comparison, search
    try:
        mod.run(ctx)
    except Exception:
        ctx.broken_tie('harness', 'exception', traceback.format_exc()[-3000:])
    return common.finish(ctx)


if __name__ == '__main__':
    sys.exit(main())
