"""Deterministic scheduler for real Python threads (DESIGN 5.3).  Reusable: C08, C09, C10.

The code under test runs on real `threading` threads, but serialised: every *shared access*
(lock acquire/release, event set/clear/wait, read/write of a shared attribute, deque or dict
operation, thread start/join, user marks) is a *yield point*.  A thread that reaches a yield point
parks BEFORE performing the access; the scheduler picks one runnable parked thread, that
thread performs exactly this one access, records the event (tid, access, value), runs on
(unshared code only) to its next yield point and parks again.  Thread ids are assigned in
creation order (clients first, in the order of `add_client`; then started threads in start
order), so that they coincide with the thread ids of the Coq model `Jobs/Threads.v`.

API (10 lines):
    s = Scheduler(schedule, canon=f, wall_s=10, max_steps=20000)     # schedule: list of ints or
                                                                    # callable(runnable, pending, step)->index
    with s.patched(module), s.shared_attrs(module.Class, ['_active_agent']):
        # module.threading is a namespace with controlled Thread/RLock/Lock/Event for the whole
        # run; the named instance attributes of Class are yielding data descriptors
        obj = module.Class()           # locks/events created now are controlled ones
        obj._queue = s.deque('q'); obj._background = s.dict('bg')  # yielding proxies
        s.add_client(fn, *args); s.add_client(fn2)                  # tids 0, 1, ...
        res = s.run()
    res.events [(tid, access, value)], res.picks [tid], res.choices [index], res.deadlock
    [(tid, access)] or None, res.timeout bool, res.died {tid: exception type name}
    s.mark(kind, value)                 # user yield point (job begin/end, return values)
The next thread is runnable[schedule[i] % len(runnable)] (runnable sorted by tid), so any list of
integers is a valid schedule; when the list is exhausted the lowest runnable tid runs (the
model's run_model does the same).  Accesses made by threads the scheduler does not know (the
harness main thread before/after `run`) are performed directly and not recorded.
No runnable thread while some are unfinished = deadlock: reported, all threads are released
with SchedAbort, nothing hangs; a wall-clock guard does the same (and so does a callable
schedule that returns None, or raises).  `s.before_abort` (callable) runs before the threads
of an abandoned run are released, e.g. to snapshot the state at the deadlock.
Blocking accesses (lock acquire, Event.wait() without time-out, Thread.join()) are simply not
runnable until they can succeed; lock acquisition time-outs are modelled as blocking; a timed
Event.wait may return whenever it is scheduled (its result is the flag at that moment).
list(deque) is ONE access (`<name>.list`), as in CPython.  For other modules (machine.py,
clock.py) pass their module object to `patched`, their class and attribute names to
`shared_attrs`, and replace container fields by `s.deque(name)` / `s.dict(name)`.
"""
import collections
import contextlib
import threading as _th
import time as _time
import types


class SchedAbort(BaseException):
    """Raised inside controlled threads to unwind them when a run is abandoned."""


class Result:
    def __init__(self):
        self.events = []
        self.picks = []
        self.choices = []
        self.widths = []
        self.deadlock = None
        self.timeout = False
        self.died = {}
        self.steps = 0
        self.overrun = False


class _T:
    """Book-keeping for one controlled thread."""
    def __init__(self, tid):
        self.tid = tid
        self.go = _th.Semaphore(0)
        self.pending = None      # (access label, enabled predicate)
        self.finished = False
        self.real = None
        self.len_hint = None     # container just snapshotted by list(c): its length hint is not an access


class Scheduler:
    def __init__(self, schedule=(), canon=None, wall_s=10.0, max_steps=20000, default='lowest'):
        self.schedule = schedule
        self.canon = canon or (lambda v: v)
        self.wall_s = wall_s
        self.max_steps = max_steps
        self.threads = []            # _T by tid
        self.by_ident = {}
        self.cv = _th.Condition()
        self.running = 0             # threads currently executing (not parked, not finished)
        self.aborting = False
        self.res = Result()
        self._clients = []
        self.active = False
        self.before_abort = None     # callable run before the threads of an abandoned run are released
        sched = self

        class Thread:
            """Controlled stand-in for threading.Thread (target/args/kwargs/daemon/name)."""
            def __init__(self, group=None, target=None, name=None, args=(), kwargs=None, daemon=None):
                self._target, self._args, self._kwargs = target, args, kwargs or {}
                self.name = name or 'cthread'
                self.daemon = daemon
                self._t = None

            def run(self):
                if self._target is not None:
                    self._target(*self._args, **self._kwargs)

            def start(self):
                def do():
                    self._t = sched._new_thread(self.run)
                    return self._t.tid
                sched.access('thread-start', do)

            def is_alive(self):
                return sched.access('thread-alive', lambda: self._t is not None and not self._t.finished)

            def join(self, timeout=None):
                if timeout is None:
                    sched.access('thread-join', lambda: None,
                                 enabled=lambda: self._t is not None and self._t.finished)
                else:
                    sched.access('thread-join-timeout', lambda: None)

        class RLock:
            """Re-entrant lock; acquisition time-outs are modelled as blocking."""
            def __init__(self, name='lock', reentrant=True):
                self.name, self.owner, self.count, self.reentrant = name, None, 0, reentrant

            def acquire(self, blocking=True, timeout=-1):
                me = sched._me()
                if me is None:
                    self.owner, self.count = 'main', self.count + 1
                    return True

                def free():
                    return self.owner is None or (self.reentrant and self.owner is me)

                def do():
                    if not free():
                        return False
                    self.owner, self.count = me, self.count + 1
                    return True
                return sched.access(self.name + '.acquire', do, enabled=(free if blocking else None))

            def release(self):
                me = sched._me() or 'main'

                def do():
                    if self.owner is not me:
                        raise RuntimeError('cannot release un-acquired lock')
                    self.count -= 1
                    if self.count == 0:
                        self.owner = None
                sched.access(self.name + '.release', do)

            __enter__ = acquire

            def __exit__(self, *a):
                self.release()

        class Event:
            def __init__(self, name='event'):
                self.name, self.flag = name, False

            def set(self):
                sched.access(self.name + '.set', lambda: setattr(self, 'flag', True))

            def clear(self):
                sched.access(self.name + '.clear', lambda: setattr(self, 'flag', False))

            def is_set(self):
                return sched.access(self.name + '.is_set', lambda: self.flag)

            def wait(self, timeout=None):
                if timeout is None:
                    return sched.access(self.name + '.wait', lambda: True, enabled=lambda: self.flag)
                # a timed wait may return at any moment it is scheduled: its result is the flag then
                return sched.access(self.name + '.wait-timeout', lambda: self.flag)

        self.Thread, self.RLock, self.Event = Thread, RLock, Event
        self.Lock = lambda name='lock': RLock(name, reentrant=False)

    # ----------------------------------------------------------------- plumbing
    def _me(self):
        return self.by_ident.get(_th.get_ident()) if self.active else None

    def _new_thread(self, fn):
        t = _T(len(self.threads))
        self.threads.append(t)

        def body():
            self.by_ident[_th.get_ident()] = t
            try:
                self._park(t, ('thread-begin', None), first=True)
                fn()
            except SchedAbort:
                pass
            except BaseException as ex:   # noqa: B036  (what the thread dies of is an observation)
                self.res.died[t.tid] = type(ex).__name__
                self.res.events.append((t.tid, 'die', type(ex).__name__))
            finally:
                with self.cv:
                    t.finished = True
                    t.pending = None
                    self.running -= 1
                    self.cv.notify_all()
        t.real = _th.Thread(target=body, daemon=True)
        with self.cv:
            self.running += 1
        t.real.start()
        return t

    def _park(self, t, pending, first=False):
        """Announce the pending access and wait for the scheduler's grant."""
        if first:
            # a fresh thread only has to reach its first real yield point: no step of its own
            return
        with self.cv:
            t.pending = pending
            self.running -= 1
            self.cv.notify_all()
        t.go.acquire()
        if self.aborting:
            raise SchedAbort()

    def access(self, label, do, enabled=None):
        """One shared access = one yield point.  `do()` performs it and returns its value;
        `enabled()` (optional) says whether it can fire now (blocking accesses)."""
        t = self._me()
        if t is None or self.aborting:
            return do()
        t.len_hint = None
        self._park(t, (label, enabled))
        try:
            v = do()
        except BaseException as ex:   # noqa: B036
            self.res.events.append((t.tid, label, 'raise ' + type(ex).__name__))
            raise
        self.res.events.append((t.tid, label, self.canon(v)))
        return v

    def mark(self, kind, value=None):
        """User yield point carrying an observation (job begin/end, a call's result, ...)."""
        return self.access(kind, lambda: value)

    # ----------------------------------------------------------------- set-up helpers
    @contextlib.contextmanager
    def patched(self, module, name='threading'):
        """module.<threading> := namespace with the controlled classes (everything else of the
        real module stays reachable)."""
        real = getattr(module, name)
        ns = types.SimpleNamespace(**{k: getattr(real, k) for k in dir(real) if not k.startswith('__')})
        ns.Thread, ns.RLock, ns.Lock, ns.Event = self.Thread, self.RLock, self.Lock, self.Event
        setattr(module, name, ns)
        try:
            yield ns
        finally:
            setattr(module, name, real)

    @contextlib.contextmanager
    def shared_attrs(self, cls, names):
        """Install yielding data descriptors for the given instance attributes of cls (values
        already stored in instance dicts stay valid: the descriptor uses the same slot)."""
        sched = self

        def make(n):
            class Attr:
                def __get__(self, obj, typ=None):
                    if obj is None:
                        return self
                    return sched.access('read ' + n, lambda: obj.__dict__[n])

                def __set__(self, obj, v):
                    def do():
                        obj.__dict__[n] = v
                        return v
                    sched.access('write ' + n, do)
            return Attr()
        saved = {}
        for n in names:
            saved[n] = cls.__dict__.get(n, None)
            setattr(cls, n, make(n))
        try:
            yield
        finally:
            for n in names:
                if saved[n] is None:
                    delattr(cls, n)
                else:
                    setattr(cls, n, saved[n])

    def deque(self, name, init=()):
        sched = self

        class SharedDeque(collections.deque):
            def append(self, x):
                return sched.access(name + '.append', lambda: (collections.deque.append(self, x), x)[1])

            def appendleft(self, x):
                return sched.access(name + '.appendleft', lambda: (collections.deque.appendleft(self, x), x)[1])

            def popleft(self):
                return sched.access(name + '.popleft', lambda: collections.deque.popleft(self))

            def pop(self):
                return sched.access(name + '.pop', lambda: collections.deque.pop(self))

            def clear(self):
                return sched.access(name + '.clear', lambda: collections.deque.clear(self))

            def __len__(self):
                t = sched._me()
                if t is not None and t.len_hint == id(self):
                    # list(deque) is ONE atomic operation of the interpreter: the length hint it
                    # asks for right after the snapshot is not a second access
                    t.len_hint = None
                    return collections.deque.__len__(self)
                return sched.access(name + '.len', lambda: collections.deque.__len__(self))

            def __bool__(self):
                return len(self) > 0

            def __iter__(self):
                snap = sched.access(name + '.list', lambda: list(collections.deque.__iter__(self)))
                t = sched._me()
                if t is not None:
                    t.len_hint = id(self)
                return iter(snap)
        return SharedDeque(init)

    def dict(self, name, init=None):
        sched = self

        class SharedDict(dict):
            # the key is part of the access label (it is known before the access is performed)
            def __setitem__(self, k, v):
                def do():
                    dict.__setitem__(self, k, v)
                    return v
                return sched.access('%s.set:%s' % (name, k), do)

            def __delitem__(self, k):
                return sched.access('%s.del:%s' % (name, k), lambda: dict.__delitem__(self, k))

            def __contains__(self, k):
                return sched.access('%s.has:%s' % (name, k), lambda: dict.__contains__(self, k))

            def __getitem__(self, k):
                return sched.access('%s.get:%s' % (name, k), lambda: dict.__getitem__(self, k))

            def get(self, k, d=None):
                return sched.access('%s.get:%s' % (name, k), lambda: dict.get(self, k, d))

            def pop(self, k, *d):
                return sched.access('%s.pop:%s' % (name, k), lambda: dict.pop(self, k, *d))

            def __len__(self):
                return sched.access(name + '.len', lambda: dict.__len__(self))

            def values(self):
                return sched.access(name + '.values', lambda: list(dict.values(self)))

            def keys(self):
                return sched.access(name + '.keys', lambda: list(dict.keys(self)))

            def items(self):
                return sched.access(name + '.items', lambda: list(dict.items(self)))

            def __iter__(self):
                return iter(self.keys())
        return SharedDict(init or {})

    # ----------------------------------------------------------------- running
    def add_client(self, fn, *args, **kw):
        self._clients.append(lambda: fn(*args, **kw))
        return len(self._clients) - 1

    def _wait_all_parked(self, deadline):
        with self.cv:
            while self.running > 0:
                left = deadline - _time.time()
                if left <= 0:
                    return False
                self.cv.wait(min(left, 0.5))
        return True

    def _abort(self):
        if self.before_abort is not None:
            self.before_abort()
        self.aborting = True
        for t in self.threads:
            if not t.finished:
                t.go.release()
        end = _time.time() + 2.0
        for t in self.threads:
            if t.real is not None:
                t.real.join(max(0.0, end - _time.time()))

    def run(self):
        res = self.res
        deadline = _time.time() + self.wall_s
        self.active = True
        try:
            for fn in self._clients:
                self._new_thread(fn)
            i = 0
            while True:
                if not self._wait_all_parked(deadline):
                    res.timeout = True
                    self._abort()
                    break
                live = [t for t in self.threads if not t.finished]
                if not live:
                    break
                runnable = [t for t in live if t.pending[1] is None or t.pending[1]()]
                if not runnable:
                    res.deadlock = [(t.tid, t.pending[0]) for t in live]
                    self._abort()
                    break
                if res.steps >= self.max_steps:
                    res.overrun = True
                    self._abort()
                    break
                if callable(self.schedule):
                    k = self.schedule([t.tid for t in runnable], [t.pending[0] for t in runnable], res.steps)
                    if k is None:
                        res.overrun = True
                        self._abort()
                        break
                elif i < len(self.schedule):
                    k = self.schedule[i] % len(runnable)
                else:
                    k = 0
                i += 1
                t = runnable[k]
                res.choices.append(k)
                res.widths.append(len(runnable))
                res.picks.append(t.tid)
                res.steps += 1
                with self.cv:
                    self.running += 1
                t.go.release()
        except BaseException:
            # a failing chooser must not leave parked threads behind
            if not self.aborting:
                self._abort()
            raise
        finally:
            self.active = False
        return res
