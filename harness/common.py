"""Shared plumbing of the checks: regeneration of coq/Gen, the Coq build, evaluation of
generated cases files inside Coq, evidence files, known findings, violation reports."""
import fcntl
import hashlib
import json
import os
import random
import re
import subprocess
import sys
import time

VERIF = os.path.dirname(os.path.dirname(os.path.abspath(__file__)))
REPO = os.environ.get('VERIF_REPO', '/repo')
COQ = os.path.join(VERIF, 'coq')
PY = '/venv/bin/python'
NCPU = 16


def sh(cmd, timeout=600, cwd=None, env=None):
    t0 = time.time()
    try:
        p = subprocess.run(cmd, shell=isinstance(cmd, str), cwd=cwd, env=env, timeout=timeout,
                           stdout=subprocess.PIPE, stderr=subprocess.STDOUT, text=True, errors='replace')
        return p.returncode, p.stdout, time.time() - t0
    except subprocess.TimeoutExpired as ex:
        out = ex.stdout if isinstance(ex.stdout, str) else (ex.stdout or b'').decode('utf-8', 'replace')
        return 124, out + '\nTIMEOUT after %ss' % timeout, time.time() - t0


class BuildLock:
    def __enter__(self):
        self.f = open(os.path.join(VERIF, '.build.lock'), 'w')
        fcntl.flock(self.f, fcntl.LOCK_EX)
        return self

    def __exit__(self, *a):
        fcntl.flock(self.f, fcntl.LOCK_UN)
        self.f.close()


def coq_sources():
    out = []
    for root, dirs, files in os.walk(COQ):
        rel = os.path.relpath(root, COQ)
        if rel.startswith('cases'):
            continue
        for f in files:
            if f.endswith('.v'):
                out.append(os.path.normpath(os.path.join(rel, f)))
    return sorted(out)


def regen():
    """Regenerate coq/Gen from REPO.  Returns (ok, log)."""
    rc, out, _ = sh([PY, os.path.join(VERIF, 'tools/py2coq.py'), REPO, os.path.join(COQ, 'Gen')], timeout=120)
    return rc == 0, out


def ensure_makefile():
    srcs = coq_sources()
    proj = '-Q . Bardolph\n-arg -w -arg -all\n' + '\n'.join(srcs) + '\n'
    pfile = os.path.join(COQ, '_CoqProject')
    old = open(pfile).read() if os.path.exists(pfile) else None
    if old != proj or not os.path.exists(os.path.join(COQ, 'Makefile')):
        with open(pfile, 'w') as f:
            f.write(proj)
        rc, out, _ = sh('coq_makefile -f _CoqProject -o Makefile', cwd=COQ, timeout=60)
        if rc != 0:
            raise RuntimeError('coq_makefile failed: ' + out)


def build(targets=None, timeout=1500):
    """Full .vo build of the given targets (default: everything), -k so that one broken
    file does not hide the others.  Returns (rc, log)."""
    with BuildLock():
        ensure_makefile()
        tg = ' '.join(targets) if targets else ''
        rc, out, _ = sh('make -k -j%d %s' % (NCPU, tg), cwd=COQ, timeout=timeout)
        return rc, out


def compile_props(prop):
    """Recompile Props/<prop>.v unconditionally and collect the Print Assumptions blocks.
    Returns dict(ok, log, theorems=[{name, axioms:[...]}])."""
    with BuildLock():
        rc, out, _ = sh('timeout 600 coqc -q -w -all -Q . Bardolph Props/%s.v' % prop, cwd=COQ, timeout=620)
    src = open(os.path.join(COQ, 'Props', prop + '.v')).read()
    names = re.findall(r'^\s*Print Assumptions\s+(\S+?)\s*\.', src, re.M)
    stated = re.findall(r'^\s*Theorem\s+(\S+)', src, re.M)
    blocks = []
    # each Print Assumptions prints either "Closed under the global context" or "Axioms:" + lines
    chunks = re.split(r'(?m)^(?=Closed under the global context|Axioms:)', out)
    for ch in chunks:
        if ch.startswith('Closed under the global context'):
            blocks.append([])
        elif ch.startswith('Axioms:'):
            axs = []
            for line in ch.splitlines()[1:]:
                m = re.match(r'^(\S+)\s*:', line)
                if m:
                    axs.append(m.group(1))
            blocks.append(axs)
    theorems = []
    for i, n in enumerate(names):
        theorems.append({'name': n, 'axioms': blocks[i] if i < len(blocks) else None})
    ok = (rc == 0 and len(blocks) == len(names) and set(stated) == set(names))
    return {'ok': ok, 'rc': rc, 'log': out, 'theorems': theorems, 'stated': stated}


# ---------------------------------------------------------------------------
# evaluating cases inside Coq

def coq_str(s):
    """Python str (ASCII) -> Coq string literal.  Control characters cannot be written
    in a literal, so they are spliced in with String (ascii_of_nat n)."""
    parts = []
    cur = ''
    for ch in s:
        o = ord(ch)
        if o > 127:
            raise ValueError('non-ASCII text in a Coq case: %r' % s)
        if 32 <= o < 127:
            cur += '""' if ch == '"' else ch
        else:
            if cur:
                parts.append('"%s"' % cur)
                cur = ''
            parts.append('(chr %d)' % o)
    if cur or not parts:
        parts.append('"%s"' % cur)
    if len(parts) == 1:
        return parts[0]
    return '(sconcat [' + '; '.join(parts) + '])'


def coq_z(n):
    return '(%d)' % n if n < 0 else str(n)


def coq_bool(b):
    return 'true' if b else 'false'


def coq_list(items):
    return '[' + '; '.join(items) + ']'


def coq_float(x):
    import math
    if math.isnan(x):
        return 'nan'
    if math.isinf(x):
        return 'infinity' if x > 0 else 'neg_infinity'
    return '(%s)%%float' % float(x).hex()


def coq_opt(x, f):
    return 'None' if x is None else '(Some %s)' % f(x)


CASES_HEADER = '''From Coq Require Import ZArith String Ascii List Bool PrimFloat.
From Bardolph Require Import Run.Show.
%s
Open Scope string_scope.
Open Scope list_scope.
Import ListNotations.
Open Scope Z_scope.
Set Printing Width 10000000.
Set Printing Depth 10000000.
'''


def parse_eval_strings(out):
    """All strings printed by `Eval vm_compute in (... : string)`, in order.  The printed
    form is  = "...." : string  with embedded quotes doubled; line breaks never occur
    because every show function escapes them."""
    res = []
    for m in re.finditer(r'(?s)=\s*"((?:[^"]|"")*)"\s*:\s*string', out):
        res.append(m.group(1).replace('""', '"'))
    return res


def run_cases(tag, imports, files, timeout=600):
    """files: list of Coq text bodies (after the header).  Each body must consist of
    `Eval vm_compute in (<string expr>).` commands.  Returns list of (ok, [strings], log)."""
    cdir = os.path.join(COQ, 'cases')
    os.makedirs(cdir, exist_ok=True)
    names = []
    for i, body in enumerate(files):
        name = '%s_%d_%d' % (tag, os.getpid(), i)
        with open(os.path.join(cdir, name + '.v'), 'w') as f:
            f.write(CASES_HEADER % imports + body)
        names.append(name)
    results = [None] * len(names)
    idx = 0
    running = []
    while idx < len(names) or running:
        while idx < len(names) and len(running) < NCPU:
            n = names[idx]
            # output goes to a file: a pipe would fill up (64 KB) and stall coqc
            outf = open(os.path.join(cdir, n + '.out'), 'w')
            p = subprocess.Popen('ulimit -s 4000000 2>/dev/null; exec timeout %d coqc -q -w -all -Q %s Bardolph %s.v' % (timeout, COQ, n),
                                 shell=True, cwd=cdir, stdout=outf, stderr=subprocess.STDOUT)
            running.append((idx, p, outf))
            idx += 1
        still = []
        for (i, p, outf) in running:
            if p.poll() is None:
                still.append((i, p, outf))
            else:
                outf.close()
                out = open(os.path.join(cdir, names[i] + '.out'), errors='replace').read()
                results[i] = (p.returncode == 0, parse_eval_strings(out), out)
        running = still
        if running:
            time.sleep(0.02)
    for n in names:
        for ext in ('.v', '.vo', '.glob', '.vok', '.vos', '.out'):
            try:
                os.remove(os.path.join(cdir, n + ext))
            except OSError:
                pass
        try:
            os.remove(os.path.join(cdir, '.' + n + '.aux'))
        except OSError:
            pass
    return results


# ---------------------------------------------------------------------------
# known findings

def load_known_findings():
    path = os.path.join(VERIF, 'KNOWN_FINDINGS.txt')
    findings = []
    if os.path.exists(path):
        for line in open(path):
            line = line.strip()
            m = re.match(r'^finding:\s+property=(\S+)\s+sig=(\S+)\s+(.*)$', line)
            if m:
                findings.append({'property': m.group(1), 'sig': m.group(2), 'what': m.group(3)})
    return findings


# ---------------------------------------------------------------------------
# the context handed to a property module

class Ctx:
    def __init__(self, prop, tier, seed):
        self.prop = prop
        self.tier = tier
        self.seed = seed
        self.rng = random.Random(seed * 1000003 + int(hashlib.sha1(prop.encode()).hexdigest()[:8], 16))
        self.t0 = time.time()
        self.counterexamples = []     # dict(sig, what, replay)
        self.broken = []              # dict(kind, name, detail)
        self.evaluations = 0
        self.nontrivial = set()
        self.samples = []
        self.extra = {}
        self.assumptions = []
        self.trusted = []
        self.rule = ''
        self.proof = None
        self.exhaustive = False
        self.notes = []

    def thorough(self):
        return self.tier == 'thorough'

    def stage(self, name):
        now = time.time()
        self.extra.setdefault('stage_s', []).append([name, round(now - getattr(self, '_stage_t', self.t0), 2)])
        self._stage_t = now
        if os.environ.get('VERIF_PROFILE'):
            print('stage', self.extra['stage_s'][-1], flush=True)

    def count(self, n=1):
        self.evaluations += n

    def nontriv(self, key):
        self.nontrivial.add(key if isinstance(key, (str, int, tuple)) else json.dumps(key, sort_keys=True, default=str))

    def sample(self, s, limit=6):
        if len(self.samples) < limit:
            self.samples.append(s)

    def counterexample(self, sig, what, replay):
        """A concrete input on which the property fails on the implementation."""
        for c in self.counterexamples:
            if c['sig'] == sig:
                return
        self.counterexamples.append({'sig': sig, 'what': what, 'replay': replay})

    def broken_tie(self, kind, name, detail):
        """A proof obligation or a model/implementation correspondence that no longer checks."""
        self.broken.append({'kind': kind, 'name': name, 'detail': detail if isinstance(detail, str) else json.dumps(detail, default=str)[:4000]})


def write_replay(prop, name, payload):
    d = os.path.join(VERIF, 'replays')
    os.makedirs(d, exist_ok=True)
    path = os.path.join(d, '%s_%s.json' % (prop, re.sub(r'[^A-Za-z0-9_.-]', '_', name)[:80]))
    with open(path, 'w') as f:
        json.dump(payload, f, indent=1, default=str)
    return path


def finish(ctx):
    """Decide, print, write evidence, return exit status."""
    known = [k for k in load_known_findings() if k['property'] == ctx.prop]
    known_sigs = {k['sig']: k for k in known}
    violations = 0
    lines = []
    reported_known = set()
    for c in ctx.counterexamples:
        if c['sig'] in known_sigs:
            if c['sig'] not in reported_known:
                lines.append('KNOWN-FINDING: property=%s %s' % (ctx.prop, known_sigs[c['sig']]['what']))
                reported_known.add(c['sig'])
            continue
        path = write_replay(ctx.prop, c['sig'], {'property': ctx.prop, 'kind': 'counterexample', 'sig': c['sig'],
                                               'what': c['what'], 'input': c['replay'], 'seed': ctx.seed})
        lines.append('VIOLATION property=%s replay=%s' % (ctx.prop, path))
        violations += 1
    if ctx.broken and not any(c['sig'] not in known_sigs for c in ctx.counterexamples):
        # the tie is broken and the search exhibited no (new) failing input
        unexplained = ctx.broken
        if ctx.counterexamples and all(b.get('explained_by_known') for b in ctx.broken):
            unexplained = []
        for b in unexplained[:3]:
            path = write_replay(ctx.prop, 'broken_' + b['name'], {'property': ctx.prop, 'kind': 'broken-' + b['kind'],
                                                                   'name': b['name'], 'detail': b['detail'], 'seed': ctx.seed})
            lines.append('VIOLATION property=%s replay=%s no-failing-input-found' % (ctx.prop, path))
            violations += 1
    # a listed finding that did not show up is reported as such (informational)
    for k in known:
        if k['sig'] not in reported_known and k['sig'] in ctx.extra.get('expected_known', []):
            lines.append('NOTE: listed finding %s did not reproduce' % k['sig'])
    for l in lines:
        print(l)
    proof = ctx.proof or {'ok': False, 'theorems': [], 'stated': []}
    obligations = len(proof.get('stated', []))
    discharged = len([t for t in proof.get('theorems', []) if t['axioms'] is not None]) if proof.get('ok') else 0
    axioms = sorted({a for t in proof.get('theorems', []) for a in (t['axioms'] or [])})
    cov = {
        'obligations': obligations,
        'discharged': discharged,
        'checker_cmd': 'make -C coq Props/%s.vo (coqc 8.16.1, full .vo build) + coqc Props/%s.v with Print Assumptions' % (ctx.prop, ctx.prop),
        'trusted_base': ['Coq 8.16.1 kernel + vm_compute', 'tools/py2coq.py (translator)', 'harness correspondence runs (differential testing)']
                        + ['axiom: ' + a for a in axioms] + ctx.trusted,
        'theorems': [{'name': t['name'], 'axioms': t['axioms']} for t in proof.get('theorems', [])],
        'evaluations': ctx.evaluations,
        'distinct_nontrivial': len(ctx.nontrivial),
        'rule': ctx.rule,
        'samples': ctx.samples or ['(none)'],
        'exhaustive': ctx.exhaustive,
        'broken_ties': ctx.broken,
        'known_findings_reported': sorted(reported_known),
    }
    if discharged == 0:
        # the proof did not check: the level's own keys do not apply (schema: discharged >= 1);
        # the exploration-style counts stand in, and the broken obligation is listed
        cov['obligations_stated'] = cov.pop('obligations')
        cov['discharged_count'] = cov.pop('discharged')
    cov.update(ctx.extra)
    ev = {
        'property_id': ctx.prop,
        'tier': ctx.tier,
        'seed': ctx.seed,
        'level': 'proof',
        'coverage': cov,
        'assumptions': ctx.assumptions,
        'wall_s': round(time.time() - ctx.t0, 2),
        'violations': violations,
    }
    os.makedirs(os.path.join(VERIF, 'evidence'), exist_ok=True)
    with open(os.path.join(VERIF, 'evidence', ctx.prop + '.json'), 'w') as f:
        json.dump(ev, f, indent=1, default=str)
    print('%s: tier=%s obligations=%d discharged=%d evaluations=%d nontrivial=%d broken=%d violations=%d wall=%.1fs'
          % (ctx.prop, ctx.tier, obligations, discharged, ctx.evaluations, len(ctx.nontrivial), len(ctx.broken), violations, ev['wall_s']))
    return 1 if violations else 0


def models_built(targets):
    """True when the model files the cases need exist as .vo (they are built with -k,
    so a broken Gen file leaves exactly the dependent models unbuilt)."""
    if not targets:
        return True
    build(targets)
    return all(os.path.exists(os.path.join(COQ, t)) for t in targets)
