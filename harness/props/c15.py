"""C15 -- zone and row/column addressing hits exactly the addressed cells, once each.

Every generated script is run through the REAL pipeline (Parser + Machine) on two kinds of
population: the repository's fakes (fake_light_api: MATRIX h x w, MULTI_ZONE n, plain) and the
production wrappers lifx_lan_light.MatrixLight / MultizoneLight / Light over recording `impl`
objects (simulated network, DESIGN 5.4).  Observed: the colour, zone-range and tile messages
that arrive at the devices, per light, in order.

  O   oracle: Run/C15Spec.v (Lang/MatrixSpec.v evaluated in Coq) says which colour identifier
      every transmitted cell / zone message carries; the identifier is resolved to what a plain
      `set` on a plain light transmits for the same registers in the same unit mode, observed
      on the real pipeline with a companion script (relational oracle).  Difference =>
      counterexample, classified by a fixed classifier (signatures below).
  T   correspondence: Run/C15Model.v (Lang/Matrix.v, the command-level machine over the
      templates of DESIGN Appendix A) returns every event with its cells as symbolic terms
      (which colour, in which order clamped/rounded and converted); the harness evaluates the
      terms with Python's round and the units functions and compares with the observation,
      including the scripts outside the domain of the theorems (out-of-range, negative,
      reversed ranges: abort / wrap / nothing).

Signatures: C15/cell-rounded-before-conversion (D25), C15/float-index-aborts-script (D37),
C15/script-aborted, C15/matrix-not-sent-exactly-once, C15/zone-message-count, C15/zone-range,
C15/zone-colour, C15/matrix-size, C15/wrong-cells, C15/plain-set-differs, C15/rejected.
"""
import collections
import json
import logging
import math

import common
from common import coq_z, coq_bool, coq_list

MODEL_TARGETS = ['Run/C15Model.vo']
EXTRA_TARGETS = ['Run/C15Spec.vo', 'Run/C15Model.vo']

MODES = ('logical', 'raw', 'rgb')
REG_NAMES = {'logical': ('hue', 'saturation', 'brightness', 'kelvin'),
             'raw': ('hue', 'saturation', 'brightness', 'kelvin'),
             'rgb': ('red', 'green', 'blue', 'kelvin')}
COQ_MODE = {'logical': 'Logical', 'raw': 'Raw', 'rgb': 'Rgb'}


# ---------------------------------------------------------------------------
# rendering to Coq

def coq_num(v):
    if isinstance(v, bool):
        v = int(v)
    if isinstance(v, int):
        return '(NInt %s)' % coq_z(v)
    n, d = float(v).as_integer_ratio()
    return '(NFlt %s %d%%positive)' % (coq_z(n), d)


def coq_clause(cl):
    if cl is None:
        return 'None'
    a, b = cl
    return '(Some (mkClause %s %s))' % (coq_num(a), 'None' if b is None else '(Some %s)' % coq_num(b))


def coq_stage(s):
    return '(mkStage %s %s %s %s)' % (coq_clause(s['rows']), coq_clause(s['cols']), coq_bool(s['cols_first']), coq_z(s['cid']))


def coq_stmt(st):
    k = st[0]
    if k == 'units':
        return 'SUnits %s' % COQ_MODE[st[1]]
    if k == 'default':
        return 'SDefault %s' % coq_z(st[1])
    if k == 'plain':
        return 'SPlain %s %s' % (coq_z(st[1]), coq_z(st[2]))
    if k == 'zone':
        return 'SZone %s %s %s %s' % (coq_z(st[1]), coq_z(st[2]), coq_num(st[3]),
                                      'None' if st[4] is None else '(Some %s)' % coq_num(st[4]))
    if k == 'inline':
        return 'SInline %s %s %s %s' % (coq_z(st[1]), coq_z(st[2]), coq_z(st[3]), coq_stage(st[4]))
    if k == 'block':
        return 'SBlock %s %s %s %s' % (coq_z(st[1]), coq_z(st[2]), coq_z(st[3]), coq_list([coq_stage(s) for s in st[4]]))
    raise ValueError(k)


def coq_prog(stmts):
    return coq_list([coq_stmt(s) for s in stmts])


def chunks(l, n):
    return [l[i:i + n] for i in range(0, len(l), n)]


def est_output(stmts):
    """Upper estimate of the bytes one script's result occupies in coqc's output."""
    n = 60
    for st in stmts:
        if st[0] in ('inline', 'block'):
            n += 40 + st[2] * st[3] * 9
        else:
            n += 40
    return n


def pack(progs, limit=30000):
    """Shard so that one coqc process prints well under the 64 KB a pipe holds
    (common.run_cases reads the output only after the process has ended)."""
    parts, cur, size = [], [], 0
    for p in progs:
        e = est_output(p)
        if cur and (size + e > limit or len(cur) >= 200):
            parts.append(cur)
            cur, size = [], 0
        cur.append(p)
        size += e
    if cur:
        parts.append(cur)
    return parts


def eval_scripts(tag, imports, fn, progs):
    """Evaluate `fn prog` in Coq for every script (one Eval per script: long list literals
    overflow Coq's stack), sharded; one result string per script."""
    parts = pack(progs)
    files = [''.join('Eval vm_compute in (%s %s).\n' % (fn, coq_prog(p)) for p in part) for part in parts]
    res = common.run_cases(tag, imports, files, timeout=300)
    out = []
    for (ok, strs, log), part in zip(res, parts):
        if not ok or len(strs) != len(part):
            raise RuntimeError('coq evaluation of %s failed (%d results for %d scripts): %s' % (fn, len(strs), len(part), log[-1500:]))
        out.extend(strs)
    return out


def parse_events(text, cell):
    """'S,l,x|Z,l,a,b,x|M,l,h,w,c c c |' -> {tag: [event, ...]} in order (also the flat list)."""
    evs = []
    for item in text.split('|'):
        if not item:
            continue
        f = item.split(',')
        if f[0] == 'S':
            evs.append((int(f[1]), ('S', cell(f[2]))))
        elif f[0] == 'Z':
            evs.append((int(f[1]), ('Z', int(f[2]), int(f[3]), cell(f[4]))))
        elif f[0] == 'M':
            evs.append((int(f[1]), ('M', int(f[2]), int(f[3]), [cell(c) for c in f[4].split(' ') if c])))
        else:
            raise ValueError('event %r' % item)
    return evs


def per_light(evs):
    d = collections.OrderedDict()
    for tag, e in evs:
        d.setdefault(tag, []).append(e)
    return d


# ---------------------------------------------------------------------------
# Python's arithmetic for the symbolic terms of the model

def py_std(c):
    """ColorMatrix._standardize_raw / param_color, written out (clamp, then Python round)."""
    out = []
    for p in c:
        if p < 0:
            out.append(0)
        elif p > 65535:
            out.append(65535)
        else:
            out.append(round(p))
    return out


def conv_fn(mode):
    from bardolph.controller import units
    return {'l': units.logical_to_raw, 'g': units.rgb_to_raw}[mode]


def eval_term(t, colours):
    """'sl12' -> std(logical_to_raw(regs of colour 12)); 'N' -> None."""
    if t == 'N':
        return None
    i = 0
    ops = []
    while t[i] in 'slgx':
        if t[i] == 'x':
            raise ValueError('register conversion by `units` reached a device: %r' % t)
        ops.append(t[i])
        i += 1
    base = t[i:]
    val = [0, 0, 0, 0] if base == 'B' else list(colours[int(base)]['regs'])
    for op in reversed(ops):
        val = py_std(val) if op == 's' else list(conv_fn(op)(val))
    return val


# ---------------------------------------------------------------------------
# populations and the real pipeline

class RecordingImpl:
    """Stands for a lifxlan device object: records what the production wrapper sends."""
    def __init__(self, name, features):
        self.name = name
        self.features = features
        self.calls = []

    def get_label(self):
        return self.name

    def get_group(self):
        return 'g'

    def get_location(self):
        return 'l'

    def get_product_features(self):
        return self.features

    def get_product_name(self):
        return 'simulated'

    def get_color(self):
        self.calls.append(('get_color',))
        return [0, 0, 0, 0]

    def get_power(self):
        self.calls.append(('get_power',))
        return 0

    def set_power(self, power, duration, rapid=False):
        self.calls.append(('set_power', power, duration))

    def set_color(self, color, duration=0, rapid=False):
        self.calls.append(('set_color', list(color), duration, rapid))

    def set_zone_color(self, first, last, color, duration=0, rapid=False, apply=1):
        self.calls.append(('set_zone_color', first, last, list(color), duration))

    def get_color_zones(self, first=None, last=None):
        self.calls.append(('get_color_zones', first, last))
        return []

    def fire_and_forget(self, msg_type, payload=None, timeout_secs=None, num_repeats=None):
        p = dict(payload or {})
        if 'colors' in p:
            p['colors'] = [None if c is None else list(c) for c in p['colors']]
        self.calls.append(('fire_and_forget', msg_type.__name__, p, num_repeats))

    def req_with_resp(self, *a, **k):
        self.calls.append(('req_with_resp',))
        raise RuntimeError('unexpected request with response')


def configure_population(lights, pop):
    """lights: [{'tag','name','kind','n'|'h','w'}].  Returns a function giving, after the run,
    {tag: [event]} with events ('S', tx) / ('Z', first, last1, tx) / ('M', h, w, cells) /
    ('other', what)."""
    import tests_env
    from bardolph.controller import i_controller, light_set
    from bardolph.lib import injection
    from bardolph.fakes.fake_light_api import LightType
    from bardolph.fakes.activity_monitor import Action
    if pop == 'fake':
        specs = []
        for l in lights:
            if l['kind'] == 'plain':
                specs.append((l['name'], 'g', 'l'))
            elif l['kind'] == 'zones':
                specs.append((l['name'], 'g', 'l', LightType.MULTI_ZONE, l['n']))
            else:
                specs.append((l['name'], 'g', 'l', LightType.MATRIX, l['h'], l['w']))
        tests_env.configure(specs=tuple(specs))
        ls = injection.provide(i_controller.LightSet)

        def collect():
            out = {}
            for l in lights:
                evs = []
                for call in ls.get_light(l['name']).get_call_list():
                    if not isinstance(call, tuple):
                        evs.append(('other', str(call)))
                    elif call[0] is Action.SET_COLOR:
                        evs.append(('S', list(call[1])))
                    elif call[0] is Action.SET_ZONE_COLOR:
                        evs.append(('Z', call[1], call[2], list(call[3])))
                    elif call[0] is Action.SET_MATRIX:
                        m = call[1]
                        evs.append(('M', m.height, m.width, m.get_colors()))
                    else:
                        evs.append(('other', str(call[0])))
                out[l['tag']] = evs
            return out
        return collect
    # production wrappers over recording device objects
    from bardolph.controller import lifx_lan_light
    tests_env.configure(specs=())
    impls = {}
    wrappers = []
    for l in lights:
        if l['kind'] == 'plain':
            impl = RecordingImpl(l['name'], {'color': True})
            wrappers.append(lifx_lan_light.Light(impl))
        elif l['kind'] == 'zones':
            impl = RecordingImpl(l['name'], {'multizone': True})
            wrappers.append(lifx_lan_light.MultizoneLight(impl, l['n']))
        else:
            impl = RecordingImpl(l['name'], {'matrix': True})
            wrappers.append(lifx_lan_light.MatrixLight(impl, l['h'], l['w']))
        impls[l['tag']] = impl

    class Api(i_controller.LightApi):
        def get_lights(self):
            return wrappers

        def set_color_all_lights(self, color, duration):
            pass

        def set_power_all_lights(self, power_level, duration):
            pass

    injection.bind_instance(Api()).to(i_controller.LightApi)
    light_set.configure()

    def collect():
        out = {}
        for l in lights:
            evs = []
            for call in impls[l['tag']].calls:
                if call[0] == 'set_color':
                    evs.append(('S', call[1]))
                elif call[0] == 'set_zone_color':
                    evs.append(('Z', call[1], call[2], call[3]))
                elif call[0] == 'fire_and_forget' and call[1] == 'SetTileState64':
                    p = call[2]
                    fixed = (p.get('tile_index'), p.get('length'), p.get('x'), p.get('y'), p.get('reserved'), call[3])
                    if fixed != (0, 1, 0, 0, 0, 1):
                        evs.append(('other', 'tile message fields %r' % (fixed,)))
                    evs.append(('M', p.get('height'), p.get('width'), p.get('colors')))
                else:
                    evs.append(('other', call[0]))
            out[l['tag']] = evs
        return out
    return collect


class _Collector(logging.Handler):
    def __init__(self):
        super().__init__(logging.ERROR)
        self.messages = []

    def emit(self, record):
        try:
            self.messages.append(record.getMessage())
        except Exception:
            self.messages.append(str(record.msg))


def run_real(lights, source, pop):
    """Parser + Machine on the population.  Returns dict(parse_ok, aborted, events{tag: [...]})."""
    from bardolph.parser.parse import Parser
    from bardolph.vm.machine import Machine
    collect = configure_population(lights, pop)
    parser = Parser()
    try:
        ok = parser.parse(source)
    except Exception as ex:
        return {'parse_ok': False, 'error': 'parser raised %s: %s' % (type(ex).__name__, ex), 'aborted': True, 'events': {}}
    if not ok:
        return {'parse_ok': False, 'error': str(parser.get_errors()), 'aborted': True, 'events': {}}
    machine = Machine()
    escaped = None
    # Machine.run logs the exception that stops a script; collect that message
    root = logging.getLogger()
    saved = (root.handlers[:], root.level)
    collector = _Collector()
    root.handlers = [collector]
    root.setLevel(logging.ERROR)
    logging.disable(logging.NOTSET)
    try:
        machine.run(parser.get_program())
    except Exception as ex:   # anything escaping Machine.run is noted
        escaped = '%s: %s' % (type(ex).__name__, ex)
    finally:
        root.handlers, lvl = saved
        root.setLevel(lvl)
        logging.disable(logging.CRITICAL)
    reasons = [m for m in collector.messages if m.startswith('Machine stopped due to')]
    aborted = escaped is not None or machine._reg.pc < len(machine._program) or bool(reasons)
    return {'parse_ok': True, 'aborted': aborted, 'escaped': escaped, 'events': collect(),
            'reason': (reasons[0] if reasons else escaped), 'pc': machine._reg.pc, 'len': len(machine._program)}


def num_lit(v):
    if isinstance(v, int):
        return str(v)
    r = repr(float(v))
    if 'e' in r or 'inf' in r or 'nan' in r:
        raise ValueError('unprintable number %r' % v)
    return r


def companion_source(colours):
    """One plain `set "P"` per colour identifier, in its unit mode, with all four registers."""
    lines = []
    mode = 'logical'
    for cid in sorted(colours):
        c = colours[cid]
        if c['mode'] != mode:
            mode = c['mode']
            lines.append('units %s' % mode)
        lines.append(' '.join('%s %s' % (n, num_lit(v)) for n, v in zip(REG_NAMES[mode], c['regs'])) + ' set "P"')
    return '\n'.join(lines) + '\n'


def plain_transmissions(colours, pop):
    """colour id -> what a plain `set` transmits for those registers (real pipeline)."""
    if not colours:
        return {}
    res = run_real([{'tag': 0, 'name': 'P', 'kind': 'plain'}], companion_source(colours), pop)
    evs = res['events'].get(0, [])
    ids = sorted(colours)
    if not res['parse_ok'] or res['aborted'] or len(evs) != len(ids) or any(e[0] != 'S' for e in evs):
        raise RuntimeError('companion script did not run: %r' % (res,))
    return {cid: e[1] for cid, e in zip(ids, evs)}


# ---------------------------------------------------------------------------
# generator

FRACTIONS = (0.5, 0.25, 0.75, 0.125, 0.1, 0.9)


class Gen:
    def __init__(self, rng, pop, edge=False, allow_float=True):
        self.rng = rng
        self.pop = pop
        self.edge = edge
        self.allow_float = allow_float
        self.lines = []
        self.stmts = []
        self.colours = {}
        self.feat = collections.Counter()
        self.mode = 'logical'
        self.cur = None
        self.cid = None
        self.nvar = 0
        self.edge_done = False
        self.lights = [{'tag': 0, 'name': 'P', 'kind': 'plain'}]
        n = rng.choice([1, 2, 3, 5, 8, 16, 16, 32, 82, rng.randint(1, 82)])
        self.strip = {'tag': 1, 'name': 'Strip', 'kind': 'zones', 'n': n}
        self.lights.append(self.strip)
        self.mats = []
        for i, nm in enumerate(['Candle', 'Tube'][:rng.choice([1, 1, 2])]):
            if rng.random() < 0.25:
                # the Candle, a Tube, and lights of more than 64 cells (one message still carries the whole matrix)
                h, w = rng.choice([(6, 5), (11, 5), (16, 8), (5, 13), (9, 8), (8, 9)])
            else:
                h, w = rng.randint(1, 8), rng.randint(1, 8)
            m = {'tag': 2 + i, 'name': nm, 'kind': 'matrix', 'h': h, 'w': w}
            self.mats.append(m)
            self.lights.append(m)

    # ---- colours
    def component(self, idx):
        r = self.rng
        if idx == 3:
            if self.mode == 'raw':
                return r.choice([2700, 3500, r.randint(1500, 9000), 0])
            return r.choice([2700, 3500, r.randint(1500, 9000), 2700.5, 4000.25])
        if self.mode == 'raw':
            return r.choice([0, 65535, r.randint(0, 65535), r.randint(0, 65535), r.randint(0, 2000), 70000,
                             r.randint(0, 65534) + 0.5])
        if self.mode == 'rgb':
            return r.choice([0, 100, r.randint(0, 100), r.randint(0, 99) + r.choice(FRACTIONS), 12.5, 37.5])
        if idx == 0:
            return r.choice([0, 360, r.randint(0, 360), r.randint(0, 359) + r.choice(FRACTIONS), 120.5,
                             r.choice([-10, -0.5, 400, 365.5])])
        return r.choice([0, 100, r.randint(0, 100), r.randint(0, 99) + r.choice(FRACTIONS), 12.5, 37.5, 99.9])

    def set_colour(self, full=False, out=None):
        r = self.rng
        full = full or self.cur is None
        if full:
            idxs = [0, 1, 2, 3]
            if self.cur is None:
                self.cur = [0, 0, 0, 0]
        else:
            idxs = sorted(r.sample([0, 1, 2, 3], r.choice([1, 1, 2, 3])))
        # all four components zero: a staged black is black, not "nothing staged" (whatever default was saved)
        black = r.random() < 0.07
        if black:
            idxs = [0, 1, 2, 3]
            self.feat['colour:all-zero'] += 1
        parts = []
        for i in idxs:
            v = 0 if black else self.component(i)
            self.cur[i] = v
            parts.append('%s %s' % (REG_NAMES[self.mode][i], num_lit(v)))
        self.cid = None
        (self.lines if out is None else out).append(' '.join(parts))

    def cur_cid(self):
        if self.cid is None:
            self.cid = len(self.colours)
            self.colours[self.cid] = {'mode': self.mode, 'regs': list(self.cur)}
        return self.cid

    def switch_units(self, mode=None):
        mode = mode or self.rng.choice([m for m in MODES if m != self.mode])
        self.mode = mode
        self.lines.append('units %s' % mode)
        self.stmts.append(('units', mode))
        self.set_colour(full=True)

    # ---- values and their source forms
    def fresh(self, prefix):
        self.nvar += 1
        return '%s%d' % (prefix, self.nvar)

    def value_src(self, v, prelude):
        """Source text that evaluates to exactly the Python value v (int or float)."""
        r = self.rng
        if isinstance(v, float):
            forms = ['fexpr', 'fexpr', 'fvar', 'flit']
            form = r.choice(forms)
            n, d = v.as_integer_ratio()
            if form == 'flit' and v >= 0:
                self.feat['form:float-literal'] += 1
                return num_lit(v)
            if form == 'fvar':
                name = self.fresh('f')
                prelude.append('assign %s %s' % (name, num_lit(v)))
                self.feat['form:float-variable'] += 1
                return name
            # n / d with d a power of two: exact in Python
            if d == 1:
                k = r.choice([2, 4])
                n, d = n * k, k
            self.feat['form:float-expression'] += 1
            if n < 0:
                return '{0 - %d / %d}' % (-n, d)
            return '{%d / %d}' % (n, d)
        forms = ['lit', 'lit', 'var', 'macro', 'expr', 'expr']
        if v < 0:
            forms = ['var', 'expr']
        form = r.choice(forms)
        if form == 'lit':
            self.feat['form:literal'] += 1
            return str(v)
        if form == 'var':
            name = self.fresh('v')
            prelude.append('assign %s %d' % (name, v))
            self.feat['form:variable'] += 1
            return name
        if form == 'macro':
            name = self.fresh('m')
            prelude.append('define %s %d' % (name, v))
            self.feat['form:macro'] += 1
            return name
        self.feat['form:expression'] += 1
        kind = r.choice(['add', 'sub', 'mul', 'varadd'])
        if kind == 'add':
            a = r.randint(0, 3)
            return '{%d + %d}' % (v - a, a) if v - a >= 0 else '{0 - %d + %d}' % (a - v, a)
        if kind == 'sub':
            a = r.randint(0, 3)
            return '{%d - %d}' % (v + a, a) if v + a >= 0 else '{0 - %d - %d}' % (-(v + a), a)
        if kind == 'mul' and v >= 0:
            for k in (3, 2):
                if v % k == 0 and v > 0:
                    return '{%d * %d}' % (v // k, k)
            return '{%d * 1}' % v
        name = self.fresh('v')
        a = r.randint(0, 4)
        prelude.append('assign %s %d' % (name, a))
        return '{%s + %d}' % (name, v - a) if v - a >= 0 else '{%s - %d}' % (name, a - v)

    def floatify(self, v):
        """Possibly replace an int by a float that denotes it (round(x) == v)."""
        if not self.allow_float or self.rng.random() > 0.12:
            return v
        k = self.rng.choice(['int', 'int', 'near', 'tie'])
        if k == 'tie' and v % 2 != 0:
            k = 'near'      # only an even number is denoted by a tie (round half to even)
        if k == 'int':
            x = float(v)
        elif k == 'near':
            x = v + self.rng.choice([0.25, -0.25, 0.125])
        else:
            x = v + self.rng.choice([0.5, -0.5])
        assert round(x) == v
        self.feat['float-index:' + k] += 1
        return x

    def clause(self, extent, prelude, allow_none=True, no_tie=False):
        """-> (clause or None, source words).  Values inside [0, extent) or an empty range."""
        r = self.rng
        k = r.choice(['none', 'one', 'one', 'range', 'range', 'full', 'reversed'] if allow_none
                     else ['one', 'one', 'range', 'range', 'full', 'reversed'])
        if k == 'reversed' and (extent < 2 or r.random() < 0.6):
            k = 'range'
        if k == 'none':
            self.feat['clause:omitted'] += 1
            return None, ''
        if k == 'one':
            a = r.randrange(extent)
            b = None
        elif k == 'range':
            a = r.randrange(extent)
            b = r.randrange(a, extent)
        elif k == 'full':
            a, b = 0, extent - 1
        else:
            b = r.randrange(extent - 1)
            a = r.randrange(b + 1, extent)
        self.feat['clause:' + k] += 1
        fa = self.floatify(a)
        fb = None if b is None else self.floatify(b)
        if no_tie:
            if isinstance(fa, float) and abs(fa - a) == 0.5:
                fa = a
            if isinstance(fb, float) and abs(fb - b) == 0.5:
                fb = b
        src = self.value_src(fa, prelude)
        if fb is not None:
            src += ' ' + self.value_src(fb, prelude)
        return [fa, fb], src

    def edge_clause(self, extent, prelude):
        """A clause outside the documented domain: negative, beyond the extent, straddling 0."""
        r = self.rng
        k = r.choice(['neg-one', 'neg-range', 'straddle', 'high', 'high-range', 'too-negative', 'reversed-outside'])
        if k == 'neg-one':
            a, b = -r.randint(1, extent), None
        elif k == 'neg-range':
            a = -r.randint(1, extent)
            b = r.randint(a, -1)
        elif k == 'straddle':
            a, b = -r.randint(1, extent), r.randrange(extent)
        elif k == 'high':
            a, b = extent + r.randint(0, 2), None
        elif k == 'high-range':
            a = r.randrange(extent)
            b = extent + r.randint(0, 2)
        elif k == 'too-negative':
            a, b = -extent - r.randint(1, 2), r.choice([None, 0])
        else:
            a, b = extent + r.randint(1, 3), r.randint(-extent - 3, extent - 1)
        self.feat['edge:' + k] += 1
        src = self.value_src(a, prelude)
        if b is not None:
            src += ' ' + self.value_src(b, prelude)
        return [a, b], src

    def stage_clauses(self, mat, prelude, need_one):
        """-> (rows, cols, cols_first, source words)"""
        r = self.rng
        h, w = mat['h'], mat['w']
        while True:
            rows, rsrc = self.clause(h, prelude)
            cols, csrc = self.clause(w, prelude)
            if self.edge and not self.edge_done and r.random() < 0.7:
                if r.random() < 0.5:
                    rows, rsrc = self.edge_clause(h, prelude)
                else:
                    cols, csrc = self.edge_clause(w, prelude)
                self.edge_done = True
            if not need_one or rows is not None or cols is not None:
                break
        cols_first = r.random() < 0.4
        words = []
        pair = [('column', cols, csrc), ('row', rows, rsrc)] if cols_first else [('row', rows, rsrc), ('column', cols, csrc)]
        for kw, cl, src in pair:
            if cl is not None:
                words.append('%s %s' % (kw, src))
        if rows is not None and cols is not None:
            self.feat['order:' + ('column-row' if cols_first else 'row-column')] += 1
        return rows, cols, cols_first, ' '.join(words)

    # ---- loops
    def loop_values(self, interp, n, a, b):
        if not interp:
            step = 1 if b >= a else -1
            return list(range(a, b + step, step))
        incr = (b - a) / (n - 1) if n != 1 else 0
        vals = []
        v = a
        for _ in range(n):
            vals.append(v)
            v = v + incr
        return vals

    def loop_header(self, var, limit):
        """Loop over values inside [0, limit).  -> (header source, values)"""
        r = self.rng
        a = r.randrange(limit)
        b = r.randrange(limit)
        if limit <= 12 and r.random() < 0.3:
            a, b = 0, limit - 1
        interp = self.allow_float and r.random() < 0.25
        if interp:
            n = r.randint(1, abs(b - a) + 2)
            vals = self.loop_values(True, n, a, b)
            self.feat['loop:interpolating'] += 1
            if any(isinstance(v, float) for v in vals):
                self.feat['loop:float-index'] += 1
            return 'repeat %d with %s from %d to %d' % (n, var, a, b), vals
        self.feat['loop:counted' + ('-down' if b < a else '')] += 1
        return 'repeat with %s from %d to %d' % (var, a, b), self.loop_values(False, 0, a, b)

    def loop_colour(self, var):
        """Optional colour statement inside a loop body that depends on the loop variable."""
        r = self.rng
        if r.random() < 0.5:
            return None
        if self.mode == 'raw':
            base, k = r.randint(0, 20000), r.randint(1, 3000)
        elif self.mode == 'rgb':
            base, k = r.randint(0, 40), r.randint(1, 6)
        else:
            base, k = r.randint(0, 100), r.randint(1, 30)
        idx = 0
        self.feat['loop:colour-from-index'] += 1
        return idx, (lambda v: base + v * k), '%s {%d + %s * %d}' % (REG_NAMES[self.mode][idx], base, var, k)

    # ---- statements
    def stmt_default(self):
        self.set_colour(full=self.rng.random() < 0.5)
        self.lines.append('set default')
        self.stmts.append(('default', self.cur_cid()))
        self.feat['stmt:set-default'] += 1

    def stmt_plain(self):
        if self.rng.random() < 0.5:
            self.set_colour()
        self.lines.append('set "P"')
        self.stmts.append(('plain', 0, self.cur_cid()))
        self.feat['stmt:plain-set'] += 1

    def zone_values(self, prelude):
        r = self.rng
        n = self.strip['n'] if self.pop == 'fake' else r.choice([self.strip['n'], 255, 300])
        if self.edge and not self.edge_done and r.random() < 0.5:
            self.edge_done = True
            k = r.choice(['negative', 'tie', 'tie-one', 'big'] if self.pop != 'fake' else ['negative', 'tie', 'tie-one'])
            self.feat['edge:zone-' + k] += 1
            if k == 'negative':
                a, b = -r.randint(1, 5), r.randrange(self.strip['n'])
            elif k == 'tie':
                a = r.randrange(max(1, n - 1))
                b = r.randrange(a, max(a + 1, n - 1)) + 0.5
            elif k == 'tie-one':
                a, b = r.randrange(max(1, n - 1)) + 0.5, None
            else:
                a, b = 65530 + r.randint(0, 10), 65534 + r.randint(0, 10)
            src = self.value_src(a, prelude) + ('' if b is None else ' ' + self.value_src(b, prelude))
            return a, b, src
        cl, src = self.clause(n, prelude, allow_none=False, no_tie=True)
        return cl[0], cl[1], src

    def stmt_zone(self):
        r = self.rng
        if r.random() < 0.7:
            self.set_colour()
        prelude = []
        form = r.choice(['simple', 'simple', 'simple', 'and-plain', 'and-zone', 'loop', 'routine', 'name-var'])
        if form == 'loop':
            n = self.strip['n']
            hdr, vals = self.loop_header('z', n)
            lc = self.loop_colour('z')
            two = r.random() < 0.4 and n >= 2
            if two:
                vals_ok = all(round(v) + 1 < n for v in vals)
                two = vals_ok
            # a float end that is exactly half way is outside the covered domain: avoid it here
            # (also a value like 14.500000000000002 -- the sum an interpolating loop arrives at -- whose successor 15.5.. + 1
            # rounds to a tie: what is sent is round(b + 1), what is denoted round(b) + 1)
            def off_domain(v):
                ends = [v] + ([v + 1] if two else [])
                return isinstance(v, float) and (abs(v - round(v)) == 0.5 or any(round(b + 1) != round(b) + 1 for b in ends))
            if any(off_domain(v) for v in vals):
                hdr, vals = 'repeat with z from 0 to %d' % (n - 1 - (1 if two else 0)), list(range(0, n - (1 if two else 0)))
            body = []
            if lc:
                body.append(lc[2])
            body.append('set "Strip" zone z' + (' {z + 1}' if two else ''))
            self.lines.append('%s begin %s end' % (hdr, ' '.join(body)))
            for v in vals:
                if lc:
                    self.cur[lc[0]] = lc[1](v)
                    self.cid = None
                self.stmts.append(('zone', 1, self.cur_cid(), v, (v + 1) if two else None))
            self.feat['stmt:zone-in-loop'] += 1
            return
        a, b, src = self.zone_values(prelude)
        if form == 'and-zone':
            a2, b2, src2 = self.zone_values(prelude)
            self.lines.extend(prelude)
            self.lines.append('set "Strip" zone %s and "Strip" zone %s' % (src, src2))
            self.stmts.append(('zone', 1, self.cur_cid(), a, b))
            self.stmts.append(('zone', 1, self.cur_cid(), a2, b2))
            self.feat['stmt:zone-and-zone'] += 1
            return
        self.lines.extend(prelude)
        if form == 'routine':
            name = self.fresh('zr')
            if b is None:
                self.lines.append('define %s with lt z1 begin set lt zone z1 end' % name)
            else:
                self.lines.append('define %s with lt z1 z2 begin set lt zone z1 z2 end' % name)
            self.lines.append('%s "Strip" %s' % (name, src))
            self.feat['stmt:zone-routine'] += 1
        elif form == 'name-var':
            name = self.fresh('lt')
            self.lines.append('assign %s "Strip"' % name)
            self.lines.append('set %s zone %s' % (name, src))
            self.feat['stmt:zone-name-variable'] += 1
        elif form == 'and-plain':
            self.lines.append('set "Strip" zone %s and "P"' % src)
            self.feat['stmt:zone-and-plain'] += 1
        else:
            self.lines.append('set "Strip" zone %s' % src)
            self.feat['stmt:zone'] += 1
        self.stmts.append(('zone', 1, self.cur_cid(), a, b))
        if form == 'and-plain':
            self.stmts.append(('plain', 0, self.cur_cid()))

    def stmt_inline(self):
        r = self.rng
        mat = r.choice(self.mats)
        if r.random() < 0.8:
            self.set_colour()
        prelude = []
        form = r.choice(['simple', 'simple', 'simple', 'simple', 'loop', 'and', 'name-var', 'routine'])
        if form == 'loop':
            axis = r.choice(['row', 'column'])
            hdr, vals = self.loop_header('i', mat['h'] if axis == 'row' else mat['w'])
            lc = self.loop_colour('i')
            other, osrc = self.clause(mat['w'] if axis == 'row' else mat['h'], prelude)
            okw = 'column' if axis == 'row' else 'row'
            words = '%s i' % axis + ('' if other is None else ' %s %s' % (okw, osrc))
            self.lines.extend(prelude)
            self.lines.append('%s begin %sset "%s" %s end' % (hdr, (lc[2] + ' ') if lc else '', mat['name'], words))
            for v in vals:
                if lc:
                    self.cur[lc[0]] = lc[1](v)
                    self.cid = None
                st = {'rows': [v, None] if axis == 'row' else other, 'cols': other if axis == 'row' else [v, None],
                      'cols_first': axis == 'column', 'cid': self.cur_cid()}
                self.stmts.append(('inline', mat['tag'], mat['h'], mat['w'], st))
            self.feat['stmt:inline-in-loop'] += 1
            return
        rows, cols, cols_first, words = self.stage_clauses(mat, prelude, need_one=True)
        self.lines.extend(prelude)
        st = {'rows': rows, 'cols': cols, 'cols_first': cols_first, 'cid': self.cur_cid()}
        if form == 'and' and len(self.mats) > 1:
            other = [m for m in self.mats if m is not mat][0]
            prelude2 = []
            rows2, cols2, cf2, words2 = self.stage_clauses(other, prelude2, need_one=True)
            self.lines.extend(prelude2)
            self.lines.append('set "%s" %s and "%s" %s' % (mat['name'], words, other['name'], words2))
            self.stmts.append(('inline', mat['tag'], mat['h'], mat['w'], st))
            self.stmts.append(('inline', other['tag'], other['h'], other['w'],
                               {'rows': rows2, 'cols': cols2, 'cols_first': cf2, 'cid': self.cur_cid()}))
            self.feat['stmt:inline-and-inline'] += 1
            return
        if form == 'name-var':
            name = self.fresh('lt')
            self.lines.append('assign %s "%s"' % (name, mat['name']))
            self.lines.append('set %s %s' % (name, words))
            self.feat['stmt:inline-name-variable'] += 1
        elif form == 'routine' and rows is not None and cols is None and rows[1] is None and not cols_first:
            name = self.fresh('mr')
            self.lines.append('define %s with lt rr begin set lt row rr end' % name)
            self.lines.append('%s "%s" %s' % (name, mat['name'], words[len('row '):]))
            self.feat['stmt:inline-routine'] += 1
        else:
            self.lines.append('set "%s" %s' % (mat['name'], words))
            self.feat['stmt:inline'] += 1
        self.stmts.append(('inline', mat['tag'], mat['h'], mat['w'], st))

    def stmt_block(self):
        r = self.rng
        mat = r.choice(self.mats)
        h, w = mat['h'], mat['w']
        body = []
        stages = []
        pre_block = []
        nitems = r.choice([0, 1, 1, 2, 2, 3, 3, 4, 5, 6])
        for _ in range(nitems):
            item = r.choice(['stage'] * 8 + ['loop'] * 4 + ['nested'] + ['default'] * 2)
            if item == 'default':
                # `set default` between the stages of a block: the cells left unstaged are filled when the block ends, so this
                # is the default of this block (and of later commands); the stages after it are stages still
                if r.random() < 0.7 or self.cur is None:
                    self.set_colour(out=body)
                body.append('set default')
                self.stmts.append(('default', self.cur_cid()))
                self.feat['block:set-default-inside'] += 1
            elif item == 'stage':
                if r.random() < 0.8 or self.cur is None:
                    self.set_colour(out=body)
                rows, cols, cols_first, words = self.stage_clauses(mat, pre_block, need_one=r.random() < 0.93)
                body.append(('stage ' + words).strip())
                stages.append({'rows': rows, 'cols': cols, 'cols_first': cols_first, 'cid': self.cur_cid()})
                self.feat['block:stage'] += 1
            elif item == 'loop':
                if r.random() < 0.5 or self.cur is None:
                    self.set_colour(out=body)
                tmpl = r.choice(['row', 'column', 'diag', 'grow', 'mod'])
                if tmpl == 'row':
                    hdr, vals = self.loop_header('r', h)
                    other, osrc = self.clause(w, pre_block)
                    words = 'row r' + ('' if other is None else ' column ' + osrc)
                    mk = lambda v, other=other: ([v, None], other, False)
                    if other is not None and r.random() < 0.4:
                        words = 'column ' + osrc + ' row r'
                        mk = lambda v, other=other: ([v, None], other, True)
                elif tmpl == 'column':
                    hdr, vals = self.loop_header('r', w)
                    other, osrc = self.clause(h, pre_block)
                    words = 'column r' + ('' if other is None else ' row ' + osrc)
                    mk = lambda v, other=other: (other, [v, None], True)
                elif tmpl == 'diag':
                    hdr, vals = self.loop_header('r', min(h, w))
                    words = 'row r column r'
                    mk = lambda v: ([v, None], [v, None], False)
                elif tmpl == 'grow':
                    hdr, vals = self.loop_header('r', h)
                    words = 'row 0 r'
                    mk = lambda v: ([0, v], None, False)
                else:
                    hdr, vals = self.loop_header('r', h)
                    words = 'row r column {r %% %d}' % w
                    mk = lambda v, w=w: ([v, None], [v % w, None], False)
                lc = self.loop_colour('r')
                body.append('%s begin %sstage %s end' % (hdr, (lc[2] + ' ') if lc else '', words))
                for v in vals:
                    if lc:
                        self.cur[lc[0]] = lc[1](v)
                        self.cid = None
                    rows, cols, cf = mk(v)
                    stages.append({'rows': rows, 'cols': cols, 'cols_first': cf, 'cid': self.cur_cid()})
                self.feat['block:loop-' + tmpl] += 1
            else:
                if self.cur is None or r.random() < 0.5:
                    self.set_colour(out=body)
                hh, ww = min(h, 4), min(w, 4)
                lc = self.loop_colour('c')
                body.append('repeat with r from 0 to %d begin repeat with c from 0 to %d begin %sstage row r column c end end'
                            % (hh - 1, ww - 1, (lc[2] + ' ') if lc else ''))
                for rr in range(hh):
                    for cc in range(ww):
                        if lc:
                            self.cur[lc[0]] = lc[1](cc)
                            self.cid = None
                        stages.append({'rows': [rr, None], 'cols': [cc, None], 'cols_first': False, 'cid': self.cur_cid()})
                self.feat['block:nested-loops'] += 1
        self.lines.extend(pre_block)
        self.lines.append('set "%s" begin' % mat['name'])
        self.lines.extend('    ' + b for b in body)
        self.lines.append('end')
        self.stmts.append(('block', mat['tag'], h, w, stages))
        self.feat['stmt:block'] += 1
        self.feat['block-stages:%s' % (len(stages) if len(stages) < 8 else '8+')] += 1

    def script(self):
        r = self.rng
        if r.random() < 0.66:
            self.switch_units(r.choice(['raw', 'rgb']))
        else:
            self.set_colour(full=True)
        if r.random() < 0.45:
            self.stmt_default()
        for _ in range(r.randint(1, 5)):
            k = r.choice(['zone', 'zone', 'inline', 'inline', 'inline', 'block', 'block', 'block', 'default', 'plain', 'units'])
            if k == 'zone':
                self.stmt_zone()
            elif k == 'inline':
                self.stmt_inline()
            elif k == 'block':
                self.stmt_block()
            elif k == 'default':
                self.stmt_default()
            elif k == 'plain':
                self.stmt_plain()
            else:
                self.switch_units()
        return {'lights': self.lights, 'source': '\n'.join(self.lines) + '\n', 'stmts': self.stmts,
                'colours': self.colours, 'pop': self.pop, 'edge': self.edge, 'features': dict(self.feat)}


def corpus():
    """Hand-written scripts that run first: the documentation's examples and the inputs of
    DESIGN section 2 (D25) and D37."""
    out = []
    candle = [{'tag': 0, 'name': 'P', 'kind': 'plain'}, {'tag': 1, 'name': 'Strip', 'kind': 'zones', 'n': 16},
              {'tag': 2, 'name': 'Candle', 'kind': 'matrix', 'h': 6, 'w': 5}]
    def c(mode, *regs):
        return {'mode': mode, 'regs': list(regs)}
    # docs/language.rst: default + one cell
    out.append({'lights': candle, 'pop': 'fake', 'edge': False, 'features': {'corpus': 1},
                'source': 'hue 220 saturation 75 brightness 15 kelvin 2700\nset default\nhue 100 brightness 75\nset "Candle" row 1 column 3\n',
                'colours': {0: c('logical', 220, 75, 15, 2700), 1: c('logical', 100, 75, 75, 2700)},
                'stmts': [('default', 0), ('inline', 2, 6, 5, {'rows': [1, None], 'cols': [3, None], 'cols_first': False, 'cid': 1})]})
    # D25: a fractional percentage
    out.append({'lights': candle, 'pop': 'fake', 'edge': False, 'features': {'corpus': 1},
                'source': 'hue 120 saturation 12.5 brightness 50 kelvin 2700\nset "Candle" row 1\n',
                'colours': {0: c('logical', 120, 12.5, 50, 2700)},
                'stmts': [('inline', 2, 6, 5, {'rows': [1, None], 'cols': None, 'cols_first': False, 'cid': 0})]})
    # three overlapping stages and a default, block form (docs: "stage row 1 2 column 1 2 ...")
    out.append({'lights': candle, 'pop': 'prod', 'edge': False, 'features': {'corpus': 1},
                'source': ('units raw\nhue 1000 saturation 2000 brightness 3000 kelvin 2700\nset default\n'
                           'set "Candle" begin\n  hue 10000 stage row 1 2 column 1 2\n  hue 20000 stage column 2 4 row 2 4\n'
                           '  hue 30000 stage row 4\nend\n'),
                'colours': {0: c('raw', 1000, 2000, 3000, 2700), 1: c('raw', 10000, 2000, 3000, 2700),
                            2: c('raw', 20000, 2000, 3000, 2700), 3: c('raw', 30000, 2000, 3000, 2700)},
                'stmts': [('units', 'raw'), ('default', 0),
                          ('block', 2, 6, 5, [{'rows': [1, 2], 'cols': [1, 2], 'cols_first': False, 'cid': 1},
                                              {'rows': [2, 4], 'cols': [2, 4], 'cols_first': True, 'cid': 2},
                                              {'rows': [4, None], 'cols': None, 'cols_first': False, 'cid': 3}])]})
    # docs: loop index
    out.append({'lights': candle, 'pop': 'fake', 'edge': False, 'features': {'corpus': 1},
                'source': ('units raw hue 5 saturation 6 brightness 7 kelvin 8\nset "Candle" begin\n'
                           '  repeat with row_num from 0 to 5 begin stage row row_num end\nend\n'),
                'colours': {0: c('raw', 5, 6, 7, 8)},
                'stmts': [('units', 'raw'), ('block', 2, 6, 5, [{'rows': [k, None], 'cols': None, 'cols_first': False, 'cid': 0} for k in range(6)])]})
    # D37: a row number that is a float
    out.append({'lights': candle, 'pop': 'fake', 'edge': False, 'features': {'corpus': 1},
                'source': 'units raw hue 1 saturation 2 brightness 3 kelvin 4\nset "Candle" begin stage row {4 / 2} end\n',
                'colours': {0: c('raw', 1, 2, 3, 4)},
                'stmts': [('units', 'raw'), ('block', 2, 6, 5, [{'rows': [2.0, None], 'cols': None, 'cols_first': False, 'cid': 0}])]})
    # zones: docs examples
    out.append({'lights': candle, 'pop': 'prod', 'edge': False, 'features': {'corpus': 1},
                'source': 'hue 150 saturation 100 brightness 50 kelvin 2700\nset "Strip" zone 5\nset "Strip" zone 0 8\nset "Strip" zone 2 and "Strip" zone 13 15\n',
                'colours': {0: c('logical', 150, 100, 50, 2700)},
                'stmts': [('zone', 1, 0, 5, None), ('zone', 1, 0, 0, 8), ('zone', 1, 0, 2, None), ('zone', 1, 0, 13, 15)]})
    return out


# ---------------------------------------------------------------------------
# comparison

def denoted(v):
    return round(v)


def stage_rect(st, h, w):
    def rg(cl, n):
        if cl is None:
            return (0, n - 1)
        a = denoted(cl[0])
        return (a, a if cl[1] is None else denoted(cl[1]))
    return rg(st['rows'], h), rg(st['cols'], w)


def has_float_index(desc):
    for st in desc['stmts']:
        stages = [st[4]] if st[0] == 'inline' else st[4] if st[0] == 'block' else []
        for s in stages:
            for cl in (s['rows'], s['cols']):
                if cl is not None and any(isinstance(x, float) for x in cl if x is not None):
                    return True
    return False


def overlap_stats(desc, counter):
    for st in desc['stmts']:
        if st[0] != 'block':
            continue
        h, w = st[2], st[3]
        cover = collections.Counter()
        for s in st[4]:
            (r1, r2), (c1, c2) = stage_rect(s, h, w)
            for rr in range(max(r1, 0), min(r2, h - 1) + 1):
                for cc in range(max(c1, 0), min(c2, w - 1) + 1):
                    cover[(rr, cc)] += 1
        multi = sum(1 for v in cover.values() if v > 1)
        counter['overlap:none' if multi == 0 else 'overlap:1-3 cells' if multi <= 3 else 'overlap:4+ cells'] += 1
        counter['uncovered:' + ('none' if len(cover) == h * w else 'some')] += 1


def alt_rounded_first(cid, colours):
    """What a cell carries when the colour is clamped and rounded BEFORE conversion (D25)."""
    c = colours[cid]
    v = py_std(c['regs'])
    if c['mode'] != 'raw':
        v = list(conv_fn('l' if c['mode'] == 'logical' else 'g')(v))
    return py_std(v)


def classify(desc, real, spec_ids, expected, tx):
    """First difference between observed and expected events -> (signature, text) or None."""
    if not real['parse_ok']:
        return 'C15/rejected', 'the script is rejected by the compiler: %s' % real.get('error')
    if real['aborted']:
        reason = str(real.get('reason'))
        if has_float_index(desc) and "'float' object cannot be interpreted as an integer" in reason:
            return ('C15/float-index-aborts-script',
                    'a row/column number that is a float (from an expression with / or an interpolating loop) aborts the script'
                    ' (%s, of %s instructions); nothing more is transmitted' % (reason, real.get('len')))
        return 'C15/script-aborted', 'the script aborts (%s, of %s instructions)' % (reason, real.get('len'))
    for l in desc['lights']:
        tag = l['tag']
        got = real['events'].get(tag, [])
        want = expected.get(tag, [])
        ids = spec_ids.get(tag, [])
        if any(e[0] == 'other' for e in got):
            return 'C15/unexpected-device-call', 'light %s receives %r' % (l['name'], [e for e in got if e[0] == 'other'][:2])
        for kind, sig, what in (('M', 'C15/matrix-not-sent-exactly-once', 'tile'), ('Z', 'C15/zone-message-count', 'zone'),
                                ('S', 'C15/plain-set-differs', 'colour')):
            ng, nw = sum(1 for e in got if e[0] == kind), sum(1 for e in want if e[0] == kind)
            if ng != nw:
                return sig, 'light %s receives %d %s messages, the script denotes %d' % (l['name'], ng, what, nw)
        mstmts = [st for st in desc['stmts'] if st[0] in ('inline', 'block') and st[1] == tag]
        n_m = 0
        for g, wnt, idev in zip(got, want, ids):
            stage_cids = set()
            if g[0] == 'M':
                if n_m < len(mstmts):
                    st = mstmts[n_m]
                    stage_cids = {x['cid'] for x in ([st[4]] if st[0] == 'inline' else st[4])}
                n_m += 1
            if g == wnt:
                continue
            if g[0] != wnt[0]:
                return 'C15/message-order', 'light %s: %r where %r is due' % (l['name'], g[0], wnt[0])
            if g[0] == 'S':
                return 'C15/plain-set-differs', 'light %s: plain set transmits %r, the companion run %r' % (l['name'], g[1], wnt[1])
            if g[0] == 'Z':
                if g[1:3] != wnt[1:3]:
                    return 'C15/zone-range', 'light %s: zone message [%s, %s) where [%s, %s) is denoted' % (l['name'], g[1], g[2], wnt[1], wnt[2])
                return 'C15/zone-colour', 'light %s: zone colour %r, a plain set transmits %r' % (l['name'], g[3], wnt[3])
            if g[1:3] != wnt[1:3] or len(g[3]) != len(wnt[3]):
                return 'C15/matrix-size', 'light %s: tile message %sx%s with %d cells, the light is %sx%s' % (l['name'], g[1], g[2], len(g[3]), wnt[1], wnt[2])
            # only a staged colour can have been rounded before conversion (the default is saved converted)
            alt = [alt_rounded_first(i, desc['colours']) if i in stage_cids else wc for i, wc in zip(idev[3], wnt[3])]
            bad = [k for k in range(len(g[3])) if g[3][k] != wnt[3][k]]
            k = bad[0]
            where = 'row %d column %d' % (k // wnt[2], k % wnt[2])
            if all(g[3][j] == alt[j] for j in bad):
                return ('C15/cell-rounded-before-conversion',
                        'light %s %s: the cell carries %r, a plain set of the same registers (%s %r) transmits %r: '
                        'the colour is clamped and rounded before it is converted'
                        % (l['name'], where, g[3][k], desc['colours'][idev[3][k]]['mode'], desc['colours'][idev[3][k]]['regs'], wnt[3][k]))
            return 'C15/wrong-cells', 'light %s %s (%d cells differ): the cell carries %r, it should carry %r' % (l['name'], where, len(bad), g[3][k], wnt[3][k])
    return None


def check_batch(ctx, descs, model_ok, stats):
    """Run every script, evaluate spec and model in Coq, compare."""
    progs = [d['stmts'] for d in descs]
    spec_out = eval_scripts('c15spec', 'From Bardolph Require Import Lang.MatrixSpec Run.C15Spec.', 'spec_script1', progs)
    model_out = None
    if model_ok:
        model_out = eval_scripts('c15mod', 'From Bardolph Require Import Lang.MatrixSpec Run.C15Model.', 'model_script', progs)
    found = {}
    for i, d in enumerate(descs):
        ctx.count()
        in_domain = spec_out[i][0] == 'T'
        spec_evs = parse_events(spec_out[i][1:], int)
        real = run_real(d['lights'], d['source'], d['pop'])
        stats['pop:' + d['pop']] += 1
        for evs in real['events'].values():
            for e in evs:
                stats['observed messages:' + {'S': 'colour', 'Z': 'zone', 'M': 'tile'}.get(e[0], 'other')] += 1
        stats['domain:' + ('inside' if in_domain else 'outside')] += 1
        if d['edge'] or not in_domain:
            stats['outside-domain behaviour:' + ('rejected' if not real['parse_ok'] else 'script aborted' if real['aborted'] else 'ran to the end')] += 1
        tx = None
        if in_domain:
            try:
                tx = plain_transmissions(d['colours'], d['pop'])
            except RuntimeError as ex:
                ctx.broken_tie('harness', 'companion', str(ex)[:1500])
                continue
            black = [0, 0, 0, 0]
            res = lambda k: black if k < 0 else tx[k]
            expected = collections.OrderedDict()
            spec_ids = per_light(spec_evs)
            for tag, evs in spec_ids.items():
                expected[tag] = [('S', res(e[1])) if e[0] == 'S' else ('Z', e[1], e[2], res(e[3])) if e[0] == 'Z'
                                 else ('M', e[1], e[2], [res(k) for k in e[3]]) for e in evs]
            c = classify(d, real, spec_ids, expected, tx)
            if c is not None:
                sig, what = c
                cur = found.get(sig)
                if cur is None or len(d['source']) < len(cur[1]['source']):
                    found[sig] = (what, d)
            else:
                n_m = sum(1 for s in d['stmts'] if s[0] in ('inline', 'block'))
                n_z = sum(1 for s in d['stmts'] if s[0] == 'zone')
                if n_m or n_z:
                    ctx.nontriv(d['source'])
            if i % 97 == 0:
                ctx.sample({'script': d['source'], 'population': d['pop'],
                            'lights': [{k: v for k, v in l.items() if k != 'tag'} for l in d['lights']],
                            'observed': {str(t): [(e[0],) + tuple(e[1:3]) if e[0] != 'S' else e for e in evs] for t, evs in real['events'].items()}})
        # correspondence with the model, inside and outside the domain
        if model_out is not None and real['parse_ok']:
            mtext = model_out[i]
            m_abort = mtext.endswith('ABORT')
            if m_abort:
                mtext = mtext[:-len('ABORT')]
            try:
                m_evs = per_light(parse_events(mtext, lambda t: eval_term(t, d['colours'])))
            except (ValueError, KeyError) as ex:
                ctx.broken_tie('correspondence', 'model term', {'script': d['source'], 'error': str(ex)})
                continue
            r_evs = {t: evs for t, evs in real['events'].items() if evs}
            if m_abort != real['aborted'] or dict(m_evs) != r_evs:
                diff = None
                for t in sorted(set(m_evs) | set(r_evs)):
                    if m_evs.get(t) != r_evs.get(t):
                        diff = {'light': t, 'model': m_evs.get(t), 'implementation': r_evs.get(t)}
                        break
                stats['correspondence-differences'] += 1
                if stats['correspondence-differences'] <= 3:
                    ctx.broken_tie('correspondence', 'script events vs Lang/Matrix.v',
                                   {'script': d['source'], 'population': d['pop'], 'model_aborts': m_abort,
                                    'implementation_aborts': real['aborted'], 'first_difference': diff})
    return found


def replay_payload(d):
    return {'script': d['source'], 'population': d['pop'], 'lights': d['lights'], 'stmts': d['stmts'],
            'colours': {str(k): v for k, v in d['colours'].items()}}


def run(ctx):
    ctx.rule = ('scripts of 1-6 statements (set default, zone ranges, one-line and block matrix commands, plain sets, unit '
                'switches) with literal / variable / macro / expression / float / loop-index ranges on populations of random '
                'size; a case is one script on one population; non-trivial = it contains at least one zone or matrix command, '
                'runs to the end and agrees with the specification; distinct = distinct source text')
    ctx.assumptions += [
        'the unit mode does not change between `begin` and `end` of a matrix block (the cells are converted at `end`)',
        'row/column/zone numbers are ints or floats of small magnitude (x + 1 exact); a float denotes round(x)',
        'a zone end that is a float exactly half way between two integers is outside the domain (it is sent as round(b + 1))',
        'ranges outside 0..extent-1 are outside the domain of the theorems (docs: "values for row must be between 0 and 5"); '
        'their behaviour (IndexError aborts the script, negative numbers count from the end) is modelled and compared, not specified',
        'param_color and ColorMatrix._standardize_raw are the same function on finite numbers (both sides of the comparison go through the real ones)',
        'the fake MultizoneLight raises IndexError beyond its zone list, so zone numbers stay below the strip length on that population',
    ]
    ctx.trusted += ['tools/gen_matrix.py + tools/matrix_accepted.py (text comparison of the modelled functions)',
                    'harness/props/c15.py: script generator, mirror of loop/expression values, recording device objects, '
                    'evaluation of the model\'s symbolic colour terms with Python round and bardolph.controller.units']
    model_ok = ctx.model_runnable
    n_scripts = 15000 if ctx.thorough() else 400
    stats = collections.Counter()
    feats = collections.Counter()
    descs = list(corpus())
    k = 0
    while len(descs) < n_scripts:
        pop = 'fake' if k % 2 == 0 else 'prod'
        edge = (k % 8 == 7)
        g = Gen(ctx.rng, pop, edge=edge)
        try:
            d = g.script()
        except ValueError:
            k += 1
            continue
        descs.append(d)
        k += 1
    for d in descs:
        feats.update(d['features'])
        overlap_stats(d, feats)
        modes = {c['mode'] for c in d['colours'].values()}
        for m in modes:
            feats['mode:' + m] += 1
        for l in d['lights']:
            if l['kind'] == 'matrix':
                feats['matrix-size:%dx%d' % (l['h'], l['w'])] += 1
            elif l['kind'] == 'zones':
                feats['strip-length:' + ('1-8' if l['n'] <= 8 else '9-32' if l['n'] <= 32 else '33-82')] += 1
    ctx.stage('generate')
    found = {}
    for part in chunks(descs, 4000):
        f = check_batch(ctx, part, model_ok, stats)
        for sig, (what, d) in f.items():
            if sig not in found or len(d['source']) < len(found[sig][1]['source']):
                found[sig] = (what, d)
    ctx.stage('run+compare')
    for sig, (what, d) in sorted(found.items()):
        ctx.counterexample(sig, what + ' -- script: ' + json.dumps(d['source']), replay_payload(d))
    sizes = collections.Counter({k: v for k, v in feats.items() if k.startswith('matrix-size:')})
    ctx.extra['scripts'] = len(descs)
    ctx.extra['distribution'] = {k: v for k, v in sorted(feats.items()) if not k.startswith('matrix-size:')}
    ctx.extra['matrix_sizes_distinct'] = len(sizes)
    ctx.extra['matrix_sizes_top'] = dict(sizes.most_common(8))
    ctx.extra['run_stats'] = dict(sorted(stats.items()))
    ctx.extra['outside_domain_note'] = (
        'observed on the implementation and reproduced by the model: a non-empty rectangle with a number >= extent or '
        '< -extent aborts the script with IndexError (nothing of the block is transmitted, later statements are lost); '
        'numbers in [-extent, 0) count from the end (row -1 = last row); a reversed range colours nothing and raises '
        'nothing even when its numbers are far outside; negative zone numbers are clamped to 0 by param_16; a float zone '
        'end exactly half way between two integers is sent as round(b + 1)')
    ctx.extra['model_shape_flags'] = None
    if model_ok:
        res = common.run_cases('c15shape', 'From Bardolph Require Import Run.C15Model.', ['Eval vm_compute in model_shape.\n'])
        if res[0][0] and res[0][1]:
            s = res[0][1][0]
            ctx.extra['model_shape_flags'] = dict(zip(['code_modelled', 'as_raw_matrix_unrounded', 'stage_outside_skipped',
                                                       'index_rounded', 'matrix_light_checked'], [c == 'T' for c in s]))


def replay(ctx, payload):
    inp = payload.get('input', {})
    d = {'lights': inp['lights'], 'source': inp['script'], 'pop': inp['population'],
         'stmts': [tuple(s) for s in inp['stmts']], 'colours': {int(k): v for k, v in inp['colours'].items()},
         'edge': False, 'features': {}}
    stats = collections.Counter()
    common.build(EXTRA_TARGETS)
    found = check_batch(ctx, [d], False, stats)
    for sig, (what, _) in found.items():
        print('%s: %s' % (sig, what))
    return not found and not ctx.broken
