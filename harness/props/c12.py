"""C12 -- device faults and wrong-type targets never abort a script or disturb others.

The production wrappers (bardolph/controller/lifx_lan_light.py, lifx_lan_api.py), LightSet, the
real Parser and Machine run over the simulated network of harness/fake_lifx.py.

Ties checked on every run:
  T1  correspondence: for every (population, discovery plan, script, run plan) the sequence of
      requests (device, kind, arguments, outcome of every attempt), the discovery result, the
      directory and the way the script ends vs the model Lights/Faults.v (Run/C12Model.v),
      compared inside Coq;
  T2  translator: Gen/FaultsGen.v (retry bound, @tries decorations, fail values, text of every
      modelled function) is regenerated from the tree under test; lemmas in
      Lights/FaultsProofs.v require the accepted shapes;
  O   oracle = the specification Lights/FaultsSpec.v evaluated in Coq (Run/C12Spec.v) on what was
      OBSERVED: (1) the machine executes the script to its end, (2) every device the plan leaves
      alone receives exactly the calls of the fault-free run of the script with the commands aimed
      at unknown / wrong-type targets deleted, (3) no request is attempted more than three times,
      nothing is re-sent after an answer, every abandoned request has its log entry,
      (4) LightSet.discover returns a bool, never raises, and on failure the directory is as before.
Fault plans: per request every prefix pattern up to the retry bound (exhaustive for scripts with
<= 4 requests), random patterns beyond, on any subset of devices, plus random occurrence sets.
"""
import itertools
import logging
import sys

import common
import fake_lifx
from common import coq_str, coq_list, coq_z
from fake_lifx import LAN

MODEL_TARGETS = ['Run/C12Model.vo']
EXTRA_TARGETS = ['Run/C12Spec.vo', 'Run/C12Model.vo']

KIND_CODE = {k: i for i, k in enumerate(fake_lifx.KINDS)}
KIND_COQ = {'lan_get_lights': 'KLanGetLights', 'lan_set_color_all': 'KLanSetColorAll', 'lan_set_power_all': 'KLanSetPowerAll',
            'get_label': 'KGetLabel', 'get_group': 'KGetGroup', 'get_location': 'KGetLocation', 'get_features': 'KGetFeatures',
            'get_product_name': 'KGetProductName', 'get_color': 'KGetColor', 'set_color': 'KSetColor', 'get_power': 'KGetPower',
            'set_power': 'KSetPower', 'get_zones': 'KGetZones', 'set_zones': 'KSetZones', 'get_chain': 'KGetChain',
            'get_tile': 'KGetTile', 'set_tile': 'KSetTile'}
WRAPPED_KINDS = {'get_color', 'set_color', 'get_power', 'set_power', 'get_zones', 'set_zones', 'get_chain', 'get_tile', 'set_tile',
                 'lan_set_color_all', 'lan_set_power_all'}   # the broadcasts are retried since D47
RETRY_BOUND = 3


# ---------------------------------------------------------------------------
# running the implementation

class Capture(logging.Handler):
    def __init__(self):
        super().__init__(level=logging.DEBUG)
        self.records = []
        self.abort = None

    def emit(self, record):
        try:
            msg = record.getMessage()
        except Exception:
            msg = str(record.msg)
        self.records.append((record.levelname, msg))
        if msg.startswith('Machine stopped due to'):
            ex = sys.exc_info()[1]
            self.abort = (type(ex).__name__ if ex is not None else 'Exception', str(ex) if ex is not None else msg)

    def clear(self):
        self.records = []
        self.abort = None


_capture = Capture()


def _logging_setup():
    root = logging.getLogger()
    logging.disable(logging.NOTSET)
    if _capture not in root.handlers:
        root.addHandler(_capture)
    root.setLevel(logging.INFO)


class Env:
    """One population on the simulated network, discovered through the production code."""

    def __init__(self, population, dplan=()):
        from bardolph.controller import i_controller, lifx_lan_api, light_set
        from bardolph.fakes import fake_clock
        from bardolph.lib import i_lib, injection, object_list_output, settings
        from bardolph.runtime import runtime_module
        _logging_setup()
        fake_lifx.instrument_wrappers()
        self.population = population
        self.ids = {p['name']: p['id'] for p in population}
        self.ids[LAN] = -1
        injection.configure()
        settings.using({'log_level': logging.INFO, 'log_to_console': True, 'single_light_discover': True,
                        'use_fakes': False, 'sleep_time': 0.0, 'default_num_lights': len(population)}).configure()
        fake_clock.configure()
        self.net = fake_lifx.install(fake_lifx.Network(population, dplan))
        lifx_lan_api.configure()          # binds the production LifxLanApi as the LightApi
        runtime_module.configure()
        injection.bind_instance(object_list_output.ObjectListOutput()).to(i_lib.Output)
        # light_set.configure() without the refresh thread; discover() called under observation
        self.light_set = light_set.LightSet()
        self.discovery = self.discover()
        injection.bind_instance(self.light_set).to(i_controller.LightSet)

    def activate(self):
        """Several Env objects may be alive; the injected LightSet and the network behind
        lifxlan.LifxLAN are process-wide, so they are re-pointed at this one before use."""
        from bardolph.controller import i_controller
        from bardolph.lib import injection
        fake_lifx.FakeLifxLAN.network = self.net
        injection.bind_instance(self.light_set).to(i_controller.LightSet)

    def discover(self, network=None, plan=None):
        """One LightSet.discover() call.  Returns dict(end='T'|'F'|'R'|'?', exception, requests, before, after)."""
        self.activate()
        if network is not None:
            self.net = fake_lifx.install(network)
            for p in network.population:
                self.ids.setdefault(p['name'], p['id'])
        if plan is not None:
            self.net.reset(plan)
        _capture.clear()
        before = self.view()
        end, exc = '?', None
        try:
            r = self.light_set.discover()
            end = 'T' if r is True else 'F' if r is False else '?'
            if end == '?':
                exc = ('not-a-bool', repr(r))
        except Exception as ex:  # the property: discovery never raises
            end, exc = 'R', (type(ex).__name__, str(ex))
        return {'end': end, 'exception': exc, 'requests': [dict(r) for r in self.net.requests],
                'before': before, 'after': self.view(), 'log': list(_capture.records)}

    def view(self):
        """The directory as a client sees it: [(name, device id, capability code)] in name order."""
        from bardolph.controller import lifx_lan_light
        out = []
        for name in list(self.light_set.get_light_names()):
            light = self.light_set.get_light(name)
            if light is None:
                out.append((name, -2, -2))
                continue
            dev = self.ids.get(getattr(getattr(light, '_impl', None), 'label', None), -2)
            if isinstance(light, lifx_lan_light.MultizoneLight):
                code = 1000 + light.get_num_zones()
            elif isinstance(light, lifx_lan_light.MatrixLight):
                h, w = light.get_height(), light.get_width()
                code = -1 if h is None or w is None else 1000000 + h * 1000 + w
            else:
                code = 0
            out.append((name, dev, code))
        return out

    def run(self, script, plan=()):
        """Run a script through ScriptJob (Parser + Machine) under a fault plan with fresh
        occurrence counters and device state.  Returns the observation."""
        from bardolph.controller.script_job import ScriptJob
        self.activate()
        self.net.reset(plan)
        _capture.clear()
        job = ScriptJob.from_string(script)
        if job.program is None:
            raise RuntimeError('generated script does not compile: %r: %s' % (script, job.compile_errors))
        escaped = None
        try:
            job.execute()
        except Exception as ex:   # Machine.run catches everything; anything here is an abort too
            escaped = (type(ex).__name__, str(ex))
        m = job._machine
        abort = _capture.abort or escaped
        if abort is None and m._reg.pc < len(m._program):
            abort = ('stopped-early', 'pc %d of %d' % (m._reg.pc, len(m._program)))
        giving_up = sum(1 for lvl, msg in _capture.records if msg.startswith('Giving up after'))
        return {'abort': abort, 'requests': [dict(r) for r in self.net.requests], 'giving_up': giving_up,
                'pc': m._reg.pc, 'program_len': len(m._program)}


# ---------------------------------------------------------------------------
# canonical forms

def flat_payload(kind, p):
    if p is None:
        return []
    if kind in ('set_color', 'lan_set_color_all'):
        return list(p[0]) + [p[1]]
    if kind in ('set_power', 'lan_set_power_all'):
        return [int(p[0]), p[1]]
    if kind == 'set_zones':
        return [p[0], p[1]] + list(p[2]) + [p[3]]
    if kind == 'set_tile':
        cells = []
        for c in p[0]:
            cells += list(c) if c is not None else [-1, -1, -1, -1]
        return cells + [p[1], -1 if p[2] is None else p[2], -1 if p[3] is None else p[3]]
    return []


def show_trace(ids, requests, payloads=True):
    out = []
    for r in requests:
        pl = flat_payload(r['kind'], r['payload']) if payloads else []
        out.append('%d:%d:%s:%s;' % (ids[r['label']], KIND_CODE.get(r['kind'], 99), ''.join('%d,' % int(x) for x in pl),
                                      ''.join('T' if o else 'F' for o in r['outcomes'])))
    return ''.join(out)


def show_str(s):
    out = "'"
    for ch in s:
        n = ord(ch)
        out += '\\x%02x' % n if (n < 32 or n >= 127 or n in (92, 59, 39)) else ch
    return out + "'"


def show_view(view):
    return ''.join('%s:%d:%d;' % (show_str(n), d, c) for n, d, c in view)


def abort_reason(abort):
    if abort is None:
        return 'C'
    t, msg = abort
    if t == 'WorkflowException':
        return 'Aworkflow'
    if t == 'AttributeError':
        return 'Aattribute'
    if t == 'IndexError':
        return 'Aindex'
    if t == 'TypeError':
        return 'Asize' if 'cannot be interpreted as an integer' in msg else 'Atype'
    return 'A' + t


def coq_trace(ids, requests, payloads=True):
    items = []
    for r in requests:
        pl = flat_payload(r['kind'], r['payload']) if payloads else []
        items.append('mkreq %s %s %s %s' % (coq_z(ids[r['label']]), KIND_COQ.get(r['kind'], 'KGetTile'),
                                           coq_list([coq_z(int(x)) for x in pl]),
                                           coq_list(['true' if o else 'false' for o in r['outcomes']])))
    return coq_list(items)


def coq_plan(ids, plan):
    """set of (label, kind, occurrence) -> list of (dev, kind, outcome stream)."""
    top = {}
    for (label, kind, occ) in plan:
        top[(label, kind)] = max(top.get((label, kind), -1), occ)
    items = []
    for (label, kind) in sorted(top, key=lambda x: (ids[x[0]], KIND_CODE[x[1]])):
        stream = ['false' if (label, kind, i) in plan else 'true' for i in range(top[(label, kind)] + 1)]
        items.append('(%s, %s, %s)' % (coq_z(ids[label]), KIND_COQ[kind], coq_list(stream)))
    return coq_list(items)


def coq_network(population):
    items = []
    for p in population:
        if p['kind'] == 'multizone':
            k = '(NMultizone %d)' % p['zones']
        elif p['kind'] == 'matrix':
            k = '(NMatrix %d %d)' % (p['height'], p['width'])
        else:
            k = 'NPlain'
        items.append('mkn %d %s %s %s %s' % (p['id'], coq_str(p['name']), coq_str(p['group']), coq_str(p['location']), k))
    return coq_list(items)


def coq_colors(population):
    return coq_list(['(%d, %s)' % (p['id'], coq_list([coq_z(x) for x in p.get('color', [0, 0, 0, 0])])) for p in population])


def coq_target(t):
    if t[0] == 'all':
        return 'TAll'
    return '(%s %s)' % ({'light': 'TLight', 'group': 'TGroup', 'location': 'TLocation'}[t[0]], coq_str(t[1]))


def coq_span(o):
    if o is None:
        return 'None'
    a, b = o
    return '(Some (%s, %s))' % (coq_z(a), 'None' if b is None else '(Some %s)' % coq_z(b))


def coq_cmd(c):
    k = c[0]
    if k == 'regs':
        return 'CRegs ' + coq_list([coq_z(x) for x in c[1]])
    if k == 'color':
        return 'CColor %s %s' % (coq_target(c[1]), coq_z(c[2]))
    if k == 'power':
        return 'CPower %s %s %s' % (coq_target(c[1]), 'true' if c[2] else 'false', coq_z(c[3]))
    if k == 'zone':
        return 'CZone %s %s %s %s' % (coq_str(c[1]), coq_z(c[2]), 'None' if c[3] is None else '(Some %s)' % coq_z(c[3]), coq_z(c[4]))
    if k == 'matrix':
        return 'CMatrix %s %s %s %s' % (coq_str(c[1]), coq_span(c[2]), coq_span(c[3]), coq_z(c[4]))
    if k == 'get':
        return 'CGet ' + coq_str(c[1])
    raise ValueError(c)


# ---------------------------------------------------------------------------
# scripts

def text_target(t):
    if t[0] == 'all':
        return 'all'
    if t[0] == 'light':
        return '"%s"' % t[1]
    return '%s "%s"' % (t[0], t[1])


def text_span(word, o):
    if o is None:
        return ''
    a, b = o
    return ' %s %d' % (word, a) + ('' if b is None else ' %d' % b)


def operand_text(c):
    if c[0] == 'color':
        return text_target(c[1])
    if c[0] == 'power':
        return text_target(c[1])
    if c[0] == 'zone':
        return '"%s" zone %d' % (c[1], c[2]) + ('' if c[3] is None else ' %d' % c[3])
    if c[0] == 'matrix':
        return '"%s"%s%s' % (c[1], text_span('row', c[2]), text_span('column', c[3]))
    raise ValueError(c)


def render(cmds, rng=None):
    """Command list -> script text (raw units).  Consecutive `set` operands (or `on`/`off`
    operands) with the same duration are sometimes joined with `and`."""
    lines = ['units raw']
    i = 0
    while i < len(cmds):
        c = cmds[i]
        if c[0] == 'regs':
            lines.append('hue %d saturation %d brightness %d kelvin %d' % tuple(c[1]))
            i += 1
        elif c[0] == 'get':
            lines.append('get "%s"' % c[1])
            i += 1
        else:
            setlike = c[0] in ('color', 'zone', 'matrix')
            dur = c[-1]
            verb = 'set' if setlike else ('on' if c[2] else 'off')
            ops = [operand_text(c)]
            j = i + 1
            joinable = not (c[0] in ('color', 'power') and c[1][0] == 'all')
            while (joinable and rng is not None and j < len(cmds) and rng.random() < 0.5):
                n = cmds[j]
                same = ((n[0] in ('color', 'zone', 'matrix')) if setlike else (n[0] == 'power' and n[2] == c[2]))
                if not same or n[-1] != dur or (n[0] in ('color', 'power') and n[1][0] == 'all'):
                    break
                ops.append(operand_text(n))
                j += 1
            lines.append('duration %d %s %s' % (dur, verb, ' and '.join(ops)))
            i = j
    return '\n'.join(lines) + '\n'


NAMES = ['Top', 'Lamp', 'Strip 1', 'Candle', 'table-0', 'B', 'a', 'Zed_9', 'Desk lamp', 'tube']
GROUPS = ['Pole', 'Furniture', 'g', 'Table 2']
LOCATIONS = ['Home', 'Living Room', 'loc']
GHOSTS = ['Nobody', 'ghost', 'top']


def gen_population(rng, n=None):
    n = n if n is not None else rng.choice([1, 2, 2, 3, 3, 4, 5])
    names = rng.sample(NAMES, n)
    pop = []
    for i, name in enumerate(names):
        kind = rng.choice(['plain', 'plain', 'plain', 'multizone', 'matrix'])
        p = {'id': i, 'name': name, 'group': rng.choice(GROUPS[:3] if n > 2 else GROUPS[:2]),
             'location': rng.choice(LOCATIONS[:2]), 'kind': kind, 'color': [rng.randrange(65536) for _ in range(4)]}
        if kind == 'multizone':
            p['zones'] = rng.choice([1, 8, 16])
        if kind == 'matrix':
            p['height'], p['width'] = rng.choice([(2, 2), (3, 2), (2, 3), (6, 5)])
        pop.append(p)
    return pop


def gen_target(rng, pop, known=None):
    r = rng.random()
    if known is None:
        known = rng.random() < 0.7
    if r < 0.5:
        return ('light', rng.choice(pop)['name'] if known else rng.choice(GHOSTS))
    if r < 0.7:
        return ('group', rng.choice(pop)['group'] if known else rng.choice(GHOSTS + [pop[0]['name']]))
    if r < 0.85:
        return ('location', rng.choice(pop)['location'] if known else rng.choice(GHOSTS + [pop[0]['group']]))
    return ('all',)


def gen_name(rng, pop, want_kind):
    """A light name: mostly of the wanted capability, sometimes another kind, sometimes unknown."""
    r = rng.random()
    right = [p['name'] for p in pop if p['kind'] == want_kind]
    wrong = [p['name'] for p in pop if p['kind'] != want_kind]
    if r < 0.5 and right:
        return rng.choice(right)
    if r < 0.85 and wrong:
        return rng.choice(wrong)
    if r < 0.93 or not (right or wrong):
        return rng.choice(GHOSTS)
    return rng.choice(right or wrong)


def gen_cmd(rng, pop, kind=None):
    kind = kind or rng.choice(['color', 'color', 'power', 'power', 'zone', 'matrix', 'get', 'regs'])
    dur = rng.choice([0, 0, 5, 1500])
    if kind == 'regs':
        return ('regs', [rng.randrange(65536) for _ in range(4)])
    if kind == 'color':
        return ('color', gen_target(rng, pop), dur)
    if kind == 'power':
        return ('power', gen_target(rng, pop), rng.random() < 0.5, dur)
    if kind == 'zone':
        a = rng.randrange(0, 8)
        return ('zone', gen_name(rng, pop, 'multizone'), a, rng.choice([None, a, a + rng.randrange(0, 4)]), dur)
    if kind == 'matrix':
        name = gen_name(rng, pop, 'matrix')
        dims = [(p['height'], p['width']) for p in pop if p['name'] == name and p['kind'] == 'matrix']
        h, w = dims[0] if dims else (6, 5)
        def span(n):
            a = rng.randrange(0, n)
            return rng.choice([None, (a, None), (a, rng.randrange(a, n))])
        rows, cols = span(h), span(w)
        if rng.random() < 0.06:
            # the script's own numbers point outside the matrix (IndexError: not a C12 trigger;
            # exercised for the correspondence with the model only)
            big = (h if dims else 255) + rng.randrange(0, 3)
            rows = rng.choice([(big, None), (0, big), (big + 1, big)])
        if rows is None and cols is None:
            rows = (0, None)
        return ('matrix', name, rows, cols, dur)
    if kind == 'get':
        return ('get', gen_name(rng, pop, 'plain'))
    raise ValueError(kind)


def sizeless_lights(env, pop, dplan):
    """Matrix lights whose size discovery never learned: by the directory, and by the discovery plan itself (all
    three attempts of the size query fail) whatever the directory then claims."""
    out = {n for n, d, code in env.view() if code == -1}
    fails = {tuple(k) for k in dplan}
    for p in pop:
        if p['kind'] == 'matrix' and all((p['name'], 'get_chain', i) in fails for i in range(RETRY_BOUND)):
            out.add(p['name'])
    return out


def own_numbers_outside(pop, cmds, sizeless=()):
    """Some matrix command names a row or column outside its matrix: the size of a matrix light whose size is known, the
    255 x 255 scratch matrix for any other target."""
    by = {p['name']: p for p in pop}
    for c in cmds:
        if c[0] != 'matrix':
            continue
        sized = c[1] in by and by[c[1]]['kind'] == 'matrix' and c[1] not in sizeless
        # for every other target the machine stages into a 255 x 255 scratch matrix (the hypothesis cmd_fits of Lights/Faults.v)
        for span, n in ((c[2], by[c[1]]['height'] if sized else 255), (c[3], by[c[1]]['width'] if sized else 255)):
            if span is not None:
                a, b = span
                if a >= n or (b is not None and (b >= n or b < a)):
                    return True
    return False


def is_idle(pop, c, sizeless=()):
    """Commands aimed at an unknown name or at a light without the capability -- including a
    matrix light whose size discovery never learned (the property: they change nothing)."""
    by = {p['name']: p for p in pop}
    if c[0] in ('color', 'power'):
        t = c[1]
        if t[0] == 'all':
            return False
        if t[0] == 'light':
            return t[1] not in by
        key = 'group' if t[0] == 'group' else 'location'
        return not any(p[key] == t[1] for p in pop)
    if c[0] == 'zone':
        return c[1] not in by or by[c[1]]['kind'] != 'multizone'
    if c[0] == 'matrix':
        return c[1] not in by or by[c[1]]['kind'] != 'matrix' or c[1] in sizeless
    if c[0] == 'get':
        return c[1] not in by or by[c[1]]['kind'] != 'plain'
    return False


# ---------------------------------------------------------------------------
# fault plans

def prefix_plan(requests, ks):
    """requests: the fault-free request list [(label, kind)]; ks[j] = number of leading attempts of
    request j that fail.  Returns the set of (label, kind, occurrence) keys."""
    cursor = {}
    plan = set()
    for (label, kind), k in zip(requests, ks):
        c = cursor.get((label, kind), 0)
        for i in range(k):
            plan.add((label, kind, c + i))
        if kind in WRAPPED_KINDS:
            cursor[(label, kind)] = c + (k + 1 if k < RETRY_BOUND else RETRY_BOUND)
        else:
            cursor[(label, kind)] = c + 1
    return plan


def prefix_choices(kind):
    return range(RETRY_BOUND + 1) if kind in WRAPPED_KINDS else range(2)


def plans_for(rng, requests, exhaustive_upto=4, n_random=10):
    """All prefix plans when there are at most `exhaustive_upto` requests, otherwise a sample
    (devices chosen as a random subset, then random prefixes on their requests), plus random
    occurrence-level plans."""
    reqs = [(r['label'], r['kind']) for r in requests]
    plans = []
    exhaustive = len(reqs) <= exhaustive_upto
    if exhaustive:
        for ks in itertools.product(*[prefix_choices(k) for (_, k) in reqs]):
            if any(ks):
                plans.append(prefix_plan(reqs, ks))
    else:
        labels = sorted({l for l, _ in reqs})
        for _ in range(n_random):
            bad = {l for l in labels if rng.random() < 0.5} or {rng.choice(labels)}
            ks = [rng.choice(list(prefix_choices(k))) if l in bad and rng.random() < 0.8 else 0 for (l, k) in reqs]
            if any(ks):
                plans.append(prefix_plan(reqs, ks))
    # arbitrary occurrence sets (not necessarily prefixes of a request)
    labels = sorted({l for l, _ in reqs})
    for _ in range(2 if labels else 0):
        bad = {l for l in labels if rng.random() < 0.4} or {rng.choice(labels)}
        plan = set()
        for (l, k) in set(reqs):
            if l in bad:
                for occ in range(8):
                    if rng.random() < 0.45:
                        plan.add((l, k, occ))
        if plan:
            plans.append(plan)
    return plans, exhaustive


# ---------------------------------------------------------------------------
# judging one observation (classification for signatures; the verdict itself is the spec's)

def dirty_run(obs):
    """The register flow of this run depends on a `get` that was abandoned, or that read a
    device at which an earlier request had been abandoned (the statement's exclusion)."""
    tainted = set()
    for r in obs['requests']:
        lost = not any(r['outcomes'])
        if r['kind'] == 'get_color' and (lost or r['label'] in tainted or LAN in tainted):
            return True
        if lost:
            tainted.add(r['label'])      # an abandoned broadcast (label LAN) leaves every light in doubt
    return False


def py_judge(ids, healthy, obs, free, payloads):
    v = []
    if obs['abort'] is not None:
        v.append('aborted')
    if any(len(r['outcomes']) > RETRY_BOUND for r in obs['requests']):
        v.append('more-than-three-attempts')
    for r in obs['requests']:
        o = r['outcomes']
        if True in o and o.index(True) != len(o) - 1:
            v.append('resent-after-answer')
            break
    bad = []
    for label in healthy:
        def p(o):
            # what the device receives: one entry per attempt that got through
            return [(r['kind'], flat_payload(r['kind'], r['payload']) if payloads else None)
                    for r in o['requests'] if r['label'] == label for ok in r['outcomes'] if ok]
        if p(obs) != p(free):
            bad.append(ids[label])
    if bad:
        v.append('disturbed:' + ''.join('%d,' % b for b in bad))
    return v


def classify_abort(abort, obs, pop, dplan):
    t, msg = abort
    if t == 'AttributeError' and 'set_matrix' in msg:
        return 'C12/matrix-command-on-plain-light-aborts'
    if t == 'AttributeError' and 'set_zone_colors' in msg:
        return 'C12/zone-command-on-non-multizone-aborts'
    if t == 'AttributeError' and "'NoneType'" in msg:
        return 'C12/unknown-name-aborts'
    if t == 'WorkflowException':
        last = obs['requests'][-1] if obs['requests'] else None
        if last is not None and last['label'] == LAN:
            return 'C12/broadcast-failure-aborts-script'
        return 'C12/unanswered-request-aborts-script'
    if t == 'TypeError' and 'cannot be interpreted as an integer' in msg:
        return 'C12/matrix-command-on-silently-discovered-matrix-light-aborts'
    if t == 'TypeError':
        return 'C12/abandoned-request-value-aborts-script'
    return 'C12/script-aborted-' + t


# ---------------------------------------------------------------------------

def chunks(l, n):
    return [l[i:i + n] for i in range(0, len(l), n)]


def eval_checks(tag, imports, fn, items, per_file, sep):
    """Evaluate `fn [items]` in Coq, sharded.  Every file returns the concatenation of
    '<id>=<text><sep>' for the rejected items.  Returns dict id -> text."""
    files = ['Eval vm_compute in (%s %s).\n' % (fn, coq_list(part)) for part in chunks(items, per_file)]
    res = common.run_cases(tag, imports, files)
    out = {}
    for ok, strs, log in res:
        if not ok or len(strs) != 1:
            raise RuntimeError('coq evaluation of %s failed: %s' % (fn, log[-1500:]))
        for it in strs[0].split(sep)[:-1]:
            i, _, text = it.partition('=')
            out[int(i)] = text
    return out


SEED_POP = [
    {'id': 0, 'name': 'Top', 'group': 'Pole', 'location': 'Home', 'kind': 'plain', 'color': [100, 200, 300, 3500]},
    {'id': 1, 'name': 'Lamp', 'group': 'Pole', 'location': 'Home', 'kind': 'plain', 'color': [11, 22, 33, 2700]},
    {'id': 2, 'name': 'Strip 1', 'group': 'Furniture', 'location': 'Home', 'kind': 'multizone', 'zones': 8, 'color': [1, 2, 3, 4]},
    {'id': 3, 'name': 'Candle', 'group': 'Furniture', 'location': 'Living Room', 'kind': 'matrix', 'height': 6, 'width': 5, 'color': [5, 6, 7, 8]},
]
REGS = ('regs', [120, 65535, 32768, 3500])
# directed scenarios (regression corpus): (discovery plan, commands, extra fault plans)
SEEDS = [
    # D23: a row command aimed at a plain bulb / a multizone strip, then a command to another light
    (set(), [REGS, ('matrix', 'Top', (1, None), None, 0), ('color', ('light', 'Lamp'), 0)], []),
    (set(), [REGS, ('matrix', 'Strip 1', (1, 2), (0, 1), 5), ('power', ('group', 'Pole'), True, 0)], []),
    # ... after a matrix command on a real matrix light: the mis-aimed command finds nothing staged by the earlier one
    (set(), [REGS, ('matrix', 'Candle', (1, None), None, 0), ('matrix', 'Top', (7, None), (0, None), 0), ('color', ('light', 'Lamp'), 0)], []),
    (set(), [REGS, ('matrix', 'Candle', (0, 5), (0, 4), 0), ('matrix', 'Strip 1', (0, None), (6, None), 0), ('matrix', 'ghost', (200, None), None, 0),
             ('power', ('light', 'Lamp'), True, 0)], []),
    # zone command on lights without zones, unknown names everywhere
    (set(), [REGS, ('zone', 'Top', 1, 3, 0), ('zone', 'Candle', 0, None, 0), ('zone', 'Nobody', 2, None, 0), ('color', ('light', 'Lamp'), 0)], []),
    (set(), [REGS, ('color', ('light', 'ghost'), 0), ('power', ('group', 'ghost'), True, 0), ('color', ('location', 'Nobody'), 5),
             ('get', 'Nobody'), ('matrix', 'ghost', (0, None), None, 0), ('get', 'Candle'), ('get', 'Strip 1'), ('power', ('light', 'Top'), False, 0)], []),
    # broadcasts
    (set(), [REGS, ('color', ('all',), 0), ('color', ('light', 'Top'), 0)],
     [{(LAN, 'lan_set_color_all', 0)}, {(LAN, 'lan_set_color_all', i) for i in range(3)}]),
    (set(), [('power', ('all',), True, 0), ('power', ('light', 'Lamp'), False, 0)],
     [{(LAN, 'lan_set_power_all', 0)}, {(LAN, 'lan_set_power_all', i) for i in range(3)}]),
    # an abandoned broadcast, then a get: every light is in doubt (excluded data dependence)
    (set(), [REGS, ('color', ('all',), 0), ('get', 'Top'), ('color', ('light', 'Lamp'), 0)],
     [{(LAN, 'lan_set_color_all', i) for i in range(3)}]),
    # a matrix light that did not answer the size query during discovery, then a row command
    ({('Candle', 'get_chain', 0), ('Candle', 'get_chain', 1), ('Candle', 'get_chain', 2)},
     [REGS, ('matrix', 'Candle', (1, None), None, 0), ('color', ('light', 'Top'), 0)], []),
    # a multizone light that needed retries / gave no zone count during discovery, then a zone command
    ({('Strip 1', 'get_zones', 0), ('Strip 1', 'get_zones', 1), ('Strip 1', 'get_zones', 2)},
     [REGS, ('zone', 'Strip 1', 1, 2, 0), ('color', ('group', 'Furniture'), 0)], []),
    ({('Strip 1', 'get_zones', 0), ('Candle', 'get_chain', 0), ('Candle', 'get_chain', 1)},
     [REGS, ('zone', 'Strip 1', 0, None, 0), ('matrix', 'Candle', None, (2, 3), 0)], []),
    # get: failing, and reading a device whose set was abandoned (the excluded data dependences)
    (set(), [REGS, ('get', 'Top'), ('color', ('light', 'Lamp'), 0)], [{('Top', 'get_color', 0), ('Top', 'get_color', 1), ('Top', 'get_color', 2)}]),
    (set(), [REGS, ('color', ('light', 'Top'), 0), ('get', 'Top'), ('color', ('light', 'Lamp'), 0)],
     [{('Top', 'set_color', 0), ('Top', 'set_color', 1), ('Top', 'set_color', 2)}]),
    # the same command twice to a silent light: two requests of three attempts each
    (set(), [REGS, ('color', ('light', 'Top'), 0), ('color', ('light', 'Top'), 0), ('color', ('group', 'Pole'), 0)],
     [{('Top', 'set_color', i) for i in range(9)}]),
]


def run(ctx):
    rng = ctx.rng
    ctx.rule = ('a case = (population, discovery plan, script, fault plan); non-trivial when the plan makes at least one '
                'attempt fail or the script aims a command at an unknown / wrong-capability target; distinct = distinct '
                '(population, script, plan); discovery cases: (network, plan) with at least one failing attempt')
    ctx.assumptions += ['the simulated network never hangs: every attempt is answered or raises WorkflowException',
                        'scripts are straight-line and use raw units (unit conversion is C07/C14, control flow C01)',
                        'light names are distinct within a population; ASCII names; row/column numbers are non-negative',
                        'non-interference excludes runs whose register flow depends on a `get` that was abandoned or that read a device with an abandoned request (necessity: Examples in Lights/FaultsProofs.v)']
    ctx.trusted += ['harness/fake_lifx.py (simulated lifxlan layer; lifxlan package: %s)' % fake_lifx.ensure_lifxlan()]
    model_ok = ctx.model_runnable
    thorough = ctx.thorough()
    n_pops = 45 if thorough else 20
    scripts_per_pop = 8 if thorough else 6
    upto = 4 if thorough else 3

    spec_items = []        # Coq terms `mkobs ...`
    spec_expect = {}       # id -> python verdict list
    groups = []            # per population: Coq head `mkgroup ...` and its runs `mkrun ...`
    case_info = {}         # id -> replay payload
    stats = {'runs': 0, 'plans_exhaustive_scripts': 0, 'scripts': 0, 'idle_cmds': 0, 'dirty_runs': 0,
             'aborts': 0, 'self_aborting_scripts': 0, 'abandoned_requests': 0, 'retried_requests': 0, 'kinds': {}, 'cmd_kinds': {}}
    counter = [0]

    def new_id():
        counter[0] += 1
        return counter[0]

    def exercise(env, pop, dplan, dhead, cmds, key, extra_plans=(), join=True):
        script = render(cmds, rng if join else None)
        sizeless = sizeless_lights(env, pop, dplan)
        stripped = [c for c in cmds if not is_idle(pop, c, sizeless)]
        stats['scripts'] += 1
        stats['idle_cmds'] += len(cmds) - len(stripped)
        for c in cmds:
            stats['cmd_kinds'][c[0]] = stats['cmd_kinds'].get(c[0], 0) + 1
        free_full = env.run(script)
        free = env.run(render(stripped)) if len(stripped) != len(cmds) else free_full
        # a script whose own row/column numbers lie outside the matrix ends with IndexError
        # whatever the devices do: outside the property's triggers, kept for the model only
        # (judged by the script's numbers against the true size of a matrix light whose size is known -- an IndexError
        # on any other target, e.g. a matrix light that never told its size, is an abort the property forbids)
        self_aborting = (any(o['abort'] is not None and o['abort'][0] == 'IndexError' for o in (free, free_full))
                         and own_numbers_outside(pop, cmds, sizeless))
        stats['self_aborting_scripts'] += self_aborting
        plans, exhaustive = plans_for(rng, free['requests'], exhaustive_upto=upto, n_random=14 if thorough else 6)
        plans = [set(p) for p in extra_plans] + plans
        if exhaustive:
            stats['plans_exhaustive_scripts'] += 1
        for plan in [set()] + plans:
            obs = free_full if not plan else env.run(script, plan)
            stats['runs'] += 1
            ctx.count()
            cid = new_id()
            healthy = [l for l in env.net.labels() + [LAN] if not any(k[0] == l for k in plan)]
            dirty = dirty_run(obs)
            stats['dirty_runs'] += dirty
            replay = {'population': pop, 'discovery_plan': sorted(dplan), 'script': script, 'commands': cmds,
                      'fault_plan': sorted(plan)}
            case_info[cid] = replay
            if plan or len(stripped) != len(cmds):
                ctx.nontriv((key, tuple(sorted(plan))))
            for r in obs['requests']:
                stats['kinds'][r['kind']] = stats['kinds'].get(r['kind'], 0) + 1
                if not any(r['outcomes']):
                    stats['abandoned_requests'] += 1
                elif len(r['outcomes']) > 1:
                    stats['retried_requests'] += 1
            # --- correspondence with the model ---
            expected = abort_reason(obs['abort']) + '|' + show_trace(env.ids, obs['requests'])
            env.group['runs'].append('mkrun %d %s %s %s' % (cid, coq_plan(env.ids, plan), coq_list([coq_cmd(c) for c in cmds]), coq_str(expected)))
            if self_aborting:
                continue
            # --- oracle: classification here, verdict by the specification in Coq ---
            v = py_judge(env.ids, healthy, obs, free, payloads=not dirty)
            spec_expect[cid] = v
            spec_items.append('mkobs %d %s %s %s %s' % (
                cid, coq_list([coq_z(env.ids[l]) for l in healthy]), 'Aborted' if obs['abort'] else 'Finished',
                coq_trace(env.ids, obs['requests'], payloads=not dirty), coq_trace(env.ids, free['requests'], payloads=not dirty)))
            where = 'script %r under fault plan %s on population %s (discovered under %s)' % (script, sorted(plan), brief(pop), sorted(dplan))
            if obs['abort'] is not None:
                stats['aborts'] += 1
                ctx.counterexample(classify_abort(obs['abort'], obs, pop, dplan),
                                   '%s: the machine stops with %s: %s at instruction %d of %d'
                                   % (where, obs['abort'][0], obs['abort'][1], obs['pc'], obs['program_len']), replay)
            if 'more-than-three-attempts' in v:
                worst = max(obs['requests'], key=lambda r: len(r['outcomes']))
                ctx.counterexample('C12/more-than-three-attempts', '%s: request %s at %r attempted %d times'
                                   % (where, worst['kind'], worst['label'], len(worst['outcomes'])), replay)
            if 'resent-after-answer' in v:
                ctx.counterexample('C12/request-resent-after-answer', '%s: a request is sent again after it was answered' % where, replay)
            dis = [x for x in v if x.startswith('disturbed')]
            if dis and obs['abort'] is None:
                sig = 'C12/healthy-device-disturbed' if plan else 'C12/unknown-or-wrong-type-target-disturbs'
                ctx.counterexample(sig, '%s: devices %s (which the plan leaves alone) do not receive the calls of the fault-free run'
                                   % (where, dis[0][10:]), replay)
            if any(r['resent_differently'] for r in obs['requests']):
                ctx.counterexample('C12/retry-changes-arguments', '%s: a retry re-sends different arguments' % where, replay)
            lost_wrapped = sum(1 for r in obs['requests'] if r['kind'] in WRAPPED_KINDS and not any(r['outcomes']) and len(r['outcomes']) >= RETRY_BOUND)
            if obs['abort'] is None and obs['giving_up'] < lost_wrapped:
                ctx.counterexample('C12/abandoned-without-log-entry', '%s: %d requests abandoned, %d log entries'
                                   % (where, lost_wrapped, obs['giving_up']), replay)
            if len(ctx.samples) < 5 and plan and counter[0] % 97 == 0:
                ctx.sample({'population': brief(pop), 'script': script, 'fault_plan': sorted(plan),
                            'requests': show_trace(env.ids, obs['requests']), 'ended': abort_reason(obs['abort'])})

    def open_env(pop, dplan):
        env = Env(pop, dplan)
        d = env.discovery
        dhead = 'D%s|%s|%s|' % (d['end'], show_trace(env.ids, d['requests']), show_view(d['after']))
        judge_discovery(ctx, env, pop, dplan, d)
        gid = new_id()
        case_info[gid] = {'population': pop, 'discovery_plan': sorted(dplan), 'script': None}
        env.group = {'head': 'mkgroup %d %s %s %s %s' % (gid, coq_network(pop), coq_colors(pop), coq_plan(env.ids, dplan), coq_str(dhead)),
                     'runs': []}
        groups.append(env.group)
        if d['end'] != 'T':
            return None, dhead      # nothing to run scripts on; the discovery itself is compared with the model
        return env, dhead

    # directed scenarios first (the regression corpus)
    envs = {}
    for i, (dplan, cmds, extra) in enumerate(SEEDS):
        key = tuple(sorted(dplan))
        if key not in envs:
            envs[key] = open_env(SEED_POP, set(dplan))
        env, dhead = envs[key]
        if env is not None:
            exercise(env, SEED_POP, set(dplan), dhead, cmds, ('seed', i), extra_plans=extra, join=False)
    ctx.stage('directed scenarios')

    for pi in range(n_pops):
        pop = gen_population(rng)
        # some populations are discovered while a multizone / matrix light does not answer the
        # size query, or while requests need retries (discovery still completes)
        dplan = set()
        if pi % 4 == 3:
            for p in pop:
                if p['kind'] == 'multizone' and rng.random() < 0.7:
                    dplan |= {(p['name'], 'get_zones', i) for i in range(rng.choice([1, 2, 3]))}
                if p['kind'] == 'matrix' and rng.random() < 0.7:
                    dplan |= {(p['name'], 'get_chain', i) for i in range(rng.choice([1, 2, 3, 3]))}
        env, dhead = open_env(pop, dplan)
        if env is None:
            continue
        for si in range(scripts_per_pop):
            small = si < (scripts_per_pop // 2)
            n_cmds = rng.choice([1, 2, 2, 3]) if small else rng.choice([3, 4, 5, 6, 8])
            cmds = [('regs', [rng.randrange(65536) for _ in range(4)])] if rng.random() < 0.8 else []
            cmds += [gen_cmd(rng, pop) for _ in range(n_cmds)]
            exercise(env, pop, dplan, dhead, cmds, (pi, si))
    ctx.stage('implementation runs')

    # ---------------- discovery ----------------
    disc_spec_items, disc_model_items, disc_info = discovery_cases(ctx, thorough)
    ctx.stage('discovery runs')

    # ---------------- the specification's verdicts (Coq) ----------------
    rejected = eval_checks('c12spec', 'From Bardolph Require Import Lights.FaultsSpec Run.C12Spec.', 'spec_cases', spec_items, 400, '|')
    for i, v in spec_expect.items():
        got = rejected.get(i, '').split()
        if sorted(got) != sorted(v):
            ctx.broken_tie('harness', 'spec verdict vs harness classification', {'case': case_info[i], 'spec': got, 'harness': v})
            break
    for i, text in rejected.items():
        if not spec_expect.get(i):
            ctx.counterexample('C12/spec-rejects', 'the specification rejects the observed run: %s' % text, case_info[i])
    drej = eval_checks('c12dspec', 'From Bardolph Require Import Lights.FaultsSpec Run.C12Spec.', 'spec_discover_cases', disc_spec_items, 300, '|')
    for i, text in drej.items():
        if not disc_info[i].get('reported'):
            ctx.counterexample('C12/discovery-spec-rejects', 'the specification rejects the observed discovery: %s' % text, disc_info[i])
    for i, inf in disc_info.items():
        if inf.get('reported') and i not in drej:
            ctx.broken_tie('harness', 'discovery spec verdict vs harness classification', {'case': inf})
            break
    ctx.stage('spec (coq)')

    # ---------------- correspondence with the model (Coq) ----------------
    if model_ok:
        # shard by number of runs; a population's runs stay together
        model_items, cur, size = [], [], 0
        for g in groups:
            parts = chunks(g['runs'], 220) or [[]]
            for part in parts:
                model_items.append('(%s %s)' % (g['head'], coq_list(part)))
        files, cur, size = [], [], 0
        for it, g in zip(model_items, [g for g in groups for _ in (chunks(g['runs'], 220) or [[]])]):
            cur.append(it)
            size += 1 + len(it) // 1200
            if size >= 220:
                files.append(cur)
                cur, size = [], 0
        if cur:
            files.append(cur)
        diffs = {}
        res = common.run_cases('c12mod', 'From Bardolph Require Import Lights.Faults Run.C12Model.',
                               ['Eval vm_compute in (model_check %s).\n' % coq_list(f) for f in files])
        for ok, strs, log in res:
            if not ok or len(strs) != 1:
                raise RuntimeError('coq evaluation of model_check failed: %s' % log[-1500:])
            for it in strs[0].split('#')[:-1]:
                i, _, text = it.partition('=')
                diffs[int(i)] = text
        for i in sorted(diffs)[:3]:
            ctx.broken_tie('correspondence', 'requests/result vs model', {'case': case_info[i], 'model': diffs[i][:1500]})
        ddiffs = eval_checks('c12dmod', 'From Bardolph Require Import Lights.Faults Run.C12Model.', 'model_rediscover_check', disc_model_items, 150, '#')
        for i in sorted(ddiffs)[:3]:
            ctx.broken_tie('correspondence', 'rediscovery vs model', {'case': disc_info[i], 'model': ddiffs[i][:1500]})
        ctx.extra['model_cases'] = sum(len(g['runs']) + 1 for g in groups) + len(disc_model_items)
        retry_direct(ctx)
        ctx.stage('model (coq)')
    ctx.extra.update(stats)
    ctx.extra['populations'] = n_pops
    ctx.exhaustive = False
    ctx.extra['exhaustive_note'] = ('fault plans are exhaustive (every prefix pattern per request) for the %d scripts with at most %d '
                                    'requests; discovery plans exhaustive for the small networks counted in discovery_exhaustive_networks'
                                    % (stats['plans_exhaustive_scripts'], upto))


def retry_direct(ctx):
    """bardolph.lib.retry.tries against Lights/Retry.tries: every bound 0..5 and every outcome
    stream of length <= 6 (beyond the end every attempt succeeds)."""
    from bardolph.lib.retry import tries

    class Boom(Exception):
        pass
    cases = [(n, list(bits)) for n in range(0, 6) for k in range(0, 7) for bits in itertools.product([True, False], repeat=k)]
    got = []
    for n, stream in cases:
        state = {'i': 0, 'outs': []}

        @tries(n, Boom, 0)
        def call():
            i = state['i']
            state['i'] += 1
            ok = stream[i] if i < len(stream) else True
            state['outs'].append(ok)
            if not ok:
                raise Boom('attempt %d' % i)
            return 1
        try:
            r = call()
            got.append('%s%d,%d,%d,%s' % ('G' if r == 0 else 'A', r, state['i'], max(0, len(stream) - state['i']),
                                          ''.join('T' if o else 'F' for o in state['outs'])))
        except Exception as ex:   # pragma: no cover
            got.append('X' + type(ex).__name__)
    files = ['Eval vm_compute in (model_tries_cases %s).\n'
             % coq_list(['(%d%%nat, %s)' % (n, coq_list(['true' if b else 'false' for b in st])) for n, st in part])
             for part in chunks(cases, 400)]
    res = common.run_cases('c12try', 'From Bardolph Require Import Lights.Retry Run.C12Model.', files)
    model = []
    for ok, strs, log in res:
        if not ok or len(strs) != 1:
            raise RuntimeError('coq evaluation of model_tries_cases failed: %s' % log[-800:])
        model += strs[0].split(';')[:-1]
    bad = 0
    for (n, st), g, m in zip(cases, got, model):
        ctx.count()
        if any(not b for b in st[:max(n, 1)]):
            ctx.nontriv(('tries', n, tuple(st)))
        if g != m:
            bad += 1
            if bad <= 2:
                ctx.broken_tie('correspondence', 'retry.tries vs model', {'num_tries': n, 'outcomes': st, 'implementation': g, 'model': m})
        attempts = int(g.split(',')[1]) if g[0] in 'AG' else 0
        if g[0] in 'AG' and attempts > n and n >= 1:
            ctx.counterexample('C12/tries-exceeds-its-bound', 'tries(%d, ...) made %d attempts on outcomes %s' % (n, attempts, st),
                               {'num_tries': n, 'outcomes': st})
    ctx.extra['retry_direct_cases'] = len(cases)


def brief(pop):
    return [(p['name'], p['group'], p['location'], p['kind']) + ((p['zones'],) if p['kind'] == 'multizone' else
                                                                  (p['height'], p['width']) if p['kind'] == 'matrix' else ()) for p in pop]


def judge_discovery(ctx, env, pop, dplan, d, before_nonempty=False):
    """Oracle (4) on one observed discover() call; returns True when a counterexample was reported."""
    replay = {'population': pop, 'discovery_plan': sorted(dplan), 'script': None}
    if d['end'] == 'R':
        t, msg = d['exception']
        silent_mz = [p['name'] for p in pop if p['kind'] == 'multizone'
                     and all((p['name'], 'get_zones', i) in dplan for i in range(RETRY_BOUND))]
        sig = 'C12/discover-raises-on-silent-multizone' if (t == 'TypeError' and silent_mz) else 'C12/discover-raises-' + t
        ctx.counterexample(sig, 'LightSet.discover() raises %s: %s on network %s under fault plan %s'
                           % (t, msg, brief(pop), sorted(dplan)), replay)
        return True
    if d['end'] == '?':
        ctx.counterexample('C12/discover-result-not-bool', 'LightSet.discover() returns %s' % d['exception'][1], replay)
        return True
    if d['end'] == 'F' and d['before'] != d['after']:
        ctx.counterexample('C12/failed-discover-changes-directory', 'a failed discovery changes the directory from %s to %s (network %s, plan %s)'
                           % (d['before'], d['after'], brief(pop), sorted(dplan)), replay)
        return True
    if any(len(r['outcomes']) > RETRY_BOUND for r in d['requests']):
        ctx.counterexample('C12/more-than-three-attempts', 'discovery of %s under %s attempts a request more than three times' % (brief(pop), sorted(dplan)), replay)
        return True
    return False


def coq_view(view):
    return coq_list(['(%s, (%s, %s))' % (coq_str(n), coq_z(d), coq_z(c)) for n, d, c in view])


def discovery_cases(ctx, thorough):
    """First discovery fault-free on net1, then the network changes (labels, groups, kinds, new and
    vanished devices) and a second discovery runs under a fault plan.  Observed: result / exception,
    the directory before and after, the requests."""
    rng = ctx.rng
    spec_items, model_items, info = [], [], {}
    did = 0
    n_nets = 120 if thorough else 24
    directed = [
        # one known light, then a network with one new device of each kind: every prefix pattern
        ([SEED_POP[0]], [dict(SEED_POP[1])]),
        ([SEED_POP[0]], [dict(SEED_POP[2])]),
        ([SEED_POP[0]], [dict(SEED_POP[3])]),
    ]
    for ni in range(n_nets):
        n1 = rng.choice([1, 1, 2, 3])
        net1 = gen_population(rng, n1)
        # the changed network: same physical devices (ids) with some edits, plus maybe a new one
        net2 = []
        for p in net1:
            if rng.random() < 0.2:
                continue                      # vanished
            q = dict(p)
            if rng.random() < 0.3:
                q['group'] = rng.choice(GROUPS)
            if rng.random() < 0.2:
                q['name'] = rng.choice([n for n in NAMES if n not in [x['name'] for x in net1 + net2]])
            net2.append(q)
        if rng.random() < 0.5 or not net2:
            name = rng.choice([n for n in NAMES if n not in [x['name'] for x in net1 + net2]])
            extra = gen_population(rng, 1)[0]
            extra.update({'id': len(net1), 'name': name})
            net2.append(extra)
        force_exhaustive = False
        if ni < len(directed):
            net1, net2 = directed[ni]
            force_exhaustive = thorough or ni < 2
        env = Env(net1)
        if env.discovery['end'] != 'T':
            judge_discovery(ctx, env, net1, set(), env.discovery)
            continue
        # fault-free second discovery to learn its request list
        probe = Env(net1)
        base = probe.discover(fake_lifx.Network(net2), set())
        reqs = [(r['label'], r['kind']) for r in base['requests']]
        plans = []
        if force_exhaustive or (len(reqs) <= 9 and ni >= len(directed) and (thorough or ni % 8 == 3)):
            for ks in itertools.product(*[prefix_choices(k) for (_, k) in reqs]):
                if any(ks):
                    plans.append(prefix_plan(reqs, ks))
            ctx.extra['discovery_exhaustive_networks'] = ctx.extra.get('discovery_exhaustive_networks', 0) + 1
        else:
            for _ in range(40 if thorough else 14):
                ks = [rng.choice(list(prefix_choices(k))) if rng.random() < 0.15 else 0 for (_, k) in reqs]
                if any(ks):
                    plans.append(prefix_plan(reqs, ks))
            # every size query silent
            plans.append({(l, k, i) for (l, k) in reqs if k in ('get_zones', 'get_chain') for i in range(RETRY_BOUND)})
        plans = [p for p in plans if p]
        for plan in [set()] + plans:
            e = Env(net1) if plan else probe
            d = base if not plan else e.discover(fake_lifx.Network(net2), plan)
            ids = dict(e.ids)
            did += 1
            ctx.count()
            if plan:
                ctx.nontriv(('disc', ni, tuple(sorted(plan))))
            info[did] = {'network_before': net1, 'network': net2, 'discovery_plan': sorted(plan), 'script': None}
            info[did]['reported'] = judge_discovery(ctx, e, net2, plan, d)
            endc = {'T': 'Reported true', 'F': 'Reported false', 'R': 'Raised', '?': 'Raised'}[d['end']]
            spec_items.append('mkobsd %d (%s) %s %s %s' % (did, endc, coq_view(d['before']), coq_view(d['after']), coq_trace(ids, d['requests'])))
            want = 'D%s|%s|%s|%s' % (d['end'], show_trace(ids, d['requests']), show_view(d['before']), show_view(d['after']))
            model_items.append('(%d, %s, %s, %s, %s)' % (did, coq_network(net1), coq_network(net2), coq_plan(ids, plan), coq_str(want)))
    ctx.extra['discovery_cases'] = did
    return spec_items, model_items, info


def replay(ctx, payload):
    inp = payload.get('input', {})
    pop = inp.get('population') or inp.get('network')
    dplan = {tuple(k) for k in inp.get('discovery_plan', [])}
    if inp.get('network_before'):
        env = Env(inp['network_before'])
        d = env.discover(fake_lifx.Network(pop), dplan)
    else:
        env = Env(pop, dplan)
        d = env.discovery
    print('discovery under %s: %s %s; directory %s' % (sorted(dplan), d['end'], d['exception'] or '', d['after']))
    if d['end'] in ('R', '?') or (d['end'] == 'F' and d['before'] != d['after']):
        return False
    script = inp.get('script')
    if not script or d['end'] != 'T':
        return True
    plan = {tuple(k) for k in inp.get('fault_plan', [])}
    cmds = inp.get('commands', [])
    obs = env.run(script, plan)
    stripped = None
    if cmds:
        norm = []
        for c in inp['commands']:
            c = list(c)
            if c[0] in ('color', 'power'):
                c[1] = tuple(c[1])
            if c[0] == 'matrix':
                c[2] = None if c[2] is None else tuple(c[2])
                c[3] = None if c[3] is None else tuple(c[3])
            norm.append(tuple(c))
        stripped = render([c for c in norm if not is_idle(pop, c, sizeless_lights(env, pop, dplan))])
    free = env.run(stripped if stripped is not None else script)
    healthy = [l for l in env.net.labels() + [LAN] if not any(k[0] == l for k in plan)]
    v = py_judge(env.ids, healthy, obs, free, payloads=not dirty_run(obs))
    print('script %r under %s: %s; requests %s' % (script, sorted(plan), 'aborted: %s' % (obs['abort'],) if obs['abort'] else 'finished',
                                                    show_trace(env.ids, obs['requests'])))
    print('verdict: %s' % (v or 'ok'))
    return not v
