"""C09 -- a stop request ends a running script promptly in every state and is never lost.

The REAL ScriptJob / Machine / Clock / Agent / JobControl run on real threads under the
deterministic scheduler of harness/sched_clock.py (virtual time, every shared access a yield
point).  Threads: R (the requester), J1, J2 ... (job threads), K1, K2 ... (clock threads).

Scenarios (R's program):
  agent     R starts the job with Agent(job).execute(), later calls agent.request_stop(), waits
            for the job thread, starts the SAME job (same Machine, same Clock) again and waits.
  control   R queues two jobs on a JobControl, later calls stop_current() / stop_job(name) /
            the three calls of WebApp.stop_all(), then waits for quiescence.
Script shapes: straight-line, infinite repeat, timed (`time N`), `time at HH:MM` (far away).

Schedules: SYSTEMATIC -- a base run (R parked in front of the stop) under several policies; for
every step k of the base run after Agent.execute returned, the run is repeated with the same
first k steps, then the stop request executed without interruption, then a continuation
policy; RANDOM -- lists of integers with R taking part like every other thread (so the two
writes of Machine.stop() interleave with everything).

Oracle (Time/StopSpec.v, evaluated in Coq on the abstracted event sequence, and checked directly
on the log): after stop() has completed the job thread issues no device command except within
the instruction in progress; the job thread terminates (no deadlock, no unbounded wait:
`promptly` = the instruction in progress plus at most one wake-up, counted in the job thread's
own steps); the next queued job starts and runs to completion; stop-all leaves the queue
empty and nothing further starts; a later run of the same job is complete.
Correspondence: the sequence of (thread, shared access, value) of the real run equals what the
interleaving model Time/Stop.v produces for the same sequence of thread choices.
"""
import random

import common
from common import coq_list, coq_str, coq_z, coq_bool
import sched_clock as sc
from props import c10

MODEL_TARGETS = ['Run/C09Model.vo']
EXTRA_TARGETS = ['Run/C09Spec.vo', 'Run/C09Model.vo']
T0 = c10.T0
TICK = 0.5
OWN_BUDGET = 300            # own steps a job thread gets after the stop before "does not end"

SHAPES = {
    'straight': 'hue 120 saturation 50 brightness 50 kelvin 2700\nset all\non all\nset all\noff all\n',
    'repeat': 'hue 120 saturation 50 brightness 50 kelvin 2700\nrepeat begin set all on all end\n',
    'timed': 'hue 120 saturation 50 brightness 50 kelvin 2700\ntime 1 set all on all set all\n',
    'time-at': 'hue 120 saturation 50 brightness 50 kelvin 2700\nset all time at 3:15 on all set all\n',
    'mixed': 'hue 120 saturation 50 brightness 50 kelvin 2700\nset all time 1 on all time at 3:15 set all\n',
}
# device commands of one complete run (None: the run does not end by itself)
COMPLETE = {'straight': 4, 'repeat': None, 'timed': 3, 'time-at': None, 'mixed': None}
SECOND = 'hue 20 saturation 50 brightness 50 kelvin 2700\nset all\non all\ntime 1 set all\n'
SECOND_COMPLETE = 3


def env():
    first = not c10._env
    c10.env(TICK)
    if first:
        from bardolph.controller.script_job import ScriptJob
        o_rs = ScriptJob.request_stop

        def request_stop(self):
            s = sc.active()
            if s is not None:
                s.mark('request_stop', getattr(self, '_verif_name', '?'))
            return o_rs(self)
        ScriptJob.request_stop = request_stop
        o_ex = ScriptJob.execute

        def execute(self):
            # annotations only (marks are not yield points): when a job's script starts and ends on its thread
            s = sc.active()
            if s is not None:
                s.mark('job_begin', getattr(self, '_verif_name', '?'))
            try:
                return o_ex(self)
            finally:
                s = sc.active()
                if s is not None:
                    s.mark('job_end', getattr(self, '_verif_name', '?'))
        ScriptJob.execute = execute


# ---------------------------------------------------------------------------
# one run

class Run:
    """R's program and the policies around it."""

    def __init__(self, scenario, shape, stop_kind='request_stop', second=True):
        self.scenario = scenario
        self.shape = shape
        self.stop_kind = stop_kind
        self.second = second
        self.phase = 'init'
        self.result = {}


def make_run(run, schedule, policy, max_steps):
    """Build the scheduler, the objects and R's program."""
    env()
    from bardolph.controller.script_job import ScriptJob
    from bardolph.lib.job_control import Agent, JobControl
    s = sc.Sched(schedule=schedule, policy=policy, max_steps=max_steps, wall_guard=30.0, t0=T0)
    job = ScriptJob.from_string(SHAPES[run.shape])
    assert job.program is not None, job.compile_errors
    job._verif_name = 'first'
    wrap_instructions(job)
    run.job = job
    if run.scenario == 'agent':
        def requester():
            agent = Agent(job, lambda a: s.mark('callback', 1))
            agent.execute()
            run.phase = 'started'
            s.mark('started')
            s.point(('stop-call',))
            run.phase = 'stopping'
            s.mark('stopping')
            agent.request_stop()
            run.phase = 'stopped'
            s.mark('stopped')
            agent._thread.join()
            s.mark('joined')
            if run.second:
                run.phase = 'second'
                agent2 = Agent(job, lambda a: s.mark('callback', 2))
                agent2.execute()
                s.mark('second-started')
                if COMPLETE[run.shape] is None:
                    # a script that does not end by itself: wait until it has got somewhere, stop it
                    s.point(('await-progress',), blocker=lambda: progress(s, 'J2') or not agent2._thread._ct or agent2._thread._ct.finished)
                    s.mark('second-progress', progress(s, 'J2'))
                    agent2.request_stop()
                    s.mark('second-stopped')
                agent2._thread.join()
                s.mark('second-joined')
            run.phase = 'end'
    else:
        jc = JobControl()
        jc._background = YDict()
        run.jc = jc
        job2 = ScriptJob.from_string(SECOND)
        job2._verif_name = 'second'
        run.job2 = job2

        def requester():
            if run.scenario == 'control' and run.stop_kind in ('stop_current', 'stop_all'):
                # a stop request while nothing runs is harmless: whatever is queued afterwards runs and can be stopped as usual
                if run.stop_kind == 'stop_current':
                    jc.stop_current()
                else:
                    import types
                    from web.web_app import WebApp
                    WebApp.stop_all(types.SimpleNamespace(_jobs=jc))
                s.mark('idle-stop-done')
            if run.scenario == 'background':
                # the first job runs in the background (spawn_job), the second is the active foreground job
                jc.spawn_job(job, 'first')
                jc.add_job(job2, 'second')
            else:
                jc.add_job(job, 'first')
                jc.add_job(job2, 'second')
            run.phase = 'started'
            s.mark('started')
            s.point(('stop-call',))
            run.phase = 'stopping'
            s.mark('stopping')
            try:
                if run.stop_kind == 'stop_current':
                    r = jc.stop_current()
                elif run.stop_kind == 'stop_job':
                    r = jc.stop_job('first')
                elif run.stop_kind == 'stop_background':
                    r = jc.stop_background()
                else:   # the real WebApp.stop_all, on an object that has just the controller
                    import types
                    from web.web_app import WebApp
                    r = WebApp.stop_all(types.SimpleNamespace(_jobs=jc))
                run.result['stop_returned'] = r
            except Exception as ex:
                run.result['stop_raised'] = '%s: %s' % (type(ex).__name__, ex)
                s.mark('stop-raised', run.result['stop_raised'])
            run.phase = 'stopped'
            s.mark('stopped')
            if run.scenario == 'control' and run.stop_kind in ('stop_current', 'stop_job'):
                # a further job queued while the stopped one may still be winding down: it waits its turn
                job3 = ScriptJob.from_string(SECOND)
                job3._verif_name = 'third'
                jc.add_job(job3, 'third')
                s.mark('third-queued')
            run.phase = 'end'
    s.spawn(requester, 'R')
    return s


def progress(s, job):
    """Number of device commands the job thread has issued."""
    return len([1 for (step, lab, kind, name, value) in s.log if lab == job and kind == 'mark' and name == 'device'])


class YDict(dict):
    """dict whose reads/writes are yield points (JobControl._background)."""

    def _pt(self, name):
        s = sc.active()
        if s is not None:
            s.point(('bg.' + name,))
            s.note('bg.' + name, None, dict.__len__(self))

    def __setitem__(self, k, v):
        self._pt('set')
        dict.__setitem__(self, k, v)

    def __delitem__(self, k):
        self._pt('del')
        dict.__delitem__(self, k)

    def __contains__(self, k):
        self._pt('in')
        return dict.__contains__(self, k)

    def __len__(self):
        self._pt('len')
        return dict.__len__(self)

    def values(self):
        self._pt('values')
        return dict.values(self)


def r_index(r):
    for i, t in enumerate(r):
        if t != sc.TIME and t.label == 'R':
            return i
    return None


def base_policy(run, inner):
    """R runs only while it has not reached the stop call; everything else by `inner`."""
    def pol(s, r):
        ri = r_index(r)
        if ri is not None and run.phase == 'started' and len(r) > 1:
            sub = [t for i, t in enumerate(r) if i != ri]
            k = inner(s, sub) % len(sub)
            return r.index(sub[k])
        return inner(s, r)
    return pol


def inject_policy(run, k_stop, cont):
    """After the replayed prefix: R alone until stop() has returned, then `cont`."""
    def pol(s, r):
        ri = r_index(r)
        if ri is not None and run.phase in ('started', 'stopping'):
            return ri
        return cont(s, r)
    return pol


def execute(run, schedule, policy, max_steps, own_budget=OWN_BUDGET):
    """Run to the end: all threads finished, or -- once the stop request has completed -- some
    job thread has taken `own_budget` steps of its own without finishing (`promptly` is
    measured in the job thread's own steps, so unfair-looking schedules cost nothing), or only
    clock threads are left."""
    s = make_run(run, schedule, policy, max_steps)
    mark = {}
    counts = {}

    def over(sch):
        if sch.chosen:
            lab = sch.chosen[-1]
            counts[lab] = counts.get(lab, 0) + 1
        if run.phase in ('stopped', 'second', 'end'):
            for t in sch.threads:
                if t.label.startswith('J') and t.started and not t.finished:
                    base = mark.setdefault(('at', t.label, run.phase == 'second'), counts.get(t.label, 0))
                    if counts.get(t.label, 0) - base > (5 * own_budget if run.phase == 'second' else own_budget):
                        return True
        rest = [t for t in sch.threads if t.started and not t.finished]
        if rest and all(t.label.startswith('K') for t in rest):
            mark.setdefault('only_clocks', sch.step)
            return sch.step - mark['only_clocks'] > 40
        mark.pop('only_clocks', None)
        return False
    s.done_when = over
    with sc.use(s):
        outcome = s.run()
    return s, outcome


# ---------------------------------------------------------------------------
# judging a run from its log

def judge(run, s, outcome):
    """Returns (list of (signature, text), facts)."""
    log = s.log
    out = []
    facts = {'outcome': outcome}
    idx = {}
    for i, (step, lab, kind, name, value) in enumerate(log):
        if kind == 'mark' and lab == 'R' and name not in idx:
            idx[name] = i
    threads = {t.label: t for t in s.threads}
    alive = {lab: (t.started and not t.finished_at_end) for lab, t in threads.items()}
    dev = [(i, lab) for i, (step, lab, kind, name, value) in enumerate(log) if kind == 'mark' and name == 'device']
    ndev = {}
    for i, lab in dev:
        ndev[lab] = ndev.get(lab, 0) + 1
    facts['devices'] = ndev
    if run.result.get('stop_raised'):
        out.append(('C09/stop-current-raises', 'the stop request raised %s in the requesting thread' % run.result['stop_raised']))
    for t in s.threads:
        if t.error is not None:
            if isinstance(t.error, IndexError) and 'empty deque' in str(t.error):
                out.append(('C09/stop-all-races-with-job-start', 'thread %s: %r -- clear_queue() emptied the queue between the length test and popleft() of _run_next_job'
                            % (t.label, t.error)))
            else:
                out.append(('C09/exception-in-thread', 'thread %s: %r' % (t.label, t.error)))
    if 'stopped' not in idx:
        if outcome == 'deadlock':
            out.append(('C09/deadlock-before-stop', 'deadlock before the stop request completed: %s' % (s.blocked,)))
        return out, facts
    # the stop requests that reached a machine: (log index of the completion of Machine.stop, job thread)
    stops = []
    reqs = [(i, value[1]) for i, (step, lab, kind, name, value) in enumerate(log) if kind == 'mark' and name == 'request_stop' and lab == 'R']
    for n, (i, target) in enumerate(reqs):
        # stop() has completed when the requester is back from the call: its next mark
        done = next((j for j in range(i + 1, len(log)) if log[j][1] == 'R' and log[j][2] == 'mark'
                     and log[j][3] in ('stopped', 'second-stopped')), None)
        if run.scenario == 'agent':
            jl = 'J%d' % (n + 1)
        else:
            jl = 'J1' if target == 'first' else 'J2'
        stops.append((done, jl, target))
    facts['targets'] = [t for (_, _, t) in stops]
    for (i_done, jl, target) in stops:
        if i_done is None:
            continue
        # 1. no device command after the stop except within the instruction in progress
        after = [i for i, lab in dev if lab == jl and i > i_done]
        reads = [i for i, (step, lab, kind, name, value) in enumerate(log)
                 if i > i_done and lab == jl and kind == 'read' and name == '_keep_running']
        late = [i for i in after if reads and i > reads[0]]
        facts.setdefault('devices_after_stop', []).append(len(after))
        if late:
            early = not any(lab == jl and kind == 'read' and name == '_keep_running' for (step, lab, kind, name, value) in log[:i_done])
            out.append(('C09/early-stop-lost' if early else 'C09/commands-after-stop',
                        '%d device command(s) issued by job thread %s after stop() had completed and after it had looked at the run flag again%s'
                        % (len(late), jl, ' (the stop completed before its first look at the flag)' if early else '')))
        # 2. the job thread terminates, promptly
        j = threads.get(jl)
        if j is None:
            continue
        if alive.get(jl):
            where = doing(log, jl)
            since = s.step - log[i_done][0]
            clocks_alive = any(alive.get(l) for l in alive if l.startswith('K'))
            if outcome == 'deadlock' or (j.pending_at_end and j.pending_at_end[0] == 'ev_wake' and not clocks_alive):
                out.append(('C09/lost-wakeup', 'after the stop job thread %s is blocked for ever in Event.wait() (inside %s): no clock thread is left to set the event; blocked: %s'
                            % (jl, where, s.blocked or [(jl, j.pending_at_end)])))
            elif where == 'wait_until':
                out.append(('C09/time-at-unstoppable', 'job thread %s is still waiting for the time of day %d scheduler steps after stop() completed' % (jl, since)))
            elif where == 'pause_for':
                out.append(('C09/delay-not-interrupted', 'job thread %s is still in its timed delay %d scheduler steps after stop() completed' % (jl, since)))
            elif not late:
                out.append(('C09/job-does-not-end', 'job thread %s has not finished %d scheduler steps after stop() completed (%s)' % (jl, since, where)))
        else:
            own = [(kind, name) for (step, lab, kind, name, value) in log[i_done:] if lab == jl and kind != 'mark']
            # up to the end of Machine.run: the write of the run flag in `finally` (repaired) or the last access
            facts.setdefault('own_steps_after_stop', []).append(len(own))
            wakes = len([1 for (k, n) in own if k == 'ev_wake'])
            facts.setdefault('wakeups_after_stop', []).append(wakes)
            if wakes > 1:
                out.append(('C09/not-prompt', 'job thread %s needed %d wake-ups after stop() completed' % (jl, wakes)))
    # 3. a later run / the next job
    if run.scenario == 'agent' and run.second and not alive.get('J1') and 'joined' in idx:
        want = COMPLETE[run.shape]
        got = ndev.get('J2', 0)
        r_write = next((i for i, e in enumerate(log) if e[1] == 'R' and e[2] == 'write' and e[3] == '_keep_running'), None)
        j_end = next((i for i, e in enumerate(log) if e[1] == 'J1' and e[2] == 'write' and e[3] == '_keep_going' and e[4] is False), None)
        late_stop = r_write is not None and j_end is not None and r_write > j_end
        bad = None
        if 'second-joined' not in idx:
            if not out:
                bad = 'has not ended (%d device commands so far)' % got
        elif want is not None and got != want:
            bad = 'issued %d of its %d device commands' % (got, want)
        elif want is None and got < 1:
            bad = 'issued no device command at all'
        if bad:
            out.append(('C09/late-stop-poisons-next-run' if late_stop else 'C09/stop-affects-later-run',
                        'a later run of the same job %s%s' % (bad, '; the stop request arrived while the first run was finishing (after its clock.stop())' if late_stop else '')))
    if run.scenario == 'background':
        # the background job is the target; the foreground job next to it is not touched
        got1, got2 = ndev.get('J1', 0), ndev.get('J2', 0)
        targets = facts['targets']
        if 'second' in targets:
            out.append(('C09/stop-hit-wrong-job', 'a stop aimed at the background job was delivered to the foreground job'))
        if 'first' not in targets:
            facts['undelivered'] = True
            if alive.get('J1') and COMPLETE[run.shape] is None and not run.result.get('stop_raised'):
                out.append(('C09/background-stop-not-delivered', 'the stop request (%s) reached no job although the background job was running next to an active foreground job (returned %r)'
                            % (run.stop_kind, run.result.get('stop_returned'))))
        if 'J2' in threads and not alive.get('J2') and 'second' not in targets and got2 != SECOND_COMPLETE:
            out.append(('C09/stop-affects-other-job', 'the foreground job issued %d of its %d device commands after the background job was stopped' % (got2, SECOND_COMPLETE)))
    if run.scenario in ('control', 'background'):
        # queued jobs run one at a time, also around a stop: no job's script starts while another queued job's script is running
        running = {}
        for i, (step, lab, kind, name, value) in enumerate(log):
            if kind == 'mark' and name in ('job_begin', 'job_end') and not (run.scenario == 'background' and value[1] == 'first'):
                if name == 'job_begin':
                    if running:
                        out.append(('C09/stopped-job-overlaps-next', 'the script of job %r starts on thread %s while the script of job %r is still running (stop kind %s)'
                                    % (value[1], lab, sorted(running)[0], run.stop_kind)))
                        break
                    running[value[1]] = lab
                else:
                    running.pop(value[1], None)
    if run.scenario == 'control':
        got1, got2 = ndev.get('J1', 0), ndev.get('J2', 0)
        q_len = len(list(run.jc.get_queued()))
        facts['queue_len'] = q_len
        targets = facts['targets']
        if run.stop_kind == 'stop_all':
            started_after = [e for e in log[idx['stopped']:] if e[2] == 'thread_start' and str(e[3]).startswith('J')]
            if started_after:
                out.append(('C09/stop-all-next-job-started', 'stop-all: job thread %s was started after stop-all had returned (queue length then: %d)'
                            % (started_after[0][3], q_len)))
            elif 'J2' in threads and was_queued_at_clear(log):
                out.append(('C09/stop-all-next-job-started', 'stop-all: the second job was still queued when the queue was cleared, yet it was started'))
            if q_len != 0:
                out.append(('C09/stop-all-queue-not-empty', 'stop-all left %d job(s) in the queue' % q_len))
            # once stop-all has taken hold of the controller (its first lock acquisition) nothing further starts: the queue is emptied
            # before anything is stopped, so a job that ends meanwhile finds no successor
            hold = next((i for i in range(idx['stopping'], len(log)) if log[i][1] == 'R' and log[i][2] == 'acquire'), None)
            if hold is not None and not out:
                late = [e for e in log[hold:] if e[2] == 'thread_start' and str(e[3]).startswith('J')]
                if late:
                    out.append(('C09/stop-all-next-job-started', 'stop-all: job thread %s was started after stop-all had taken hold of the controller' % late[0][3]))
        elif 'first' in targets:
            if not alive.get('J1'):
                if 'J2' not in threads:
                    out.append(('C09/next-job-not-started', 'the next queued job was not started after the current one was stopped'))
                elif alive.get('J2'):
                    if not out:
                        out.append(('C09/next-job-does-not-end', 'the next queued job has not ended (%d device commands)' % got2))
                elif got2 != SECOND_COMPLETE:
                    out.append(('C09/next-job-incomplete', 'the next queued job issued %d of its %d device commands' % (got2, SECOND_COMPLETE)))
        elif 'second' in targets:
            if COMPLETE[run.shape] is not None and got1 != COMPLETE[run.shape]:
                out.append(('C09/stop-hit-wrong-job', 'the stop was delivered to the second job, yet the first issued %d of its %d device commands' % (got1, COMPLETE[run.shape])))
        else:
            facts['undelivered'] = True
            if alive.get('J1') and COMPLETE[run.shape] is None and not run.result.get('stop_raised'):
                out.append(('C09/stop-not-delivered', 'the stop request reached no job although the first job was running (returned %r)' % run.result.get('stop_returned')))
    # a stop overwritten by the clock thread's own re-arming (D43): name it
    r_go = next((i for i, e in enumerate(log) if e[1] == 'R' and e[2] == 'write' and e[3] == '_keep_going'), None)
    if r_go is not None and any(e[1].startswith('K') and e[2] == 'write' and e[3] == '_keep_going' and e[4] is True for e in log[r_go:]):
        facts['clock_rearmed_after_stop'] = True
        out = [(('C09/stop-overwritten-by-clock-thread', t + ' -- the clock thread wrote _keep_going = True after the stop had cleared it')
                if sig in ('C09/delay-not-interrupted', 'C09/not-prompt') else (sig, t)) for (sig, t) in out]
    return out, facts


def was_early(log, idx, job):
    """The stop completed before the job thread had looked at the run flag for the first time."""
    i_stop = idx['stopped']
    return not any(lab == job and kind == 'read' and name == '_keep_running' for (step, lab, kind, name, value) in log[:i_stop])


def was_queued_at_clear(log):
    """True when q.clear removed something (the second job was still queued)."""
    n = None
    for (step, lab, kind, name, value) in log:
        if kind in ('q.append', 'q.popleft'):
            n = value
        if kind == 'q.clear':
            return bool(n)
    return False


def doing(log, job):
    """What the job thread is in the middle of, from its last enter/exit marks."""
    depth = []
    for (step, lab, kind, name, value) in log:
        if lab == job and kind == 'mark':
            if name in ('pf_enter', 'wu_enter'):
                depth.append('pause_for' if name == 'pf_enter' else 'wait_until')
            elif name in ('pf_exit', 'wu_exit') and depth:
                depth.pop()
    return depth[-1] if depth else 'instructions'


# ---------------------------------------------------------------------------
# abstraction of a real run for the Coq side

def wrap_instructions(job):
    """Annotate every instruction the machine executes (the dispatch table is an instance
    attribute; nothing in the tree under test is changed)."""
    m = job._machine
    for op, fn in list(m._fn_table.items()):
        def wrapped(fn=fn, op=op):
            s = sc.active()
            if s is not None:
                s.mark('instr', op.name)
            return fn()
        m._fn_table[op] = wrapped


TID = {'R': 'TR'}


def tid_term(label):
    if label == 'R':
        return 'TR'
    return '(T%s %d)' % (label[0], int(label[1:]) - 1)


def tid_show(label):
    return 'R' if label == 'R' else '%s%d' % (label[0], int(label[1:]) - 1)


def act_of(kind, name, value):
    """(token as the Coq side prints it, Coq term)"""
    b = lambda v: ('1', 'true') if v else ('0', 'false')
    if kind == 'write' and name == '_keep_running':
        return 'wrun' + b(value)[0], '(AWRun %s)' % b(value)[1]
    if kind == 'read' and name == '_keep_running':
        return 'rrun' + b(value)[0], '(ARRun %s)' % b(value)[1]
    if kind == 'write' and name == '_keep_going':
        return 'wgo' + b(value)[0], '(AWGo %s)' % b(value)[1]
    if kind == 'read' and name == '_keep_going':
        return 'rgo' + b(value)[0], '(ARGo %s)' % b(value)[1]
    simple = {('write', '_cue_time'): ('wcue', 'AWCue'), ('read', '_cue_time'): ('rcue', 'ARCue'),
              ('write', '_start_time'): ('wstart', 'AWStart'), ('read', '_start_time'): ('rstart', 'ARStart')}
    if (kind, name) in simple:
        return simple[(kind, name)]
    if kind == 'time':
        return 'time', 'ATime'
    if kind == 'now':
        return 'now', 'ANow'
    if kind == 'dev':
        return 'dev', '(ADev 0)'
    if kind == 'ev_wait':
        return 'evwait' + b(value == 'set')[0], '(AEvWait %s)' % b(value == 'set')[1]
    one = {'ev_wake': ('evwake', 'AEvWake'), 'sleep': ('sleep', 'ASleep'), 'wake': ('wake', 'AWake'),
           'ev_set': ('set', 'ASet'), 'ev_clear': ('clear', 'AClear'), 'thread_start': ('spawn', 'ASpawn'), 'join': ('join', 'AJoin')}
    if kind in one:
        return one[kind]
    return None


def abstract(s):
    """The run as the model sees it: per scheduler step (TIME steps dropped) the thread and the
    access; None when the run contains something the model does not describe."""
    notes = {}
    for (step, lab, kind, name, value) in s.log:
        if kind in ('mark', 'advance', 'raise'):
            continue
        notes.setdefault(step, []).append((lab, kind, name, value))
    events = []
    for i, lab in enumerate(s.chosen):
        if lab == sc.TIME:
            continue
        ns = notes.get(i, [])
        if len(ns) > 1:
            return None
        if not ns:
            events.append((lab, ('-', 'ANone')))
            continue
        a = act_of(ns[0][1], ns[0][2], ns[0][3])
        if a is None or ns[0][0] != lab:
            return None
        events.append((lab, a))
    return events


def job_streams(s):
    """Per job thread: the executed instruction stream (model instr terms) and the oracle bits."""
    out = {}
    cur = {}
    last = {}
    for (step, lab, kind, name, value) in s.log:
        if not lab.startswith('J'):
            continue
        st = out.setdefault(lab, {'instrs': [], 'oracle': [], 'pending_now': False, 'last_rrun': None, 'natural_end': False})
        if kind == 'read' and name == '_keep_running' and not st.get('ended'):
            st['last_rrun'] = value
        if kind == 'write' and name == '_keep_going' and value is False and not st.get('ended'):
            st['ended'] = True
            st['natural_end'] = bool(st['last_rrun'])
        if kind == 'mark':
            nm = name
            if nm == 'instr':
                st['instrs'].append('IPlain')
            elif nm == 'device' and st['instrs']:
                st['instrs'][-1] = '(IDev 0)' if st['instrs'][-1] == 'IPlain' else 'UNSUPPORTED'
            elif nm == 'pf_enter' and st['instrs']:
                st['instrs'][-1] = 'IPause'
            elif nm == 'wu_enter' and st['instrs']:
                st['instrs'][-1] = 'IWaitUntil'
            continue
        if st['pending_now']:
            # the access after datetime.now() tells whether the pattern matched
            st['oracle'].append(not (kind == 'read' and name == '_keep_going'))
            st['pending_now'] = False
        v = last.setdefault(lab, {})
        if kind == 'time':
            v['t'] = value
            v['seq'] = 1
        elif kind == 'read' and name == '_start_time' and v.get('seq') == 1:
            v['start'] = value
            v['seq'] = 2
        elif kind == 'read' and name == '_cue_time' and v.get('seq') == 2:
            st['oracle'].append(v['t'] - v['start'] < value)
            v['seq'] = 0
        else:
            v['seq'] = 0
        if kind == 'now':
            st['pending_now'] = True
    return out


def model_program(run, s):
    """R's program as a Coq term, from what R actually did."""
    streams = job_streams(s)
    ops = ['RBegin']
    nj = 0
    for (step, lab, kind, name, value) in s.log:
        if lab != 'R':
            continue
        if kind == 'thread_start':
            nj += 1
            st = streams.get('J%d' % nj, {'instrs': [], 'oracle': []})
            if 'UNSUPPORTED' in st['instrs']:
                return None
            # a run that was cut short: more instructions would have followed (sentinels)
            instrs = st['instrs'] + ([] if st.get('natural_end') else ['(IDev 9)', '(IDev 9)'])
            ops.append('(RSpawn (mkScript %s []) %s)' % (coq_list(instrs), coq_list([coq_bool(b) for b in st['oracle']])))
        elif kind == 'write' and name == '_keep_running':
            ops.append('(RPrep true)' if value else 'RWRun')
        elif kind == 'write' and name == '_keep_going':
            ops.append('RWGo')
        elif kind == 'join':
            ops.append('(RJoin %d)' % (int(name[1:]) - 1))
    # steps of R without an access (the call gates) are RNop: placed from the abstract trace
    return ops


def model_terms(run, s):
    ev = abstract(s)
    if ev is None:
        return None
    ops = model_program(run, s)
    if ops is None:
        return None
    # insert RNop for R's access-free steps after the first (RBegin)
    r_events = [a for (lab, a) in ev if lab == 'R']
    prog = []
    it = iter(ops[1:])
    first = True
    for (tok, term) in r_events:
        if tok == '-':
            prog.append('RBegin' if first else 'RNop')
        else:
            nxt = next(it, None)
            if nxt is None:
                return None
            prog.append(nxt)
        first = False
    prog += list(it)
    sched = coq_list([tid_term(lab) for (lab, a) in ev])
    expected = ''.join('%s:%s ' % (tid_show(lab), a[0]) for (lab, a) in ev)
    trace_term = coq_list(['(%s, %s)' % (tid_term(lab), a[1]) for (lab, a) in ev])
    return coq_list(prog), sched, expected, trace_term


# ---------------------------------------------------------------------------
# the check

BASES = {'rr': lambda: sc.rr_policy,
         'job-first': lambda: sc.prio_policy(['R', 'J', 'K', 'T']),
         'clock-late': lambda: sc.prio_policy(['R', 'J', 'T', 'K'], patience=45)}
CONTS = {'rr': lambda: sc.rr_policy,
         'clock-first': lambda: sc.prio_policy(['K', 'T', 'J', 'R'], patience=12),
         'job-first': lambda: sc.prio_policy(['J', 'R', 'K', 'T'])}
BASE_STEPS = {'straight': 95, 'repeat': 50, 'timed': 95, 'time-at': 60, 'mixed': 95}


def base_run(scenario, shape, kind, base):
    run = Run(scenario, shape, kind)
    s, outcome = execute(run, [], base_policy(run, BASES[base]()), BASE_STEPS[shape])
    started = next((st for (st, lab, k, name, v) in s.log if k == 'mark' and name == 'started'), None)
    return s.effective, started


def injected_run(scenario, shape, kind, prefix, cont):
    run = Run(scenario, shape, kind)
    s, outcome = execute(run, prefix, inject_policy(run, len(prefix), CONTS[cont]()), len(prefix) + 8000)
    return run, s, outcome


def replay_payload(scenario, shape, kind, s):
    return {'scenario': scenario, 'shape': shape, 'stop_kind': kind, 'script': SHAPES[shape], 'schedule': list(s.effective),
            'note': 'schedule[i] %% len(runnable) picks the thread at step i; runnable = enabled threads in creation order (R, J1, K1, ...) then TIME'}


def report(ctx, scenario, shape, kind, s, verdicts, how):
    for sig, text in verdicts:
        ctx.counterexample(sig, '%s scenario, %s script, %s, %s: %s' % (scenario, shape, kind, how, text),
                           replay_payload(scenario, shape, kind, s))


def run(ctx):
    ctx.rule = ('one case = one run of the real ScriptJob/Machine/Clock (and JobControl) threads under one schedule with one stop '
                'position; non-trivial = the stop completed while the targeted job thread was alive; distinct = distinct '
                '(scenario, script shape, stop call, schedule)')
    ctx.assumptions += [
        'real-time latency and OS scheduling are not exhibited: "promptly" = at most %d steps of the job thread itself after stop() completed '
        '(the instruction in progress plus at most one wake-up), counted in scheduler steps under virtual time' % 17,
        'every shared access of Machine/Clock/JobControl and every device command is a yield point; single accesses are atomic (DESIGN 8)',
        'the 1 s lock-acquisition time-out of JobControl never expires (DESIGN 8); Event.wait(1.0) is a time-out in virtual time',
        'JobControl-level statements (next job starts, stop-all) are proved over an abstract controller and checked on the real JobControl by the runs',
    ]
    ctx.trusted += ['harness/sched_clock.py (deterministic scheduler, controlled Thread/Event/RLock/deque, virtual time)']
    env()
    rng = ctx.rng
    thorough = ctx.thorough()
    # ---------------- wiring: a stop is aimed at one machine ----------------
    # With the production binding (bardolph.lib.clock.configure, as light_module.configure does) every Machine gets a clock
    # of its own; Machine.stop() stops the clock of its machine, so a shared clock would make one script's stop end the
    # delays of every other script that is running (foreground next to background).
    from bardolph.vm.machine import Machine
    ma, mb = Machine(), Machine()
    ctx.count()
    if ma._clock is mb._clock:
        ctx.counterexample('C09/machines-share-one-clock', 'two machines created under the production clock binding share one Clock object: '
                           'Machine.stop() of one script stops the clock that times the delays of the other', {'binding': 'bardolph.lib.clock.configure()'})
    coq_cases = []          # (label, prog, sched, expected trace, trace term, python verdicts)
    n_runs = 0
    own_hist = {}
    # ---------------- systematic: the stop at every yield point ----------------
    plan = []
    shapes = ['straight', 'repeat', 'timed', 'time-at', 'mixed']
    bases, conts = list(BASES), list(CONTS)
    for i, shape in enumerate(shapes):
        combos = [(b, c) for b in bases for c in conts] if thorough else \
                 [(bases[i % 3], conts[i % 3]), ('clock-late', conts[(i + 1) % 3])]
        for (b, c) in combos:
            plan.append(('agent', shape, 'request_stop', b, c, 1))
    for i, kind in enumerate(['stop_current', 'stop_job', 'stop_all']):
        for j, shape in enumerate(shapes if thorough else ['straight', 'timed', 'time-at']):
            combos = [(b, c) for b in bases for c in conts] if thorough else [(bases[(i + j) % 3], conts[(i + 2 * j) % 3])]
            for (b, c) in combos:
                plan.append(('control', shape, kind, b, c, 1 if (thorough or (kind == 'stop_all' and shape == 'straight')) else 3))
    for i, kind in enumerate(['stop_job', 'stop_background']):
        for j, shape in enumerate(shapes if thorough else ['repeat', 'time-at']):
            plan.append(('background', shape, kind, bases[(i + j) % 3], conts[(i + 2 * j) % 3], 1 if thorough else 4))
    for (scenario, shape, kind, b, c, stride) in plan:
        base, started = base_run(scenario, shape, kind, b)
        if started is None:
            ctx.broken_tie('harness', 'base run', 'requester did not finish starting the jobs: %s %s %s' % (scenario, shape, b))
            continue
        ks = list(range(started + 1, len(base) + 1, stride))
        for k in ks:
            run, s, outcome = injected_run(scenario, shape, kind, base[:k], c)
            verdicts, facts = judge(run, s, outcome)
            n_runs += 1
            ctx.count()
            if facts.get('targets'):
                ctx.nontriv((scenario, shape, kind, b, c, k))
            for o in facts.get('own_steps_after_stop', []):
                own_hist[o] = own_hist.get(o, 0) + 1
            report(ctx, scenario, shape, kind, s, verdicts, 'stop injected at step %d of the %s base run, then %s' % (k, b, c))
            if scenario == 'agent' and (thorough or k % 3 == 0):
                mt = model_terms(run, s) if s.step <= 900 else None
                if mt is None:
                    ctx.extra['not_sent_to_coq'] = ctx.extra.get('not_sent_to_coq', 0) + 1
                else:
                    coq_cases.append(((scenario, shape, kind, 'k=%d %s/%s' % (k, b, c)), mt, verdicts, s, facts))
    ctx.stage('systematic')
    ctx.extra['systematic_runs'] = n_runs
    # ---------------- random schedules (R takes part like any other thread) ----------------
    n_random = 1500 if thorough else 160
    for i in range(n_random):
        scenario = 'agent' if i % 2 == 0 else 'control'
        shape = shapes[i % len(shapes)]
        kind = 'request_stop' if scenario == 'agent' else ['stop_current', 'stop_job', 'stop_all'][(i // 2) % 3]
        if i % 7 == 6:
            scenario, kind = 'background', ['stop_job', 'stop_background'][(i // 7) % 2]
        L = rng.choice([40, 80, 150, 250])
        sched = [rng.randrange(1 << 16) for _ in range(L)]
        run = Run(scenario, shape, kind)
        pol = [sc.rr_policy, sc.prio_policy(['R', 'J', 'K', 'T']), sc.prio_policy(['K', 'T', 'R', 'J'])][i % 3]
        s, outcome = execute(run, sched, pol, L + 8000)
        verdicts, facts = judge(run, s, outcome)
        ctx.count()
        if facts.get('targets'):
            ctx.nontriv((scenario, shape, kind, 'random', i))
        for o in facts.get('own_steps_after_stop', []):
            own_hist[o] = own_hist.get(o, 0) + 1
        report(ctx, scenario, shape, kind, s, verdicts, 'random schedule #%d' % i)
        if scenario == 'agent':
            mt = model_terms(run, s) if s.step <= 900 else None
            if mt is not None:
                coq_cases.append(((scenario, shape, kind, 'random #%d' % i), mt, verdicts, s, facts))
    ctx.stage('random')
    ctx.extra['random_runs'] = n_random
    ctx.extra['own_steps_after_stop_histogram'] = {str(k): v for k, v in sorted(own_hist.items())}
    # ---------------- Coq: specification as oracle, model correspondence ----------------
    coq_side(ctx, coq_cases)
    ctx.stage('coq')
    ctx.extra['coq_cases'] = len(coq_cases)


def coq_side(ctx, cases):
    if not cases:
        return
    imports = 'From Bardolph Require Import Time.StopSpec Time.Stop Run.C09Spec Run.C09Model.'
    spec_files, model_files = [], []
    per = 25
    parts = [cases[i:i + per] for i in range(0, len(cases), per)]
    for part in parts:
        spec_files.append(''.join('Eval vm_compute in (spec_verdict %s).\n' % mt[3] for (_, mt, _, _, _) in part))
        model_files.append(''.join('Eval vm_compute in (model_agrees %s %s %s).\n' % (mt[0], mt[1], mt[3]) for (_, mt, _, _, _) in part))
    res = common.run_cases('c09s', imports, spec_files)
    for (ok, strs, log), part in zip(res, parts):
        if not ok or len(strs) != len(part):
            raise RuntimeError('coq evaluation of the C09 specification failed: ' + log[-1500:])
        for (label, mt, verdicts, s, facts), v in zip(part, strs):
            f = dict(x.split('=') for x in v.split())
            scenario, shape, kind, how = label
            py_sigs = {sig for sig, _ in verdicts}
            # the specification's verdict on the abstracted events is the oracle
            if f['sticks'] == 'BAD' and not py_sigs & {'C09/early-stop-lost', 'C09/commands-after-stop'}:
                ctx.counterexample('C09/commands-after-stop', '%s %s %s: the specification finds a device command after the job thread had looked at the run flag again'
                                   % (scenario, shape, how), replay_payload(scenario, shape, kind, s))
            if f['prompt'] == 'F' and not py_sigs:
                if facts.get('clock_rearmed_after_stop'):
                    ctx.counterexample('C09/stop-overwritten-by-clock-thread', '%s %s %s: %s own steps of the job thread after stop() completed (bound 17): '
                                       'the clock thread wrote _keep_going = True after the stop had cleared it, the delay in progress was not cut short'
                                       % (scenario, shape, how, f['own']), replay_payload(scenario, shape, kind, s))
                else:
                    ctx.counterexample('C09/not-prompt', '%s %s %s: %s own steps of the job thread after stop() completed (bound 17)'
                                       % (scenario, shape, how, f['own']), replay_payload(scenario, shape, kind, s))
            if f['per_run'] == 'F' and not py_sigs & {'C09/late-stop-poisons-next-run', 'C09/stop-affects-later-run'}:
                go_down = any(e[1] == 'J2' and e[2] == 'read' and e[3] == '_keep_going' and e[4] is False for e in s.log)
                ctx.counterexample('C09/next-run-finds-clock-flag-down' if go_down else 'C09/stop-affects-later-run',
                                   '%s %s %s: the next run on the same machine finds %s' % (scenario, shape, how,
                                   'its clock flag still cleared (by the previous run or its stop): wait() returns False, its delays are cut short' if go_down
                                   else 'its run flag cleared by the earlier stop'), replay_payload(scenario, shape, kind, s))
            ctx.count()
    if ctx.model_runnable:
        res = common.run_cases('c09m', imports, model_files)
        bad = 0
        for (ok, strs, log), part in zip(res, parts):
            if not ok or len(strs) != len(part):
                ctx.broken_tie('correspondence', 'stop model evaluation', log[-1500:])
                continue
            for (label, mt, verdicts, s, facts), got in zip(part, strs):
                ctx.count()
                if got != 'ok':
                    bad += 1
                    if bad <= 3:
                        ctx.broken_tie('correspondence', 'interleaving model vs real threads',
                                       {'case': label, 'difference': got, 'schedule': list(s.effective)[:400]})
        ctx.extra['correspondence_mismatches'] = bad


def replay(ctx, payload):
    env()
    inp = payload.get('input', {})
    run = Run(inp['scenario'], inp['shape'], inp['stop_kind'])
    s, outcome = execute(run, inp['schedule'], sc.rr_policy, len(inp['schedule']) + 8000)
    verdicts, facts = judge(run, s, outcome)
    for sig, text in verdicts:
        print('  %s: %s' % (sig, text))
    print('  outcome %s after %d steps; %s' % (outcome, s.step, facts))
    return not verdicts
