"""C08 -- queued jobs run one at a time, in order, exactly once, and the queue drains.

The real JobControl/Agent run on real threads under harness/sched.py (every shared access is a
yield point; a schedule is a list of integers).  Ties checked on every run:
  T   correspondence: the same scenario and the same choices into the Coq model
      (Jobs.JobControl.run_model) => the same sequence of (thread, access, value), the same
      finished/blocked outcome and the same final has_jobs();
  O   oracle: the specification's monitor (Jobs/JobControlSpec.v: mutual exclusion, FIFO with
      front insertion, exactly once, background window, final state) evaluated IN COQ on the
      REAL event log; a Python mirror of the monitor is cross-checked against it and used to
      search (random and bounded-exhaustive schedules) faster than Coq could.
"""
import glob
import json
import os
import time

import common
import sched
from common import coq_list

MODEL_TARGETS = ['Run/C08Model.vo']
EXTRA_TARGETS = ['Run/C08Spec.vo', 'Run/C08Model.vo']
IMPORTS_MODEL = 'From Bardolph Require Import Jobs.Threads Jobs.JobVocab Jobs.JobControl Run.C08Model.'
IMPORTS_SPEC = 'From Bardolph Require Import Jobs.Threads Jobs.JobVocab Jobs.JobControlSpec Run.C08Spec.'
CORPUS = os.path.join(common.VERIF, 'corpus', 'C08')

EXC = {'IndexError': 'IndexError', 'KeyError': 'KeyError', 'AttributeError': 'AttributeError',
       'RuntimeError': 'RuntimeError', 'JobError': 'UserError'}


class JobError(Exception):
    pass


class Unmodelled(Exception):
    """The real run did something the model has no counterpart for."""


# --------------------------------------------------------------------------- real runs

def run_real(scn, choices, wall_s=10.0, chooser=None, max_steps=3000):
    """Run the scenario on the real JobControl under the deterministic scheduler.
    Returns dict(entries=[(tid, label, value)] in model vocabulary, finished, has_jobs, res)."""
    from bardolph.lib import job_control
    bodies = {int(k): v for k, v in scn['bodies'].items()}
    s = sched.Scheduler(chooser if chooser is not None else choices, wall_s=wall_s, max_steps=max_steps)

    class HJob(job_control.Job):
        def __init__(self, j):
            self.j, self.queued, self.ev = j, True, s.Event('stop%d' % j)

        def execute(self):
            s.mark('begin', (self.j, self.queued))
            b = bodies.get(self.j, 'F')
            if b == 'W':
                self.ev.wait()
            if b == 'R':
                s.mark('raise', self.j)
                raise JobError()
            s.mark('end', self.j)

        def request_stop(self):
            self.ev.set()

    def canon(v):
        if isinstance(v, job_control.Agent):
            return ('ref', v.job.j)
        if isinstance(v, HJob):
            return ('ref', v.j)
        if isinstance(v, (list, tuple)):
            return [canon(x) for x in v]
        return v
    s.canon = canon
    jobs = {j: HJob(j) for j in bodies}
    names = {}
    asked_by_name = {op[1] for ops in scn['clients'] for op in ops if op[0] in ('is_running', 'stop_job')}

    def do(jc, op):
        k = op[0]
        if k in ('add', 'insert'):
            jobs[op[1]].queued = True
            return (jc.add_job if k == 'add' else jc.insert_job)(jobs[op[1]], 'n%d' % op[1])
        if k == 'spawn':
            jobs[op[1]].queued = False
            # a background job may be started without a name (WebApp.queue_file passes an empty one): the agent then names itself,
            # and that name is the one the job is known, reported and forgotten by
            # (only jobs nobody asks about by name: the name an agent gives itself is known to the caller of spawn_job alone)
            given = 'n%d' % op[1] if op[1] in asked_by_name else ['', None, 'n%d' % op[1]][op[1] % 3]
            if not given:
                SELF_NAMES[given] = op[1]      # should the directory use the name as given: it still denotes this job
            agent = jc.spawn_job(jobs[op[1]], given)
            if agent is not None:
                names[op[1]] = agent.name
                SELF_NAMES[agent.name] = op[1]
            return agent
        if k == 'clear':
            return jc.clear_queue()
        if k == 'stop':
            return jobs[op[1]].request_stop()
        if k == 'stop_job':
            return jc.stop_job(names.get(op[1], 'n%d' % op[1]))
        if k == 'has_jobs':
            return jc.has_jobs()
        if k == 'is_running':
            return jc.is_running(names.get(op[1], 'n%d' % op[1]))
        if k == 'get_current':
            return jc.get_current()
        if k == 'get_queued':
            return jc.get_queued()
        raise ValueError(op)

    def client(jc, ops):
        for op in ops:
            try:
                r = do(jc, op)
            except Exception as ex:
                s.mark('exc', type(ex).__name__)
                continue
            s.mark('ret', canon(r))

    with s.patched(job_control), s.shared_attrs(job_control.JobControl, ['_active_agent']):
        jc = job_control.JobControl()
        jc._lock.name = 'lock'
        jc._queue = s.deque('q')
        jc._background = s.dict('bg')
        for ops in scn['clients']:
            s.add_client(client, jc, ops)
        import collections
        state = {}

        def snapshot():
            state['has_jobs'] = (collections.deque.__len__(jc._queue) > 0 or dict.__len__(jc._background) > 0
                                 or jc.__dict__.get('_active_agent') is not None)
        s.before_abort = snapshot
        res = s.run()
        finished = res.deadlock is None and not res.timeout and not res.overrun
        if finished:
            state['has_jobs'] = jc.has_jobs()      # the public query, after everything has ended
    return {'entries': [convert(e) for e in res.events if e[1] != 'die'], 'finished': finished,
            'has_jobs': bool(state['has_jobs']), 'res': res}


def cval(v):
    if v is None:
        return ('none',)
    if isinstance(v, bool):
        return ('bool', v)
    if isinstance(v, int):
        return ('num', v)
    if isinstance(v, tuple) and len(v) == 2 and v[0] == 'ref':
        return ('ref', v[1])
    if isinstance(v, list) and len(v) == 2 and v[0] == 'ref':
        return ('ref', v[1])
    if isinstance(v, list):
        return ('list', [x[1] if isinstance(x, (list, tuple)) and x[0] == 'ref' else -1 for x in v])
    if isinstance(v, str) and v.startswith('raise '):
        if v[6:] not in EXC:
            raise Unmodelled('exception %s' % v)
        return ('exc', EXC[v[6:]])
    raise Unmodelled('value %r' % (v,))


SELF_NAMES = {}      # the names agents gave themselves (started without a name) -> job number, for the run being converted


def key_of(name):
    if name in SELF_NAMES:
        return SELF_NAMES[name]
    if not (isinstance(name, str) and name.startswith('n') and name[1:].isdigit()):
        raise Unmodelled('name %r' % name)
    return int(name[1:])


def convert(ev):
    """(tid, sched label, value) -> (tid, model label tuple, model value tuple)."""
    tid, lab, v = ev
    raised = isinstance(v, str) and v.startswith('raise ')
    unit = ('unit',)
    if lab == 'lock.acquire':
        return (tid, ('LAcquire', 0), cval(v))
    if lab == 'lock.release':
        return (tid, ('LRelease', 0), cval(v) if raised else unit)
    if lab == 'read _active_agent':
        return (tid, ('LRead', 0), cval(v))
    if lab == 'write _active_agent':
        return (tid, ('LWrite', 0, cval(v)), unit)
    if lab in ('q.append', 'q.appendleft'):
        return (tid, ('LDqAppend' if lab == 'q.append' else 'LDqAppendLeft', 0, cval(v)), unit)
    if lab == 'q.popleft':
        return (tid, ('LDqPopLeft', 0), cval(v))
    if lab == 'q.pop':
        return (tid, ('LDqPop', 0), cval(v))
    if lab == 'q.len':
        return (tid, ('LDqLen', 0), cval(v))
    if lab == 'q.clear':
        return (tid, ('LDqClear', 0), unit)
    if lab == 'q.list':
        return (tid, ('LDqList', 0), cval(v))
    if lab.startswith('bg.set:'):
        if isinstance(v, (list, tuple)) and len(v) == 2 and v[0] == 'ref' and lab[7:] and not (lab[7:].startswith('n') and lab[7:][1:].isdigit()):
            # a name the agent gave itself, seen where it enters the directory (the run may be cut short before spawn_job returns it)
            SELF_NAMES[lab[7:]] = v[1]
        return (tid, ('LDictSet', 0, key_of(lab[7:]), cval(v)), unit)
    if lab.startswith('bg.del:'):
        return (tid, ('LDictDel', 0, key_of(lab[7:])), cval(v) if raised else unit)
    if lab.startswith('bg.has:'):
        return (tid, ('LDictHas', 0, key_of(lab[7:])), cval(v))
    if lab.startswith('bg.get:'):
        return (tid, ('LDictGet', 0, key_of(lab[7:])), cval(v))
    if lab == 'bg.len':
        return (tid, ('LDictLen', 0), cval(v))
    if lab == 'thread-start':
        return (tid, ('LStart',), ('num', v))
    if lab.startswith('stop') and lab.endswith('.set'):
        return (tid, ('LFlagSet', int(lab[4:-4])), unit)
    if lab.startswith('stop') and lab.endswith('.wait'):
        return (tid, ('LFlagWait', int(lab[4:-5])), cval(v))
    if lab == 'begin':
        return (tid, ('LMark', 0 if v[1] else 1, ('ref', v[0])), ('ref', v[0]))
    if lab == 'end':
        return (tid, ('LMark', 2, ('ref', v)), ('ref', v))
    if lab == 'raise':
        return (tid, ('LMark', 3, ('ref', v)), ('ref', v))
    if lab == 'ret':
        return (tid, ('LMark', 4, cval(v)), cval(v))
    if lab == 'exc':
        if v not in EXC:
            raise Unmodelled('exception %s escapes a call' % v)
        return (tid, ('LMark', 5, ('exc', EXC[v])), ('exc', EXC[v]))
    raise Unmodelled('access %r' % (lab,))


_VARIANT = {}


def variant():
    """Which repaired methods the tree under test has, probed on the real code with
    single-threaded calls: is_running reads _active_agent once (D40) or twice (pinned);
    clear_queue takes the lock (D46) or not (pinned)."""
    if not _VARIANT:
        from bardolph.lib import job_control
        s = sched.Scheduler([])
        with s.patched(job_control), s.shared_attrs(job_control.JobControl, ['_active_agent']):
            jc = job_control.JobControl()
            jc._lock.name = 'lock'
            jc._queue = s.deque('q')
            jc.__dict__['_active_agent'] = job_control.Agent(None, None, 'x')

            def probe():
                jc.is_running('y')
                s.mark('sep')
                jc.clear_queue()
            s.add_client(probe)
            res = s.run()
        labs = [e[1] for e in res.events]
        sep = labs.index('sep')
        _VARIANT['isr_once'] = labs[:sep].count('read _active_agent') == 1
        _VARIANT['clear_locked'] = 'lock.acquire' in labs[sep:]
    return _VARIANT


def coq_variant():
    v = variant()
    return '{| isr_once := %s; clear_locked := %s |}' % ('true' if v['isr_once'] else 'false',
                                                         'true' if v['clear_locked'] else 'false')


# --------------------------------------------------------------------------- printing Coq terms

def cz(n):
    return '(%d)' % n if n < 0 else '%d' % n


def coq_val(v):
    k = v[0]
    if k == 'none':
        return 'VNone'
    if k == 'unit':
        return 'VUnit'
    if k == 'ref':
        return '(VRef %s)' % cz(v[1])
    if k == 'num':
        return '(VNum %s)' % cz(v[1])
    if k == 'bool':
        return '(VBool %s)' % ('true' if v[1] else 'false')
    if k == 'exc':
        return '(VExc %s)' % v[1]
    if k == 'list':
        return '(VList %s)' % coq_list([cz(x) for x in v[1]])
    raise ValueError(v)


def coq_label(l):
    k = l[0]
    if k in ('LAcquire', 'LRelease', 'LRead', 'LDqPopLeft', 'LDqPop', 'LDqLen', 'LDqClear', 'LDqList', 'LDictLen'):
        return '(%s %d%%nat)' % (k, l[1])
    if k in ('LWrite', 'LDqAppend', 'LDqAppendLeft', 'LMark'):
        return '(%s %d%%nat %s)' % (k, l[1], coq_val(l[2]))
    if k == 'LDictSet':
        return '(LDictSet %d%%nat %s %s)' % (l[1], cz(l[2]), coq_val(l[3]))
    if k in ('LDictDel', 'LDictHas', 'LDictGet'):
        return '(%s %d%%nat %s)' % (k, l[1], cz(l[2]))
    if k in ('LFlagSet', 'LFlagWait'):
        return '(%s %s)' % (k, cz(l[1]))
    if k == 'LStart':
        return 'LStart'
    raise ValueError(l)


def coq_entries(entries):
    return coq_list(['(%d%%nat, %s, %s)' % (t, coq_label(l), coq_val(v)) for t, l, v in entries])


OPS = {'add': 'OAdd', 'insert': 'OInsert', 'spawn': 'OSpawn', 'stop': 'OStop', 'stop_job': 'OStopJob',
       'is_running': 'OIsRunning'}
OPS0 = {'clear': 'OClear', 'has_jobs': 'OHasJobs', 'get_current': 'OGetCurrent', 'get_queued': 'OGetQueued'}
BODY = {'F': 'BFinish', 'R': 'BRaise', 'W': 'BWait'}


def coq_scenario(scn):
    bodies = coq_list(['(%s, %s)' % (cz(int(j)), BODY[b]) for j, b in sorted(scn['bodies'].items(), key=lambda p: int(p[0]))])
    clients = coq_list([coq_list([('(%s %s)' % (OPS[o[0]], cz(o[1]))) if o[0] in OPS else OPS0[o[0]] for o in ops])
                        for ops in scn['clients']])
    return bodies, clients


def coq_case(scn, choices, out):
    b, c = coq_scenario(scn)
    return ('{| c_variant := %s; c_bodies := %s; c_clients := %s; c_choices := %s; c_log := %s; c_finished := %s; c_has_jobs := %s |}'
            % (coq_variant(), b, c, coq_list([cz(x) for x in choices]), coq_entries(out['entries']),
               'true' if out['finished'] else 'false', 'true' if out['has_jobs'] else 'false'))


# --------------------------------------------------------------------------- Python mirror of the monitor

BAD = {1: 'mutex', 2: 'start-order', 3: 'fifo', 4: 'executed-twice', 5: 'background-not-reported',
       6: 'background-forgotten-early', 7: 'scenario', 8: 'end-without-begin', 9: 'background-answer', 10: 'final-state'}


def abstract(e):
    t, l, v = e
    k = l[0]
    if l[1:2] == (0,):
        if k == 'LDqAppend' and l[2][0] == 'ref':
            return ('enqb', l[2][1])
        if k == 'LDqAppendLeft' and l[2][0] == 'ref':
            return ('enqf', l[2][1])
        if k == 'LDqClear':
            return ('clear',)
        if k in ('LDqPopLeft', 'LDqPop'):
            return ('deq', v[1]) if v[0] == 'ref' else ('deqempty',)
        if k == 'LDictSet':
            return ('bgreg', l[2])
        if k == 'LDictDel' and v == ('unit',):
            return ('bgforget', l[2])
        if k == 'LDictHas' and v[0] == 'bool':
            return ('ask', l[2], v[1])
    if k == 'LMark' and l[2][0] == 'ref' and l[1] in (0, 1, 2, 3):
        return [('begin', l[2][1], True), ('begin', l[2][1], False), ('end', l[2][1]), ('end', l[2][1])][l[1]]
    return ('other',)


def py_monitor(entries, finished):
    """Mirror of JobControlSpec.monitor + final_ok: (list of violated codes in order, index of first)."""
    q, pend, ex, begun, left, enq, cleared, bg, bgreg = [], [], [], set(), set(), [], set(), [], []
    bad, first = [], -1

    def chk(ok, code):
        if not ok:
            bad.append(code)
    for i, e in enumerate(entries):
        a = abstract(e)
        n0 = len(bad)
        k = a[0]
        if k in ('enqb', 'enqf'):
            chk(a[1] not in enq and a[1] not in bgreg, 7)
            q = q + [a[1]] if k == 'enqb' else [a[1]] + q
            enq.append(a[1])
        elif k == 'clear':
            cleared |= set(q)
            q = []
        elif k == 'deq':
            chk(bool(q) and q[0] == a[1], 3)
            q = q[1:]
            pend = pend + [a[1]]
        elif k == 'deqempty':
            chk(not q, 3)
        elif k == 'begin' and a[2]:
            chk(a[1] not in begun, 4)
            chk(bool(pend) and pend[0] == a[1], 2)
            chk(not ex, 1)
            pend = pend[1:]
            ex = [a[1]] + ex
            begun.add(a[1])
        elif k == 'begin':
            chk(a[1] not in begun, 4)
            chk(a[1] in bg, 5)
            begun.add(a[1])
        elif k == 'end':
            chk(a[1] in ex or a[1] in bg, 5)
            chk(a[1] in begun and a[1] not in left, 8)
            ex = [x for x in ex if x != a[1]]
            left.add(a[1])
        elif k == 'bgreg':
            chk(a[1] not in enq and a[1] not in bgreg, 7)
            bg = [a[1]] + bg
            bgreg.append(a[1])
        elif k == 'bgforget':
            chk(a[1] in left, 6)
            bg = [x for x in bg if x != a[1]]
        elif k == 'ask':
            chk(a[2] == (a[1] in bg), 9)
        if len(bad) > n0 and first < 0:
            first = i
    if finished:
        ok = (not q and not pend and not ex and not bg
              and all(j in cleared or (j in begun and j in left) for j in enq)
              and all(j in begun and j in left for j in bgreg))
        if not ok:
            bad.append(10)
    return bad, first


# --------------------------------------------------------------------------- scenarios and schedules

def gen_scenario(rng, max_clients=3, max_jobs=4, queries=True):
    nc = rng.randint(1, max_clients)
    nj = rng.randint(1, max_jobs)
    clients = [[] for _ in range(nc)]
    bodies = {}
    for j in range(1, nj + 1):
        kind = rng.choice(['add'] * 4 + ['insert'] * 3 + ['spawn'] * 2)
        bodies[str(j)] = rng.choice('FFFRRW')
        clients[rng.randrange(nc)].append([kind, j])

    def put(op):
        c = clients[rng.randrange(nc)]
        c.insert(rng.randint(0, len(c)), op)
    for j in range(1, nj + 1):
        if bodies[str(j)] == 'W':
            if rng.random() < 0.25:
                put(['stop_job', j])
            put(['stop', j])
    if queries:
        for _ in range(rng.choice([0, 0, 1, 2, 3])):
            q = rng.choice(['has_jobs', 'is_running', 'get_current', 'get_queued', 'is_running', 'is_running'])
            put([q, rng.randint(1, nj)] if q == 'is_running' else [q])
        if rng.random() < 0.2:
            put(['clear'])
    return {'bodies': bodies, 'clients': clients}


def gen_choices(rng, n=160):
    mode = rng.choice(['uniform', 'runs', 'runs', 'low'])
    out = []
    while len(out) < n:
        if mode == 'uniform':
            out.append(rng.randrange(6))
        elif mode == 'low':
            out.append(rng.choice([0, 0, 0, 1, 1, 2, 5]))
        else:
            out += [rng.randrange(6)] * rng.randint(1, 6)
    return out[:n]


def op_of_mark(scn, entries, idx):
    """The client call whose return/exception mark is entries[idx]."""
    t = entries[idx][0]
    n = sum(1 for e in entries[:idx] if e[0] == t and e[1][0] == 'LMark' and e[1][1] in (4, 5))
    ops = scn['clients'][t] if t < len(scn['clients']) else []
    return ops[n] if n < len(ops) else None


def registered_at(entries, idx, j):
    reg = False
    for e in entries[:idx]:
        a = abstract(e)
        if a == ('bgreg', j):
            reg = True
        elif a == ('bgforget', j):
            reg = False
    return reg


def judge(scn, out):
    """Violations of the property on one real run: list of (sig, what); and observations."""
    entries, res = out['entries'], out['res']
    viol, obs = [], []
    bad, first = py_monitor(entries, out['finished'])
    for code in bad:
        if code == 7:
            continue
        viol.append(('C08/' + BAD[code], 'specification check "%s" fails at event %d of the real run' % (BAD[code], first)))
    for i, e in enumerate(entries):
        if e[1][0] == 'LMark' and e[1][1] == 5:
            op = op_of_mark(scn, entries, i)
            exc = e[2][1]
            if op and op[0] == 'is_running' and exc == 'AttributeError':
                # the moment that counts is the failing access (the thread's previous event), not the
                # thread-local mark that reports it
                at = max([k for k in range(i) if entries[k][0] == e[0]] or [i])
                if registered_at(entries, at, op[1]):
                    viol.append(('C08/is-running-raises-for-running-background-job',
                                 'is_running(name) raises AttributeError while the background job of that name is registered '
                                 '(active agent read twice without the lock; it ended in between)'))
                else:
                    obs.append('is_running raises AttributeError (active job ended between its two reads)')
            elif op and op[0] in ('add', 'insert') and exc == 'IndexError':
                obs.append('%s_job raises IndexError: clear_queue() emptied the queue between len() and popleft()' % op[0])
            else:
                viol.append(('C08/call-raises-%s-%s' % (op[0] if op else 'unknown', exc), '%s raises %s' % (op, exc)))
    # the public answer of is_running(name): True whenever the background job of that name was registered before the
    # call began and is still registered when it returns ("reported as running under their name exactly while they execute")
    for i, e in enumerate(entries):
        if e[1][0] == 'LMark' and e[1][1] == 4 and e[2][0] == 'bool':
            op = op_of_mark(scn, entries, i)
            if op and op[0] == 'is_running':
                start = max([k + 1 for k in range(i) if entries[k][0] == e[0] and entries[k][1][0] == 'LMark' and entries[k][1][1] in (4, 5)] or [0])
                if registered_at(entries, start, op[1]) and registered_at(entries, i, op[1]) and e[2][1] is not True:
                    viol.append(('C08/background-job-not-reported-running',
                                 'is_running(n%d) answers False although the background job of that name was registered before the call and still is when it returns' % op[1]))
    for t, name in sorted(res.died.items()):
        if name == 'JobError':
            continue
        if name == 'IndexError':
            obs.append('job thread dies of IndexError in _run_next_job after a concurrent clear_queue()')
        else:
            viol.append(('C08/job-thread-dies-' + name, 'thread %d dies of %s' % (t, name)))
    if res.timeout:
        viol.append(('C08/run-does-not-end', 'wall-clock guard expired'))
    if res.overrun:
        viol.append(('C08/run-does-not-end', 'more than the allowed number of steps'))
    if res.deadlock is not None:
        if any(not (lab.startswith('stop') and lab.endswith('.wait')) for _, lab in res.deadlock):
            viol.append(('C08/deadlock', 'no thread can move: %s' % (res.deadlock,)))
        else:
            obs.append('scenario ends with jobs waiting for a stop nobody issues')
    if out['finished'] and out['has_jobs']:
        viol.append(('C08/has-jobs-after-everything-ended', 'has_jobs() is True although every thread has ended'))
    return viol, obs


def shrink_choices(scn, choices, sig, budget=120):
    """Shorter / simpler choices that still give a violation with the same signature."""
    def bad(ch):
        try:
            out = run_real(scn, ch, wall_s=5.0)
        except Unmodelled:
            return False
        return any(s == sig for s, _ in judge(scn, out)[0])
    best = list(choices)
    out = run_real(scn, best)
    best = best[:len(out['res'].choices)]
    n = 0
    while best and best[-1] == 0:
        best.pop()
    i = 0
    while i < len(best) and n < budget:
        if best[i] != 0:
            cand = best[:i] + [0] + best[i + 1:]
            n += 1
            if bad(cand):
                best = cand
        i += 1
    while best and best[-1] == 0:
        best.pop()
    return best


# --------------------------------------------------------------------------- evaluation in Coq

def chunks(l, n):
    return [l[i:i + n] for i in range(0, len(l), n)]


def coq_eval(tag, imports, fn, items, per_file):
    files = ['Eval vm_compute in (%s %s).\n' % (fn, coq_list(part)) for part in chunks(items, per_file)]
    res = common.run_cases(tag, imports, files, timeout=900)
    out = []
    for (ok, strs, log), part in zip(res, chunks(items, per_file)):
        if not ok or len(strs) != 1:
            raise RuntimeError('coq evaluation of %s failed: %s' % (fn, log[-1500:]))
        got = strs[0].split('|')[:-1]
        if len(got) != len(part):
            raise RuntimeError('coq evaluation of %s: %d results for %d cases' % (fn, len(got), len(part)))
        out += got
    return out


def check_batch(ctx, cases, tag, edges_for=0, per_file=40):
    """cases: list of (scn, choices, out).  Oracle in Coq on the real logs (cross-checked with
    the Python mirror) and correspondence with the model."""
    if not cases:
        return
    spec_items = ['(%s, %s)' % (coq_entries(o['entries']), 'true' if o['finished'] else 'false') for _, _, o in cases]
    verdicts = coq_eval(tag + 's', IMPORTS_SPEC, 'spec_cases', spec_items, per_file)
    for (scn, ch, o), v in zip(cases, verdicts):
        bad, first = py_monitor(o['entries'], o['finished'])
        mine = 'ok' if not bad else 'BAD %s@%d' % (''.join('%d,' % b for b in bad), first)
        if mine != v:
            ctx.broken_tie('oracle-mirror', 'py_monitor vs JobControlSpec.monitor', {'scenario': scn, 'choices': ch, 'python': mine, 'coq': v})
        if v != 'ok':
            codes = [int(x) for x in v[4:].split('@')[0].split(',') if x]
            for code in codes:
                if code != 7:
                    ctx.counterexample('C08/' + BAD[code], 'specification check "%s" fails on the real event log (%s)' % (BAD[code], v),
                                       {'scenario': scn, 'choices': ch})
    if ctx.model_runnable:
        items = [coq_case(scn, ch, o) for scn, ch, o in cases]
        got = coq_eval(tag + 'm', IMPORTS_MODEL, 'model_cases', items, per_file)
        nbad = 0
        for (scn, ch, o), g in zip(cases, got):
            if g != '=':
                nbad += 1
                if nbad <= 3:
                    ctx.broken_tie('correspondence', 'real JobControl vs Jobs.JobControl.run_model',
                                   {'scenario': scn, 'choices': ch[:len(o['res'].choices)], 'model': g[:1500],
                                    'real_finished': o['finished'], 'real_has_jobs': o['has_jobs']})
        ctx.extra['correspondence_mismatches'] = ctx.extra.get('correspondence_mismatches', 0) + nbad
        if edges_for:
            eg = coq_eval(tag + 'e', IMPORTS_MODEL, 'model_edges_cases', items[:edges_for], 25)
            cov = ctx.extra.setdefault('_edges', set())
            for g in eg:
                cov.update(x for x in g.split(';') if x)


def real_case(ctx, scn, choices, cases, stats):
    try:
        out = run_real(scn, choices)
    except Unmodelled as ex:
        ctx.broken_tie('correspondence', 'unmodelled behaviour of the real code', {'scenario': scn, 'choices': choices, 'what': str(ex)})
        return None
    ctx.count()
    viol, obs = judge(scn, out)
    for sig, what in viol:
        if not any(c['sig'] == sig for c in ctx.counterexamples):
            small = shrink_choices(scn, choices, sig)
            ctx.counterexample(sig, what, {'scenario': scn, 'choices': small})
    for o in obs:
        stats['observations'][o] = stats['observations'].get(o, 0) + 1
        stats['observation_example'].setdefault(o, {'scenario': scn, 'choices': choices[:len(out['res'].choices)]})
    n_marks = sum(1 for e in out['entries'] if e[1][0] == 'LMark' and e[1][1] in (0, 1))
    if n_marks >= 1 and len(set(out['res'].picks)) > 1:
        ctx.nontriv(json.dumps([scn, out['res'].choices], sort_keys=True))
    stats['steps'] += out['res'].steps
    stats['finished'] += 1 if out['finished'] else 0
    cases.append((scn, list(choices), out))
    return out


# --------------------------------------------------------------------------- bounded-exhaustive exploration

def op_object(label):
    """(object, is_write) of a pending access, for the independence relation of the sleep sets."""
    if label.startswith('lock.'):
        return ('lock', True)
    if label.startswith('read '):
        return (label[5:], False)
    if label.startswith('write '):
        return (label[6:], True)
    if label.startswith('q.'):
        return ('q', label not in ('q.len', 'q.list'))
    if label.startswith('bg.'):
        return ('bg', not (label.startswith('bg.has') or label.startswith('bg.get') or label == 'bg.len'))
    if label == 'thread-start':
        return ('threads', True)
    if label.startswith('stop'):
        return (label.split('.')[0], label.endswith('.set'))
    if label in ('begin', 'end', 'raise'):
        return ('exec', True)
    return (None, False)          # ret / exc marks: local to the thread


def independent(a, b):
    oa, wa = op_object(a)
    ob, wb = op_object(b)
    return oa is None or ob is None or oa != ob or (not wa and not wb)


def explore(ctx, scn, budget_s, stats, on_violation):
    """Depth-first enumeration of the schedules of one scenario on the REAL code with sleep
    sets (every Mazurkiewicz trace is executed at least once).  Returns (runs, complete)."""
    t_end = time.time() + budget_s
    stack = []          # frames: dict(enabled, ops, sleep, done, chosen)
    runs = 0
    blocked = 0
    while True:
        depth = {'i': 0}
        aborted = {'v': False}

        def chooser(runnable, pending, step):
            i = depth['i']
            ops = dict(zip(runnable, pending))
            if i < len(stack):
                fr = stack[i]
                t = fr['chosen']
            else:
                if i == 0:
                    sleep = {}
                else:
                    par = stack[i - 1]
                    before = dict(par['sleep'])
                    for u in par['done'][:-1]:
                        before[u] = par['ops'][u]
                    sleep = {u: o for u, o in before.items() if independent(o, par['ops'][par['chosen']])}
                cand = [t for t in runnable if t not in sleep]
                if not cand:
                    aborted['v'] = True
                    return None
                local = [t for t in cand if op_object(ops[t])[0] is None]
                if local:
                    # a return/exception mark touches nothing shared: it commutes with every access of
                    # every other thread, so running it first is the only order worth exploring
                    t = local[0]
                    stack.append({'enabled': [t], 'ops': ops, 'sleep': sleep, 'done': [t], 'chosen': t})
                else:
                    t = cand[0]
                    stack.append({'enabled': list(runnable), 'ops': ops, 'sleep': sleep, 'done': [t], 'chosen': t})
            depth['i'] = i + 1
            return runnable.index(t)
        out = run_real(scn, [], chooser=chooser, wall_s=20.0)
        runs += 1
        if aborted['v']:
            blocked += 1
        else:
            ctx.count()
            stats['explored_steps'] = stats.get('explored_steps', 0) + out['res'].steps
            viol, obs = judge(scn, out)
            for o in obs:
                stats['observations'][o] = stats['observations'].get(o, 0) + 1
                stats['observation_example'].setdefault(o, {'scenario': scn, 'choices': list(out['res'].choices)})
            if viol:
                on_violation(scn, out, viol)
        # backtrack
        while stack:
            fr = stack[-1]
            cand = [t for t in fr['enabled'] if t not in fr['sleep'] and t not in fr['done']]
            if cand:
                fr['done'].append(cand[0])
                fr['chosen'] = cand[0]
                break
            stack.pop()
        if not stack:
            return runs, blocked, True
        if time.time() > t_end:
            return runs, blocked, False


# --------------------------------------------------------------------------- the check

FIXED_SCENARIOS = [
    # 2 clients x 2 jobs, adds only
    {'bodies': {'1': 'F', '2': 'F', '3': 'F', '4': 'F'}, 'clients': [[['add', 1], ['add', 2]], [['add', 3], ['add', 4]]]},
    # front insertion, a raising job, a background job, queries
    {'bodies': {'1': 'F', '2': 'R', '3': 'F', '4': 'F'},
     'clients': [[['add', 1], ['add', 2], ['has_jobs']], [['insert', 3], ['spawn', 4], ['is_running', 4], ['get_queued'], ['get_current']]]},
    # a job that runs until stopped, stop through the controller and directly, clear_queue
    {'bodies': {'1': 'W', '2': 'F', '3': 'R'},
     'clients': [[['add', 1], ['add', 2], ['stop_job', 1], ['stop', 1]], [['insert', 3], ['clear'], ['has_jobs']], [['is_running', 1], ['get_current']]]},
]


def load_corpus():
    out = []
    for f in sorted(glob.glob(os.path.join(CORPUS, '*.json'))):
        d = json.load(open(f))
        out.append((os.path.basename(f), d['scenario'], d['choices']))
    return out


def run(ctx):
    import logging
    logging.disable(logging.CRITICAL)     # threads of abandoned runs log "Unable to acquire lock" while unwinding
    rng = ctx.rng
    ctx.rule = ('a case is one scenario (1-3 client threads, 1-4 jobs, add/insert/spawn, bodies finish/raise/wait-for-stop, '
                'optional queries, stop requests and clear_queue) with one schedule of the real threads at shared-access '
                'granularity; non-trivial when at least one job body was entered and at least two threads were interleaved; '
                'distinct = distinct (scenario, sequence of scheduling choices actually taken)')
    ctx.assumptions += ['the 1 s time-out of JobControl._acquire_lock is modelled as blocking (it never expires)',
                        'single deque/dict/attribute operations are atomic (GIL); list(deque) is one operation',
                        'distinct job names; job bodies touch no controller state',
                        'stop_current/stop_background are not exercised here (C09)']
    ctx.trusted += ['harness/sched.py (deterministic scheduler, proxies and descriptors)',
                    'harness/props/c08.py (event conversion, Python mirror of the monitor, cross-checked against Coq on every compared run)']
    stats = {'steps': 0, 'finished': 0, 'observations': {}, 'observation_example': {}}
    cases = []
    # regression corpus first
    corpus = load_corpus()
    for name, scn, ch in corpus:
        real_case(ctx, scn, ch, cases, stats)
    ctx.extra['corpus_cases'] = len(corpus)
    ctx.stage('corpus')
    for scn in FIXED_SCENARIOS:
        for _ in range(6):
            real_case(ctx, scn, gen_choices(rng), cases, stats)
    n_random = 10000 if ctx.thorough() else 180
    for i in range(n_random):
        real_case(ctx, gen_scenario(rng), gen_choices(rng), cases, stats)
    ctx.stage('real-runs')
    for c in cases[:4]:
        ctx.sample({'scenario': c[0], 'choices': c[2]['res'].choices[:40], 'events': len(c[2]['entries']),
                    'finished': c[2]['finished'], 'has_jobs_at_end': c[2]['has_jobs']})
    try:
        check_batch(ctx, cases, 'c08', edges_for=300, per_file=40 if not ctx.thorough() else 160)
    except RuntimeError as ex:
        ctx.broken_tie('correspondence', 'coq evaluation', str(ex)[-2000:])
    ctx.stage('coq-compare')
    # bounded-exhaustive exploration of the real code
    explored = []
    found = []

    def on_violation(scn, out, viol):
        for sig, what in viol:
            if not any(c['sig'] == sig for c in ctx.counterexamples):
                ctx.counterexample(sig, what, {'scenario': scn, 'choices': list(out['res'].choices)})
        if len(found) < 5:
            found.append((scn, list(out['res'].choices), out))
    if ctx.thorough():
        plan = [(FIXED_SCENARIOS[0], 600.0),
                ({'bodies': {'1': 'F', '2': 'F', '3': 'R', '4': 'F'},
                  'clients': [[['add', 1], ['insert', 2]], [['insert', 3], ['spawn', 4]]]}, 420.0),
                ({'bodies': {'1': 'F', '2': 'R'}, 'clients': [[['add', 1]], [['insert', 2]]]}, 60.0),
                ({'bodies': {'1': 'F', '2': 'F'}, 'clients': [[['add', 1], ['is_running', 2]], [['spawn', 2]]]}, 90.0),
                ({'bodies': {'1': 'F', '2': 'F'}, 'clients': [[['add', 1], ['add', 2]], [['clear'], ['has_jobs']]]}, 90.0)]
    else:
        plan = [({'bodies': {'1': 'F', '2': 'R'}, 'clients': [[['add', 1]], [['insert', 2]]]}, 12.0),
                ({'bodies': {'1': 'F', '2': 'F'}, 'clients': [[['add', 1], ['is_running', 2]], [['spawn', 2]]]}, 8.0)]
    all_complete = True
    for idx, (scn, budget) in enumerate(plan):
        runs, blocked, complete = explore(ctx, scn, budget, stats, on_violation)
        # the second scenario of the thorough plan (insert/raise/spawn mix) is explored as far as its
        # budget allows; the others are the finite spaces this tier claims to enumerate
        required = not (ctx.thorough() and idx == 1)
        explored.append({'scenario': scn, 'runs': runs, 'sleep_blocked': blocked, 'complete': complete,
                         'counted_for_exhaustive': required})
        if required:
            all_complete = all_complete and complete
    ctx.extra['exhaustive_exploration'] = explored
    ctx.extra['exhaustive_rule'] = ('all schedules of the listed scenarios on the REAL code at shared-access granularity, one '
                                    'representative per class of schedules that differ only in the order of independent accesses '
                                    '(sleep sets; return-value marks are thread-local); thorough: 2 clients x 2 add_job calls '
                                    'completely, plus three smaller scenarios completely, plus a mixed 2x2 scenario within a budget')
    ctx.exhaustive = bool(ctx.thorough() and all_complete)
    if found:
        try:
            check_batch(ctx, found, 'c08x', per_file=5)
        except RuntimeError as ex:
            ctx.broken_tie('correspondence', 'coq evaluation', str(ex)[-2000:])
    ctx.stage('explore')
    edges = sorted({norm_edge(e) for e in ctx.extra.pop('_edges', set())})
    known = known_edges()
    ctx.extra['model_branches_exercised'] = edges
    ctx.extra['model_branches_known_for_this_variant'] = len(known)
    ctx.extra['model_branches_not_exercised'] = sorted(known - set(edges))
    ctx.extra['model_branches_beyond_known'] = sorted(set(edges) - known)
    ctx.extra['runs'] = {'compared_in_coq': len(cases), 'finished': stats['finished'], 'steps': stats['steps'],
                         'explored_steps': stats.get('explored_steps', 0)}
    ctx.extra['variant'] = dict(variant())
    ctx.extra['observations'] = stats['observations']
    ctx.extra['observation_examples'] = stats['observation_example']


# branches of the access programs (point before > point after of one step of the model), as
# exercised by long random runs on the pinned and on the repaired tree; branches that no run
# can reach (they are excluded by the proved invariants: a non-agent popped from the queue,
# `None.execute()` under the lock, KeyError in the background callback) are not listed
ENTRY = {'Add0', 'Ins0', 'Sp0', 'Clear0', 'Stop0', 'Sj0', 'Has0', 'Isr0', 'Cur0', 'Qd0'}
KNOWN_COMMON = ['Add0>Add1', 'Add1>Enq2', 'Bg0>Bg1', 'Bg1>Ret.rel', 'Cur0>RetV', 'Done0>Done1', 'Done1>Done2', 'Done2>Run0',
                'Enq2>Ret.rel', 'Enq2>Run0', 'Has0>Has1', 'Has0>RetV', 'Has1>Has2', 'Has1>RetV', 'Has2>RetV', 'Ins0>Ins1',
                'Ins1>Enq2', 'Isr0>Isr2', 'Isr2>RetV', 'Job0b>Job1b', 'Job0q>Job1q', 'Job1b>Bg0', 'Job1b>Job2b', 'Job1q>Done0',
                'Job1q>Job2q', 'Job2b>Bg0', 'Job2q>Done0', 'Qd0>RetV', 'RelV>RetV', 'Ret.rel>Ret.job', 'Ret.rel>Ret.rel',
                'Ret.rel>Ret.val', 'Ret.val>client-ends', 'Ret.val>next-call', 'RetV>client-ends', 'RetV>next-call', 'Run0>Run1',
                'Run1>Ret.rel', 'Run1>Run2', 'Run2>Ret.rel', 'Run2>Run3', 'Run3>Run4', 'Run4>Run5', 'Run5>Run6', 'Run6>Ret.rel',
                'Sj0>Sj1', 'Sj1>Sj2', 'Sj1>Sj4', 'Sj2>Sj3', 'Sj2>Sj4', 'Sj3>Sj6', 'Sj4>RelV', 'Sj4>Sj5', 'Sj5>Sj6', 'Sj6>RelV',
                'Sp0>Sp1', 'Sp1>Sp2', 'Sp2>Ret.rel', 'Stop0>RetV']
KNOWN_PINNED = ['Clear0>RetV', 'Isr0>Isr1', 'Isr1>Isr2', 'Isr1>RetV', 'Isr1>Unw.', 'Isr1>Unw.end', 'Run3>Unw.rel', 'Unw.>next-call',
                'Unw.end>client-ends', 'Unw.rel>Unw.', 'Unw.rel>Unw.end', 'Unw.rel>Unw.job', 'Unw.rel>Unw.rel']
KNOWN_REPAIRED = ['Clear0>Clear1', 'Clear1>RelV', 'Isr0>RetV']


def norm_edge(e):
    a, b = e.split('>')
    if a in ('RetV', 'Ret.val', 'Unw.', 'Unw.end'):
        if b in ENTRY:
            b = 'next-call'
        elif b == 'Ret.end':
            b = 'client-ends'
    return a + '>' + b


def known_edges():
    v = variant()
    known = set(KNOWN_COMMON)
    known |= set(KNOWN_REPAIRED[2:] if v['isr_once'] else [e for e in KNOWN_PINNED if e.startswith('Isr')] + ['Unw.>next-call', 'Unw.end>client-ends'])
    known |= set(KNOWN_REPAIRED[:2] if v['clear_locked'] else ['Clear0>RetV', 'Run3>Unw.rel', 'Unw.rel>Unw.', 'Unw.rel>Unw.end',
                                                              'Unw.rel>Unw.job', 'Unw.rel>Unw.rel', 'Unw.>next-call', 'Unw.end>client-ends'])
    return known


def replay(ctx, payload):
    import logging
    logging.disable(logging.CRITICAL)
    inp = payload.get('input', payload)
    scn, ch = inp['scenario'], inp['choices']
    out = run_real(scn, ch)
    viol, obs = judge(scn, out)
    for e in out['entries']:
        print('  t%d %s -> %s' % (e[0], ' '.join(str(x) for x in e[1]), e[2][-1] if len(e[2]) > 1 else e[2][0]))
    print('finished=%s has_jobs=%s' % (out['finished'], out['has_jobs']))
    try:
        v = coq_eval('c08r', IMPORTS_SPEC, 'spec_cases',
                     ['(%s, %s)' % (coq_entries(out['entries']), 'true' if out['finished'] else 'false')], 1)[0]
        print('specification monitor (Coq) on the real log: %s' % v)
        m = coq_eval('c08rm', IMPORTS_MODEL, 'model_cases', [coq_case(scn, ch, out)], 1)[0]
        print('model vs real: %s' % ('same' if m == '=' else m[:600]))
    except RuntimeError as ex:
        print('coq evaluation failed: %s' % str(ex)[-300:])
        v = 'ok'
    for sig, what in viol:
        print('violation %s: %s' % (sig, what))
    for o in obs:
        print('observation: %s' % o)
    return not viol and v == 'ok'
