"""C10 -- delays run on one time line from script start; time-of-day waits restart it.

The REAL Clock (and, for the end-to-end part, the real Parser + Machine + Clock) run on real
threads under the deterministic scheduler of harness/sched_clock.py with a virtual
time.time / time.sleep / datetime.now.  Generated per case: the sequence of waits (delay values
0 / fractional / large, raw or logical units, `time at` patterns at any position), the amount
of work between waits, the tick length, and the interleaving of the clock thread with the
script thread (a list of integers, then a policy).

Observed: every look the script thread takes at the clock (value, virtual time), every call of
Clock.wait() and its result, _start_time/_cue_time after each wait, the virtual time of every
device command and its position relative to the waits.

  O   oracle: the observations judged by the time-line specification (Time/ClockSpec.v `judge`,
      evaluated in Coq): each delay ends at the FIRST reading at or after origin + sum of delays;
      zero delays take no reading; a time-of-day wait ends on the first matching look and
      restarts the time line; plus `within one tick` for runs whose script thread is not held
      up, and: no device command before the deadline of the delay in front of it.
  T   correspondence: the same oracle (the looks the real thread took) fed to the model
      Time/Clock.v: outcome, number of wait() calls, number of looks, _start_time, _cue_time
      after every wait must agree exactly.
"""
import random
from fractions import Fraction

import common
from common import coq_list, coq_str, coq_z, coq_bool
import sched_clock as sc

MODEL_TARGETS = ['Run/C10Model.vo']
EXTRA_TARGETS = ['Run/C10Spec.vo', 'Run/C10Model.vo']
T0 = 1000000.0          # virtual epoch seconds at script start: 13:46:40 of the virtual day
MAX_STEPS = 80000


# ---------------------------------------------------------------------------
# set-up of the implementation

_env = {}


def env(tick):
    import tests_env
    from bardolph.lib import settings
    if not _env:
        sc.install()
        tests_env.configure(clock='real')
        from bardolph.lib import clock
        clock.configure()
        install_marks()
        _env['ok'] = True
    settings.Settings._the_config['sleep_time'] = tick


def _mark(name, value=None):
    s = sc.active()
    if s is not None:
        s.mark(name, value)


def install_marks():
    """Annotating wrappers (no yield points, no change of behaviour) around the methods whose
    entry and exit delimit the observations."""
    from bardolph.lib.clock import Clock
    from bardolph.vm.machine import Machine
    from bardolph.controller.units import UnitMode
    from bardolph.lib.time_pattern import TimePattern
    from bardolph.fakes.activity_monitor import ActivityMonitor
    o_pf, o_wu, o_wait, o_mw, o_log = Clock.pause_for, Clock.wait_until, Clock.wait, Machine._wait, ActivityMonitor.log_call
    _env['orig_wait'] = o_wait

    def regs(self):
        return (self.__dict__.get('_v__cue_time'), self.__dict__.get('_v__start_time'))

    def pause_for(self, delay):
        _mark('pf_enter', delay)
        try:
            return o_pf(self, delay)
        finally:
            _mark('pf_exit', regs(self))

    def wait_until(self, pattern):
        _mark('wu_enter', None)
        try:
            return o_wu(self, pattern)
        finally:
            _mark('wu_exit', regs(self))

    def wait(self):
        _mark('wait_call', None)
        r = o_wait(self)
        _mark('wait_ret', bool(r))
        return r

    def m_wait(self):
        t = self._reg.time
        raw = self._reg.unit_mode is UnitMode.RAW
        _mark('mw_enter', ('pattern' if isinstance(t, TimePattern) else t, raw))
        try:
            return o_mw(self)
        finally:
            _mark('mw_exit', regs(self._clock))

    def log_call(self, name, *params):
        s = sc.active()
        if s is not None and not self._quiet:
            # a device command is an I/O operation: a thread switch can happen in front of it
            s.point(('device',))
            s.note('dev', None, getattr(name, 'name', str(name)))
            s.mark('device', getattr(name, 'name', str(name)))
            w = getattr(s, 'next_work', None)
            if w is not None:
                dt = w()
                if dt > 0:
                    s.v_sleep(dt)
        return o_log(self, name, *params)

    Clock.pause_for, Clock.wait_until, Clock.wait = pause_for, wait_until, wait
    Machine._wait = m_wait
    ActivityMonitor.log_call = log_call


# ---------------------------------------------------------------------------
# policies

def lazy_policy(rng, lazy_prefix, p=0.15):
    """Random, but the threads whose label starts with `lazy_prefix` are held up: picked only
    with probability p while something else can run."""
    def pol(s, r):
        others = [i for i, t in enumerate(r) if t == sc.TIME or not t.label.startswith(lazy_prefix)]
        mine = [i for i, t in enumerate(r) if t != sc.TIME and t.label.startswith(lazy_prefix)]
        if mine and (not others or rng.random() < p):
            return rng.choice(mine)
        return rng.choice(others)
    return pol


def make_policy(name, seed):
    rng = random.Random(seed)
    if name == 'rr':
        return sc.rr_policy
    if name == 'script-first':
        return sc.prio_policy(['S', 'J', 'K', 'T'])
    if name == 'random':
        return sc.random_policy(rng)
    if name == 'lazy-script':
        return lazy_policy(rng, ('S', 'J'))
    raise ValueError(name)


# ---------------------------------------------------------------------------
# running one case on the implementation

def make_pattern(texts):
    from bardolph.lib.time_pattern import TimePattern
    p = TimePattern.from_string(texts[0])
    if hasattr(p, 'copy'):
        p = p.copy()
    for t in texts[1:]:
        p.union(TimePattern.from_string(t))
    return p


def run_case(case):
    env(case['tick'])
    s = sc.Sched(schedule=case.get('schedule', []), policy=make_policy(case.get('policy', 'rr'), case.get('pseed', 0)),
                 max_steps=case.get('max_steps', MAX_STEPS), wall_guard=30.0, t0=T0)
    works = list(case.get('works', []))
    if case['kind'] == 'clock':
        from bardolph.lib.clock import Clock
        clk = Clock()
        items = case['items']

        def script():
            if case.get('rerun'):
                # the same Clock object has timed an earlier run (delays taken, stopped): a run starts its own time line
                clk.start()
                clk.pause_for(case['rerun'])
                clk.stop()
                _mark('rerun')
            clk.start()
            for i, it in enumerate(items):
                w = works[i] if i < len(works) else 0.0
                if w > 0:
                    s.v_sleep(w)
                if it[0] == 'D':
                    clk.pause_for(it[1])
                else:
                    clk.wait_until(make_pattern(it[1]))
            clk.stop()
        s.spawn(script, 'S1')
        label = 'S1'
    else:
        from bardolph.controller.script_job import ScriptJob
        job = ScriptJob.from_string(case['script'])
        if job.program is None:
            return {'outcome': 'compile-error', 'errors': job.compile_errors}
        wi = [iter(works)]
        s.next_work = lambda: next(wi[0], 0.0)

        def twice():
            # ScriptJob.execute reuses its Machine and Clock: the second run has a time line of its own
            job.execute()
            _mark('rerun')
            wi[0] = iter(works)
            job.execute()
        s.spawn(twice if case.get('rerun') else job.execute, 'J1')
        label = 'J1'
    # the run is over when the script thread has finished and the clock thread has either
    # finished too or been given 60 more steps (a clock thread that outlives its script is
    # counted, and reported by C09, not here)
    fin = {}

    def over(sch):
        t = sch.threads[0]
        if t.finished:
            fin.setdefault('at', sch.step)
            if sch.step - fin['at'] > 60:
                fin['leak'] = True
                return True
        return False
    s.done_when = over
    with sc.use(s):
        outcome = s.run()
    obs = extract(s, label)
    obs['clock_thread_outlives_script'] = bool(fin.get('leak'))
    obs['outcome'] = outcome
    obs['steps'] = s.step
    obs['effective'] = s.effective
    obs['blocked'] = s.blocked
    obs['errors'] = [(t.label, repr(t.error)) for t in s.threads if t.error is not None]
    return obs


def extract(s, label):
    """Observations of the script thread from the scheduler's log."""
    looks = []       # every look: [rd, h, m, kg]
    items = []
    devices = []     # (virtual time, index of the last finished item)
    cur = None
    outer = any(k == 'mark' and n == 'mw_enter' for (_, lab, k, n, v) in s.log if lab == label)
    enter = ('mw_enter',) if outer else ('pf_enter', 'wu_enter')
    leave = ('mw_exit',) if outer else ('pf_exit', 'wu_exit')
    log = s.log
    marks = [i for i, (step, lab, kind, name, value) in enumerate(log) if lab == label and kind == 'mark' and name == 'rerun']
    if marks:
        log = log[marks[-1] + 1:]       # a second run on the same objects: only that run is judged
    for (step, lab, kind, name, value) in log:
        if lab != label:
            continue
        if kind == 'time':
            sec = int(value) % 86400
            lk = [value, sec // 3600, (sec % 3600) // 60, True, 'time']
            looks.append(lk)
            if cur is not None:
                cur['looks'].append(lk)
        elif kind == 'now':
            lk = [value[2], value[0], value[1], True, 'now']
            looks.append(lk)
            if cur is not None:
                cur['looks'].append(lk)
        elif kind == 'mark':
            vnow, v = value
            if name in enter:
                cur = {'enter': name, 'arg': v, 'looks': [], 'waits': 0, 't_enter': vnow, 'stopped': False}
            elif name in leave and cur is not None:
                cur['regs'] = v
                cur['t_exit'] = vnow
                items.append(cur)
                cur = None
            elif name == 'wait_call' and cur is not None:
                cur['waits'] += 1
            elif name == 'wait_ret':
                if looks:
                    looks[-1][3] = v
                if cur is not None and not v:
                    cur['stopped'] = True
            elif name == 'device':
                devices.append((vnow, len(items), v))
    return {'looks': looks, 'items': items, 'devices': devices, 'unfinished': cur}


# ---------------------------------------------------------------------------
# Coq terms

def q(x):
    f = Fraction(x)
    n, d = f.numerator, f.denominator
    return '(%s # %d)%%Q' % (coq_z(n), d)


def show_q(x):
    f = Fraction(x)
    return '%d/%d' % (f.numerator, f.denominator)


def citem_term(ci):
    if ci[0] == 'D':
        return '(CD %s %s)' % (coq_bool(ci[1]), q(ci[2]))
    return '(CT %s)' % coq_list([coq_str(t) for t in ci[1]])


def case_items(case, obs):
    """The items as the specification / model see them: ('D', raw, t) | ('T', texts), paired
    with the observed items."""
    out = []
    if case['kind'] == 'clock':
        for it in case['items']:
            out.append(('D', False, it[1]) if it[0] == 'D' else ('T', it[1]))
    else:
        for w in case['waits']:
            out.append(('D', w[1], w[2]) if w[0] == 'D' else ('T', w[1]))
    return out


def spec_term(case, obs):
    cis = case_items(case, obs)
    rows = []
    for ci, it in zip(cis, obs['items']):
        rds = [lk[0] for lk in it['looks'] if lk[4] == 'time']
        hms = [(lk[1], lk[2]) for lk in it['looks'] if lk[4] == 'now']
        rows.append('(%s, %s, %s)' % (citem_term(ci), coq_list([q(r) for r in rds]),
                                       coq_list(['(%d, %d)' % hm for hm in hms])))
    start = obs['looks'][0][0] if obs['looks'] else T0
    return q(start), coq_list(rows)


def model_term(case, obs):
    cis = case_items(case, obs)
    oracle = coq_list(['(%s, %d, %d, %s)' % (q(lk[0]), lk[1], lk[2], coq_bool(lk[3])) for lk in obs['looks']])
    return coq_list([citem_term(ci) for ci in cis]), oracle


def impl_model_string(case, obs):
    """What the model is expected to print for this run."""
    if not obs['looks']:
        return 'no-start'
    out = show_q(obs['looks'][0][0]) + ';'
    for it in obs['items']:
        cue, start = it['regs']
        out += '%s,%d,%d,%s,%s;' % ('S' if it['stopped'] else 'R', it['waits'], len(it['looks']), show_q(start), show_q(cue))
    out += 'rest=0'
    return out


def chunks(l, n):
    return [l[i:i + n] for i in range(0, len(l), n)]


def eval_many(tag, imports, exprs, per_file=40):
    files = [''.join('Eval vm_compute in (%s).\n' % e for e in part) for part in chunks(exprs, per_file)]
    res = common.run_cases(tag, imports, files)
    out = []
    for (ok, strs, log), part in zip(res, chunks(exprs, per_file)):
        if not ok or len(strs) != len(part):
            raise RuntimeError('coq evaluation failed (%s): %s' % (tag, log[-1500:]))
        out.extend(strs)
    return out


# ---------------------------------------------------------------------------
# generators

TICKS = [1 / 64, 1 / 8, 0.25, 0.5, 1.0, 1.5, 3.0]
POLICIES = ['rr', 'script-first', 'random', 'lazy-script']


def gen_delay(rng):
    r = rng.random()
    if r < 0.45:
        return rng.randint(1, 256) / 64.0            # fractional, up to 4 s
    return rng.randint(1, 80) / 4.0                  # up to 20 s


def gen_work(rng, delay):
    r = rng.random()
    if r < 0.35:
        return 0.0
    if r < 0.6:
        return rng.randint(1, 128) / 64.0
    if r < 0.8:
        return max(0.0, delay + rng.choice([-0.5, -1 / 64, 0.0, 1 / 64, 0.25, 2.0]))   # about as long as the delay
    return delay * rng.choice([1.5, 2.0]) + rng.randint(0, 64) / 64.0                    # behind schedule


def pattern_for(rng, t_est, wide=False):
    """`time at` texts whose first match is a few minutes after the estimated virtual time;
    `wide` = only forms that match for ten minutes in a row (for runs whose script thread is
    held up for an unpredictable time)."""
    sec = int(t_est) % 86400
    mins = (sec // 60 + rng.randint(1, 2)) % 1440
    h, m = mins // 60, mins % 60
    if wide:
        nxt = (mins + 10) % 1440
        forms = [['%d:%d*' % (h, m // 10), '%d:%d*' % (nxt // 60, (nxt % 60) // 10)],
                 ['*:%d*' % (m // 10), '*:%d*' % ((nxt % 60) // 10)], ['*:*'], ['%d*:*' % (h // 10), '%d*:*' % (((h + 1) % 24) // 10)]]
        return list(dict.fromkeys(rng.choice(forms)))
    forms = ['%d:%02d' % (h, m), '%02d:%02d' % (h, m), '*:%02d' % m, '%d:%d*' % (h, m // 10), '*%d:%02d' % (h % 10, m),
             '%d*:%02d' % (h // 10, m), '*:*%d' % (m % 10)]
    texts = [rng.choice(forms)]
    if rng.random() < 0.4:
        far = (mins + rng.randint(200, 700)) % 1440
        texts.insert(rng.randint(0, 1), '%d:%02d' % (far // 60, far % 60))
    return texts


def gen_clock_case(rng, idx):
    tick = rng.choice(TICKS)
    n = rng.randint(1, 6)
    items, works = [], []
    t_est = T0
    big = rng.random() < 0.12
    policy = POLICIES[idx % len(POLICIES)]
    if big:
        # large delay values: a coarse tick and mostly work, so that the run stays short
        tick = float(rng.choice([600, 900, 3600]))
    for _ in range(n):
        if not big and rng.random() < 0.08:
            texts = pattern_for(rng, t_est + 1.0, wide=(policy in ('random', 'lazy-script')))
            w = rng.choice([0.0, 0.5, 2.0, 30.0])
            items.append(('T', texts))
            works.append(w)
            t_est += w + 200.0
            tick = max(tick, 0.5)
        elif big and rng.random() < 0.6:
            d = float(rng.choice([3600, 86400, 3 * 86400, 7200.5]))
            w = d + rng.choice([-1.0, -0.25, 0.0, 0.5, 5.0, 4000.0])
            items.append(('D', d))
            works.append(w)
            t_est += max(d, w)
        else:
            d = gen_delay(rng)
            w = gen_work(rng, d)
            if rng.random() < 0.1:
                d = float(rng.choice([30, 60, 90, 600]))
                w = d + rng.choice([-1.0, -0.25, 0.0, 0.5, 5.0])
            items.append(('D', d))
            works.append(w)
            t_est += max(d, w)
    # keep the number of ticks spent waiting moderate
    longest = max([it[1] - w for it, w in zip(items, works) if it[0] == 'D'] + [0.0])
    span = sum(max(it[1], w) if it[0] == 'D' else w + 120.0 for it, w in zip(items, works))
    if not big:
        ok = [t for t in TICKS + [7.5, 30.0] if t * 80 >= longest and t * 300 >= span]
        if tick not in ok:
            tick = rng.choice(ok[:2] or [30.0])
        if any(it[0] == 'T' for it in items):
            tick = max(tick, 1.0)
    L = rng.choice([0, 0, 20, 100, 400])
    return {'kind': 'clock', 'tick': tick, 'items': items, 'works': works,
            'schedule': [rng.randrange(1 << 16) for _ in range(L)],
            'policy': policy, 'pseed': rng.randrange(1 << 30)}


COMMANDS = ['set all', 'on all', 'off all', 'set "light_1"', 'on "light_1"']


def gen_script_case(rng, idx):
    """End-to-end: `time N <command>`, `units raw time MS <command>`, `time at P <command>`,
    `time 0 <command>` through the real Parser and Machine."""
    tick = rng.choice([0.25, 0.5, 1.0])
    raw = False
    lines = ['hue 120 saturation 50 brightness 50 kelvin 2700']
    defs = []
    waits = []          # what each WAIT instruction will find in the time register
    works = []
    cur = ('D', False, 0.0)
    t_est = T0
    for _ in range(rng.randint(1, 5)):
        r = rng.random()
        if r < 0.15 and cur[0] == 'D':
            raw = not raw
            # rgb units count time in seconds like logical units
            lines.append('units raw' if raw else rng.choice(['units logical', 'units logical', 'units rgb']))
            cur = ('D', raw, cur[2] * 1000.0 if raw else cur[2] / 1000.0)
        elif r < 0.22 and not raw and cur[0] == 'D':
            lines.append(rng.choice(['units rgb', 'units logical']))
        r = rng.random()
        if r < 0.15:
            texts = pattern_for(rng, t_est + 1.0, wide=(POLICIES[idx % len(POLICIES)] in ('random', 'lazy-script')))
            lines.append('time at ' + ' or '.join(texts))
            cur = ('T', texts)
        elif r < 0.3:
            lines.append('time 0')
            cur = ('D', raw, 0)
        elif r < 0.85:
            secs = rng.choice([rng.randint(1, 64) / 8.0, rng.randint(1, 20) / 2.0, 2.0, 1.5])
            if raw:
                ms = secs * 1000.0
                lines.append('time %s' % (int(ms) if ms == int(ms) else ms))
                cur = ('D', True, int(ms) if ms == int(ms) else ms)
            else:
                lines.append('time %s' % (int(secs) if secs == int(secs) and rng.random() < 0.5 else secs))
                cur = ('D', False, secs)
        # else: keep the time register
        for _ in range(rng.randint(1, 2)):
            cmd = rng.choice(COMMANDS)
            if rng.random() < 0.25:
                # the command sits in a routine: the delay is taken there, when the routine is called
                nm = 'rt%d' % len(defs)
                if rng.random() < 0.5 and cmd.endswith('"light_1"'):
                    defs.append('define %s with lt begin %s lt end' % (nm, cmd.split(' ')[0]))
                    cmd = '%s "light_1"' % nm
                else:
                    defs.append('define %s begin %s end' % (nm, cmd))
                    cmd = nm
            lines.append(cmd)
            waits.append(cur)
            works.append(rng.choice([0.0, 0.0, 1 / 8, 0.5, 1.75, 4.0]))
            t_est += 200.0 if cur[0] == 'T' else max(float(cur[2]) / (1000.0 if cur[1] else 1.0), works[-1])
    L = rng.choice([0, 0, 30, 150])
    return {'kind': 'script', 'tick': tick, 'script': '\n'.join(defs + lines) + '\n', 'waits': waits, 'works': works,
            'schedule': [rng.randrange(1 << 16) for _ in range(L)],
            'policy': POLICIES[idx % len(POLICIES)], 'pseed': rng.randrange(1 << 30)}


FIXED_SCRIPTS = [
    # the three forms named in the property, alone and combined
    {'script': 'time 2 set all\n', 'waits': [('D', False, 2)], 'works': [0.0]},
    {'script': 'units raw time 1500 set all\n', 'waits': [('D', True, 1500)], 'works': [0.0]},
    {'script': 'time at 13:48 set all\n', 'waits': [('T', ['13:48'])], 'works': [0.0]},
    {'script': 'units rgb time 2 set all\n', 'waits': [('D', False, 2)], 'works': [0.0]},
    {'script': 'time 1.5 units rgb set all on all units logical set all\n', 'waits': [('D', False, 1.5)] * 3, 'works': [0.0, 0.25, 0.0]},
    {'script': 'units raw time 750 set all units rgb set all\n', 'waits': [('D', True, 750), ('D', False, 0.75)], 'works': [0.0, 0.0]},
    {'script': 'time 2 set all set all set all\n', 'waits': [('D', False, 2)] * 3, 'works': [0.5, 3.5, 0.0]},
    {'script': 'time 0 set all on all\n', 'waits': [('D', False, 0)] * 2, 'works': [1.0, 1.0]},
    {'script': 'time 1 set all time at 13:4* or 9:15 set all time 1.5 set all set all\n',
     'waits': [('D', False, 1), ('T', ['13:4*', '9:15']), ('D', False, 1.5), ('D', False, 1.5)], 'works': [0.0, 0.25, 2.5, 0.0]},
    {'script': 'define blink with l begin on l off l end\ntime 2 blink "light_1" set all\n', 'waits': [('D', False, 2)] * 3, 'works': [0.0, 0.0, 0.0]},
    {'script': 'define both begin set all on all end\nunits raw time 500 both time at 13:48 both\n',
     'waits': [('D', True, 500), ('D', True, 500), ('T', ['13:48']), ('T', ['13:48'])], 'works': [0.0, 0.0, 0.0, 0.0]},
    {'script': 'time 2 set all units raw set all time 250 set all units logical set all\n',
     'waits': [('D', False, 2), ('D', True, 2000.0), ('D', True, 250), ('D', False, 0.25)], 'works': [0.0, 0.0, 0.0, 0.0]},
]


# ---------------------------------------------------------------------------
# judging

SIGS = {'early': 'C10/delay-ends-early', 'overslept': 'C10/delay-overslept', 'late-added': 'C10/lateness-accumulated',
        'zero-blocked': 'C10/zero-delay-blocks', 'no-reading': 'C10/delay-skipped', 'time-at-wrong': 'C10/time-at-wrong-moment'}


def classify(case, obs, k, verdict):
    """Stable signature of a failed item: the verdict, refined by two what-if readings."""
    cis = case_items(case, obs)
    ci = cis[k]
    sig = SIGS.get(verdict, 'C10/' + verdict)
    if ci[0] != 'D' or verdict not in ('early', 'overslept', 'late-added'):
        return sig
    it = obs['items'][k]
    rds = [Fraction(lk[0]) for lk in it['looks'] if lk[4] == 'time']
    if not rds:
        return sig

    def fits(deadline):
        return all(r < deadline for r in rds[:-1]) and rds[-1] >= deadline

    def seconds(c, flip=False):
        t = Fraction(c[2])
        raw = c[1] != flip
        return t / 1000 if raw else t
    # origin and due as the specification computes them
    origin = Fraction(obs['looks'][0][0])
    due = Fraction(0)
    origin0, due0 = origin, Fraction(0)
    for j in range(k):
        cj = cis[j]
        if cj[0] == 'T':
            origin, due = Fraction(obs['items'][j]['looks'][-1][0]), Fraction(0)
        elif Fraction(cj[2]) > 0:
            due += seconds(cj)
            due0 += seconds(cj)
    if fits(origin + due + seconds(ci, flip=True)):
        return 'C10/raw-time-not-milliseconds' if ci[1] else 'C10/logical-time-taken-as-milliseconds'
    if any(c[0] == 'T' for c in cis[:k]) and fits(origin0 + due0 + seconds(ci)):
        return 'C10/time-at-does-not-restart'
    return sig


def check_cases(ctx, cases, tag):
    """Run the cases on the implementation, judge with the specification, compare with the model."""
    results = []
    for case in cases:
        try:
            obs = run_case(case)
        except Exception as ex:     # the harness itself
            raise
        results.append(obs)
    # --- sanity of the runs themselves
    usable = []
    for case, obs in zip(cases, results):
        ctx.count()
        replay = {k: case[k] for k in case if k not in ('schedule', 'policy', 'pseed')}
        replay['schedule'] = obs.get('effective', [])
        replay['policy'] = 'rr'
        if obs['outcome'] == 'compile-error':
            ctx.counterexample('C10/script-rejected', 'script does not compile: %r' % case['script'], replay)
            continue
        n_expected = len(case['items'] if case['kind'] == 'clock' else case['waits'])
        if obs['errors']:
            ctx.counterexample('C10/exception-in-thread', 'exception %s in a thread while running %s' % (obs['errors'][0], describe(case)), replay)
            continue
        if obs['outcome'] != 'done' or len(obs['items']) != n_expected:
            what = ('%s: outcome %s after %d steps, %d of %d waits finished, blocked: %s'
                    % (describe(case), obs['outcome'], obs['steps'], len(obs['items']), n_expected, obs['blocked']))
            ctx.counterexample('C10/wait-never-returns' if obs['outcome'] in ('deadlock', 'steps') else 'C10/run-incomplete', what, replay)
            continue
        if obs.get('clock_thread_outlives_script'):
            ctx.extra['clock_thread_outlives_script'] = ctx.extra.get('clock_thread_outlives_script', 0) + 1
        usable.append((case, obs, replay))
    # --- oracle: specification
    spec_exprs = []
    for case, obs, _ in usable:
        st, rows = spec_term(case, obs)
        spec_exprs.append('spec_case %s %s' % (st, rows))
        spec_exprs.append('spec_tick_case %s %s %s' % (st, q(min(case['tick'], 1.0) if timeout_in_force() else case['tick']), rows))
    spec_out = eval_many('c10s' + tag, 'From Coq Require Import QArith. From Bardolph Require Import Run.C10Spec.', spec_exprs)
    for i, (case, obs, replay) in enumerate(usable):
        verdicts = [x.split('@') for x in spec_out[2 * i].split(';')[:-1]]
        ticks = spec_out[2 * i + 1]
        cis = case_items(case, obs)
        key = (case['kind'], tuple(c[0] for c in cis), sum(it['waits'] for it in obs['items']) > 0,
               any(it['waits'] == 0 and c[0] == 'D' and float(c[2]) > 0 for c, it in zip(cis, obs['items'])))
        if any(it['waits'] > 0 for it in obs['items']):
            ctx.nontriv(('%s#%d' % (tag, i),) + key)
        for k, (v, dl) in enumerate(verdicts):
            ctx.extra.setdefault('verdicts', {}).setdefault(v, 0)
            ctx.extra['verdicts'][v] += 1
            if v != 'ok':
                it = obs['items'][k]
                rds = [lk[0] for lk in it['looks'] if lk[4] == 'time']
                sig = classify(case, obs, k, v)
                ctx.counterexample(sig, 'wait #%d (%s) of %s: %s; deadline %s, readings taken %s, ended at %s after %d wait() calls'
                                   % (k + 1, cis[k], describe(case), v, dl, rds[:6], it['t_exit'], it['waits']), replay)
        # behind schedule (the first clock reading of the delay is already at or past its deadline) or a zero delay:
        # the delay ends at once, without a single wait for the clock thread
        for k, (v, dl) in enumerate(verdicts):
            if k >= len(obs['items']) or cis[k][0] != 'D':
                continue
            it = obs['items'][k]
            rds = [lk[0] for lk in it['looks'] if lk[4] == 'time']
            num, den = dl.split('/')
            if rds and Fraction(rds[0]) >= Fraction(int(num), int(den)) and it['waits'] > 0:
                ctx.counterexample('C10/late-or-zero-delay-waits', 'wait #%d (%s) of %s was entered at %s, at or after its deadline %s, and still waited for %d tick(s)'
                                   % (k + 1, cis[k], describe(case), rds[0], dl, it['waits']), replay)
        if len(verdicts) != len(obs['items']):
            k = max(0, len(verdicts) - 1)
            it = obs['items'][k]
            n_rd = len([lk for lk in it['looks'] if lk[4] == 'time'])
            if cis[k][0] == 'T' and n_rd == 0:
                ctx.counterexample('C10/time-at-does-not-restart', 'time-of-day wait #%d of %s ended without restarting the time line (no clock reading taken, _start_time %s, _cue_time %s)'
                                   % (k + 1, describe(case), it['regs'][1], it['regs'][0]), replay)
            else:
                ctx.counterexample('C10/time-at-wrong-moment', 'wait #%d of %s: %d clock readings where one restart is expected' % (k + 1, describe(case), n_rd), replay)
        if case.get('policy') == 'script-first' and not case.get('schedule'):
            for k, b in enumerate(ticks):
                if b != 'T':
                    ctx.counterexample('C10/not-within-one-tick', 'wait #%d of %s (script thread never held up, tick %s): ended at %s, one tick or more after its deadline %s'
                                       % (k + 1, describe(case), case['tick'], obs['items'][k]['t_exit'], verdicts[k][1] if k < len(verdicts) else '?'), replay)
        # device commands: after the wait in front of them, not before its deadline
        for (t_dev, n_items, name) in obs['devices']:
            if n_items == 0:
                continue
            if n_items <= len(verdicts):
                num, den = verdicts[n_items - 1][1].split('/')
                if cis[n_items - 1][0] == 'D' and Fraction(t_dev) < Fraction(int(num), int(den)) and Fraction(cis[n_items - 1][2]) > 0:
                    ctx.counterexample('C10/command-before-delay-ended', 'device command %s at %s before the deadline %s of the delay in front of it (%s)'
                                       % (name, t_dev, verdicts[n_items - 1][1], describe(case)), replay)
        if case['kind'] == 'script' and len(obs['devices']) != len(case['waits']):
            ctx.counterexample('C10/commands-missing', '%d device commands for %d command statements in %s' % (len(obs['devices']), len(case['waits']), describe(case)), replay)
    # --- correspondence: model
    if ctx.model_runnable and usable:
        exprs = []
        for case, obs, _ in usable:
            items, oracle = model_term(case, obs)
            exprs.append('model_case %s %s' % (items, oracle))
        out = eval_many('c10m' + tag, 'From Coq Require Import QArith. From Bardolph Require Import Run.C10Spec Run.C10Model.', exprs)
        bad = 0
        for (case, obs, replay), got in zip(usable, out):
            want = impl_model_string(case, obs)
            if got != want:
                bad += 1
                if bad <= 3:
                    ctx.broken_tie('correspondence', 'clock model vs implementation', {'case': describe(case), 'implementation': want, 'model': got,
                                                                                      'schedule': replay['schedule'][:400]})
    for case, obs, _ in usable[:2]:
        ctx.sample({'case': describe(case), 'steps': obs['steps'],
                    'waits': [(it['arg'], it['waits'], it['t_exit']) for it in obs['items']]})
    return usable


def timeout_in_force():
    import inspect
    return 'wait(1.0)' in inspect.getsource(_env['orig_wait'])


def describe(case):
    if case['kind'] == 'clock':
        return 'clock run (tick %s, items %s, work %s, policy %s)' % (case['tick'], case['items'], case['works'], case.get('policy'))
    return 'script %r (tick %s, work %s, policy %s)' % (case['script'], case['tick'], case['works'], case.get('policy'))


# ---------------------------------------------------------------------------

def run(ctx):
    ctx.rule = ('one case = one run of the real Clock (or Parser+Machine+Clock) on real threads under a generated '
                'interleaving with virtual time; non-trivial = at least one wait actually blocked on the clock thread; '
                'distinct = distinct case')
    ctx.assumptions += [
        'virtual time: time.time/time.sleep/datetime.now inside clock.py are replaced; real-time latency and OS scheduling are not exhibited',
        'delay values, work amounts and tick lengths are dyadic rationals so that the float arithmetic of _cue_time += delay and et() is exact; '
        'floating-point accumulation is outside (DESIGN 9)',
        'every shared access of Clock/Machine is a yield point and single accesses are atomic (DESIGN 8)',
    ]
    ctx.trusted += ['harness/sched_clock.py (deterministic scheduler, controlled Thread/Event, virtual time)']
    rng = ctx.rng
    env(0.5)
    n_clock = 2500 if ctx.thorough() else 260
    n_script = 1200 if ctx.thorough() else 110
    clock_cases = [gen_clock_case(rng, i) for i in range(n_clock)]
    for i, c in enumerate(clock_cases):
        if i % 9 == 4 and c['tick'] <= 1.0:
            c['rerun'] = rng.choice([0.5, 1.0, 2.5])
    ctx.stage('generate')
    check_cases(ctx, clock_cases, 'c')
    ctx.stage('clock-level')
    script_cases = []
    for i, f in enumerate(FIXED_SCRIPTS):
        for pol in POLICIES:
            c = dict(f)
            c.update({'kind': 'script', 'tick': 0.5, 'schedule': [], 'policy': pol, 'pseed': i})
            script_cases.append(c)
    script_cases += [gen_script_case(rng, i) for i in range(n_script)]
    for i, c in enumerate(script_cases):
        if i % 7 == 3 and all(w[0] == 'D' for w in c.get('waits', [('T',)])):
            c['rerun'] = True
    check_cases(ctx, script_cases, 's')
    ctx.stage('end-to-end')
    ctx.extra['clock_cases'] = len(clock_cases)
    ctx.extra['script_cases'] = len(script_cases)
    ctx.extra['wait_timeout_in_force'] = timeout_in_force()


def replay(ctx, payload):
    case = payload.get('input', {})
    ctx.model_runnable = False
    before = len(ctx.counterexamples)
    check_cases(ctx, [case], 'r')
    for c in ctx.counterexamples[before:]:
        print('  %s: %s' % (c['sig'], c['what']))
    return len(ctx.counterexamples) == before
