"""C14 -- switching units re-expresses settings without changing what the lights get.

Relational runs on the REAL pipeline (Parser + Machine + LightSet + production wrappers over fake
lifxlan devices): the same script with and without `units X` statements (single transitions, a
switch to the mode in force, and chains of up to four) before `set "L1"`; observed: the nine
settings printed after every `units` statement, the colour and duration arriving at the device,
the pause handed to the clock.

  O   oracle (relations of the specification Num/UnitsQ, evaluated in Coq): transmitted colour,
      duration and pending delay agree with the run without the switch to within one raw unit
      (colours compared as colours when rgb is involved; hue 0 = 65535); settings outside the
      documented list of the transition are bit-for-bit unchanged; kelvin is never altered; a
      switch to the mode in force changes nothing;
  T2  correspondence: registers after the chain, transmitted integers and pause vs the model
      Num/Switch.switch_chain / set_transmits / pending_wait -- bit for bit.
  (T1, the translator validation of the conversion functions, is part of the C07 check.)
"""
import itertools
import math

import common
import units_env as U
from units_env import float_code, coq_f

MODEL_TARGETS = ['Run/C14Model.vo']
EXTRA_TARGETS = ['Run/C14Spec.vo', 'Run/C14Model.vo']
SPEC_IMPORT = 'From Bardolph Require Import Run.C14Spec.'
MODEL_IMPORT = 'From Bardolph Require Import Run.C14Model.'

SETTINGS = ['hue', 'saturation', 'brightness', 'kelvin', 'red', 'green', 'blue', 'duration', 'time']
MI = {'logical': 0, 'raw': 1, 'rgb': 2}


def script_for(m0, regs, chain):
    """The switches are written plainly or, with the same meaning, through control flow: inside a taken `if`, a one-pass loop,
    a routine, or after an untaken `if` that names another mode (what is in force is decided at run time, not by source order)."""
    import random
    pick = random.Random(repr((m0, regs, chain)))
    defs = ''
    src = 'units %s\n' % m0
    src += ' '.join('%s %s' % (n, U.lit(v)) for n, v in zip(SETTINGS, regs)) + '\n'
    pr = ' '.join('print %s' % n for n in SETTINGS) + '\n'
    src += pr
    for k, x in enumerate(chain):
        form = pick.choice(['plain', 'plain', 'if', 'loop', 'routine', 'decoy'])
        if form == 'plain':
            src += 'units %s\n' % x
        elif form == 'if':
            src += 'if {1} units %s\n' % x
        elif form == 'loop':
            src += 'repeat 1 begin units %s end\n' % x
        elif form == 'routine':
            defs += 'define sw_%d begin units %s end\n' % (k, x)
            src += 'sw_%d\n' % k
        else:
            other = pick.choice([m for m in U.MODES if m != x])
            src += 'if {0} units %s\nunits %s\n' % (other, x)
        src += pr
    src += 'set "L1"\n'
    return defs + src


class Obs:
    pass


def observe(world, m0, regs, chain):
    src = script_for(m0, regs, chain)
    r = U.run_script(world, src)
    o = Obs()
    o.src, o.errors, o.ok = src, r.errors, False
    if not r.compiled:
        raise RuntimeError('generated script does not compile: %r %r' % (src, r.errors))
    if r.errors:
        return o
    printed = [x for x in r.printed if not (isinstance(x, str) and x.strip() == '')]
    if len(printed) != 9 * (len(chain) + 1) or not all(isinstance(x, (int, float)) and not isinstance(x, bool) for x in printed):
        o.errors = ['printed %r' % (printed[:12],)]
        return o
    o.steps = [printed[i * 9:(i + 1) * 9] for i in range(len(chain) + 1)]
    sent = [e for e in r.calls.get('L1', []) if e[0] == 'color']
    others = [e for n, l in r.calls.items() for e in l if not (n == 'L1' and e[0] == 'color')]
    if len(sent) != 1 or others:
        o.errors = ['calls %r' % (r.calls,)]
        return o
    o.sent = list(sent[0][1]) + [sent[0][2]]
    if len(r.pauses) > 1 or any(isinstance(p, tuple) for p in r.pauses):
        o.errors = ['pauses %r' % (r.pauses,)]
        return o
    o.pause = r.pauses[0] if r.pauses else None
    o.ok = True
    return o


def pools(rng):
    def eighth(lo, hi):
        return rng.randrange(int(lo * 8), int(hi * 8) + 1) / 8.0

    def milli(lo, hi):
        return rng.randrange(int(lo * 1000), int(hi * 1000) + 1) / 1000.0
    p = {}
    p['hue'] = lambda: rng.choice([lambda: rng.choice([0, 1, 30, 60, 90, 120, 180, 240, 300, 359, 360]), lambda: eighth(0, 360),
                                   lambda: milli(0, 360), lambda: rng.choice([0.001, 359.999, 359.99999, 0.0055, 179.9973])])()
    p['pct'] = lambda: rng.choice([lambda: rng.choice([0, 0, 1, 10, 25, 50, 75, 99, 100, 100]), lambda: eighth(0, 100),
                                   lambda: milli(0, 100), lambda: rng.choice([0.001, 99.999, 0.125, 33.3, 66.6, 12.5])])()
    p['raw'] = lambda: rng.choice([lambda: rng.choice([0, 0, 1, 2, 255, 32767, 32768, 65534, 65535, 65535]),
                                   lambda: rng.randrange(0, 65536)])()
    p['kelvin'] = lambda: rng.choice([0, 1500, 2500, 2700, 3500, 4000, 6500, 9000, 2700.5, 3500.25, 1500.5, 2501.5, 0.5, milli(1500, 9000)])
    p['seconds'] = lambda: rng.choice([0, 0, 1, 2, 1.5, 2.5, 0.001, 0.25, 10, 33.333, 3600, milli(0, 100), eighth(0, 600)])
    p['ms'] = lambda: rng.choice([0, 0, 1, 2500, 10000, 1500, 250, rng.randrange(0, 100000), 3600000])
    return p


def gen_regs(rng, p, m0):
    if m0 == 'raw':
        hsb = [p['raw'](), p['raw'](), p['raw']()]
        rgb = [p['pct'](), p['pct'](), p['pct']()]
        times = [p['ms'](), p['ms']()]
    else:
        hsb = [p['hue'](), p['pct'](), p['pct']()]
        rgb = [p['pct'](), p['pct'](), p['pct']()]
        times = [p['seconds'](), p['seconds']()]
    return hsb + [p['kelvin']()] + rgb + times


FIXED = {
    'logical': [[120, 100, 100, 2500, 7, 8, 9, 1.5, 1.5], [180, 50, 50, 2700.5, 1, 2, 3, 2.5, 0], [360, 100, 100, 2700, 0, 0, 0, 0, 0],
                [0, 0, 0, 0, 0, 0, 0, 0, 0], [165, 100, 50, 2700, 10, 20, 30, 2.5, 10], [200.5, 0, 62.5, 3500.25, 4, 5, 6, 0.001, 0.25]],
    'raw': [[30000, 65535, 32767, 2700, 7, 8, 9, 2500, 10000], [65535, 65535, 65535, 2700.5, 1, 2, 3, 1, 0], [0, 0, 0, 0, 0, 0, 0, 0, 0],
            [21845, 0, 40000, 3500.25, 4, 5, 6, 1500, 250], [43690, 32768, 0, 9000, 4, 5, 6, 0, 1]],
    'rgb': [[0, 0, 0, 2500, 0, 0, 100, 3.5, 2.5], [7, 8, 9, 2700.5, 50, 0, 50, 1, 0], [1, 2, 3, 2700, 80, 80, 80, 0, 0],
            [1, 2, 3, 3500.25, 0, 0, 0, 2, 1], [1, 2, 3, 4000, 12.5, 33.3, 66.6, 0.5, 0], [5, 5, 5, 1500.5, 100, 100, 100, 0, 0]],
}


def fcodes(vals):
    return [float_code(v) for v in vals]


def run(ctx):
    U.fix_axioms(ctx)
    ctx.rule = ('register contents within the documented valid ranges (hue 0..360, percentages 0..100, raw integers 0..65535, '
                'non-negative times; unused settings hold valid sentinels) drawn from pools of integers, eighths and thousandths, '
                'per initial mode; each is run without a switch, with each single transition, with a switch to the mode in force '
                'and with random chains of 2..4 transitions; all 120 chains of length <= 4 on the fixed register sets; a case is '
                'non-trivial when the chain contains a real transition; distinct = distinct (mode, registers, chain)')
    ctx.assumptions += ['raw registers hold integers (the documentation defines raw values as integers)',
                        'statements over exact rationals (Q) describe the formulas as real arithmetic; the binary64 sweep theorem is bit-exact; '
                        'the two are related by these runs, not by a theorem (DESIGN section 9)']
    rng = ctx.rng
    quick = not ctx.thorough()
    world = U.World('wire')
    p = pools(rng)
    n_sets = 260 if quick else 6000
    plans = []          # (m0, regs, chain)
    all_chains = [list(c) for n in range(1, 5) for c in itertools.product(U.MODES, repeat=n)]
    for m0 in U.MODES:
        for i, regs in enumerate(FIXED[m0]):
            for ch in (all_chains if (i < 3 or not quick) else [c for c in all_chains if len(c) <= 2]):
                plans.append((m0, regs, ch))
        for _ in range(n_sets):
            regs = gen_regs(rng, p, m0)
            for x in U.MODES:
                plans.append((m0, regs, [x]))
            for _ in range(2):
                plans.append((m0, regs, [rng.choice(U.MODES) for _ in range(rng.choice([2, 3, 4]))]))
    ctx.extra['plans'] = len(plans)
    ctx.extra['register_sets'] = 3 * (n_sets + 6)
    base = {}
    results = []
    for m0, regs, ch in plans:
        key = (m0, tuple(regs))
        if key not in base:
            base[key] = observe(world, m0, regs, [])
        o = observe(world, m0, regs, ch)
        results.append(o)
    ctx.stage('scripts')

    # a time-of-day wait pending across the switch: the pattern is left alone, the duration is still re-expressed
    for f in U.MODES:
        for t in U.MODES:
            for dur in ([2.5, 0.75, 10] if f != 'raw' else [2500, 750, 10000]):
                for pat in ['12:34', '1:*5']:
                    head = 'units %s hue 1 saturation 1 brightness 1 kelvin 2000 red 1 green 1 blue 1 duration %s time at %s\n' % (f, dur, pat)
                    a = U.run_script(world, head + 'set "L1"\n')
                    b = U.run_script(world, head + 'units %s\nset "L1"\n' % t)
                    ctx.count()
                    da = [e[2] for e in a.calls.get('L1', []) if e[0] == 'color']
                    db = [e[2] for e in b.calls.get('L1', []) if e[0] == 'color']
                    if a.errors or b.errors or len(da) != 1 or da != db or a.pauses != b.pauses:
                        ctx.counterexample('C14/switch-with-pending-time-of-day-%s-to-%s' % (f, t),
                                           'with `time at %s` pending, `units %s` after `units %s duration %s` changes what is sent or awaited: duration %r -> %r, waits %r -> %r, errors %r'
                                           % (pat, t, f, dur, da, db, a.pauses, b.pauses, (a.errors + b.errors)[:1]), {'script': head + 'units %s\nset "L1"\n' % t, 'baseline_script': head + 'set "L1"\n'})
    ctx.stage('pending-time-of-day')

    frame_items, frame_meta = [], []
    sent_items, sent_meta = [], []
    delay_items, delay_meta = [], []
    model_items, model_meta = [], []
    for (m0, regs, ch), o in zip(plans, results):
        b = base[(m0, tuple(regs))]
        ctx.count()
        if any(x != y for x, y in zip([m0] + ch, ch)):
            ctx.nontriv((m0, tuple(repr(x) for x in regs), tuple(ch)))
        if not b.ok or not o.ok:
            bad = b if not b.ok else o
            ctx.counterexample('C14/script-aborted', 'a script that sets registers, switches units and sets a light is aborted or misbehaves: %s'
                               % (bad.errors[0][:300] if bad.errors else '?'), {'script': bad.src})
            continue
        modes = [m0] + ch
        for i in range(len(ch)):
            frame_items.append('(%d, %d, %s, %s)' % (MI[modes[i]], MI[modes[i + 1]],
                                                   common.coq_list([coq_f(x) for x in o.steps[i]]), common.coq_list([coq_f(x) for x in o.steps[i + 1]])))
            frame_meta.append((m0, regs, ch, i, o))
        as_colour = 'rgb' in modes
        sent_items.append('(%s, %s, %s)' % (common.coq_bool(as_colour), common.coq_list([common.coq_z(z) for z in b.sent]),
                                            common.coq_list([common.coq_z(z) for z in o.sent])))
        sent_meta.append((m0, regs, ch, b, o))
        opt = lambda x: 'None' if x is None else '(Some %s)' % coq_f(x)
        delay_items.append('(%s, %s)' % (opt(b.pause), opt(o.pause)))
        delay_meta.append((m0, regs, ch, b, o))
        model_items.append('(%d, %s, %s)' % (MI[m0], common.coq_list([coq_f(x) for x in regs]), common.coq_list([str(MI[x]) for x in ch])))
        model_meta.append((m0, regs, ch, o))

    # frame, kelvin, same-mode
    got = U.coq_eval('c14frm', SPEC_IMPORT, 'frame_cases', frame_items, per_file=500)
    for v, (m0, regs, ch, i, o) in zip(got, frame_meta):
        ctx.count()
        if '!' not in v:
            continue
        modes = [m0] + ch
        f, t = modes[i], modes[i + 1]
        for j, c in enumerate(v):
            if c != '!':
                continue
            before, after = o.steps[i][j], o.steps[i + 1][j]
            name = SETTINGS[j]
            if f == t:
                sig = 'C14/same-mode-switch-changes-%s' % name
                what = '`units %s` while in %s units changes %s from %r to %r' % (t, f, name, before, after)
            elif name == 'kelvin':
                sig = 'C14/%s-to-%s-%s' % (f, t, 'rounds-kelvin' if (U.is_finite(float(before)) and after == round(before)) else 'alters-kelvin')
                what = '`units %s` while in %s units changes kelvin from %r to %r' % (t, f, before, after)
            else:
                sig = 'C14/%s-to-%s-rewrites-%s' % (f, t, name)
                what = '`units %s` while in %s units changes %s from %r to %r although the documentation lists it as unaltered' % (t, f, name, before, after)
            # minimal script: the registers before that step, one transition
            mini = script_for(f, o.steps[i], [t])
            ctx.counterexample(sig, what + '; script %r' % mini, {'script': mini, 'from': f, 'to': t, 'setting': name,
                                                                 'before': repr(before), 'after': repr(after)})
    ctx.stage('frame')

    # transmission.  A failing chain is blamed on the first transition after which the
    # transmitted values depart from those of the run without a switch, so that the signature
    # names a transition, not one of the many chains that contain it.
    def blame(m0, regs, ch, b, kind):
        modes = [m0] + ch
        for k in range(1, len(ch) + 1):
            o2 = observe(world, m0, regs, ch[:k])
            if not o2.ok:
                return modes[k - 1], modes[k], o2
            if kind == 'delay':
                item = '(%s, %s)' % (('None' if b.pause is None else '(Some %s)' % coq_f(b.pause)),
                                     ('None' if o2.pause is None else '(Some %s)' % coq_f(o2.pause)))
                v = U.coq_eval('c14bl', SPEC_IMPORT, 'same_delay_cases', [item])[0]
                bad = v != '='
            else:
                item = '(%s, %s, %s)' % (common.coq_bool('rgb' in modes[:k + 1]), common.coq_list([common.coq_z(z) for z in b.sent]),
                                         common.coq_list([common.coq_z(z) for z in o2.sent]))
                v = U.coq_eval('c14bl', SPEC_IMPORT, 'same_sent_cases', [item])[0]
                bad = (v[0] == '!') if kind == 'colour' else (v[1] == '!')
            if bad:
                return modes[k - 1], modes[k], o2
        return modes[-2], modes[-1], None

    got = U.coq_eval('c14snt', SPEC_IMPORT, 'same_sent_cases', sent_items, per_file=500)
    reported = 0
    for v, (m0, regs, ch, b, o) in sorted(zip(got, sent_meta), key=lambda t: len(t[1][2])):
        ctx.count()
        if v == '==' or reported >= 12:
            continue
        reported += 1
        what = 'colour' if v[0] == '!' else 'duration'
        f, t, o2 = blame(m0, regs, ch, b, what)
        ctx.counterexample('C14/%s-to-%s-changes-%s' % (f, t, what),
                           'registers %r in %s units: `set` transmits %r without a switch and %r after %s (first departing at `units %s` while in %s units)'
                           % (dict(zip(SETTINGS, regs)), m0, b.sent, o.sent, ' '.join('units ' + x for x in ch), t, f),
                           {'script': o.src, 'baseline_script': b.src, 'baseline': b.sent, 'switched': o.sent, 'chain': ch, 'mode': m0})
    got = U.coq_eval('c14dly', SPEC_IMPORT, 'same_delay_cases', delay_items, per_file=500)
    reported = 0
    for v, (m0, regs, ch, b, o) in sorted(zip(got, delay_meta), key=lambda t: len(t[1][2])):
        ctx.count()
        if v != '=' and reported < 12:
            reported += 1
            f, t, o2 = blame(m0, regs, ch, b, 'delay')
            ctx.counterexample('C14/%s-to-%s-changes-delay' % (f, t),
                               'time %r in %s units: the pending pause is %r s without a switch and %r s after %s'
                               % (regs[8], m0, b.pause, o.pause, ' '.join('units ' + x for x in ch)),
                               {'script': o.src, 'baseline_script': b.src, 'chain': ch, 'mode': m0})
    ctx.stage('transmission')

    # correspondence with the model
    if ctx.model_runnable:
        got = U.coq_eval('c14mod', MODEL_IMPORT, 'switch_cases', model_items, per_file=60)
        nbad = 0
        for g, (m0, regs, ch, o) in zip(got, model_meta):
            want = (''.join('%d,' % c for c in fcodes(o.steps[-1])) + '|C' + ''.join('%d,' % z for z in o.sent[:4]) + str(o.sent[4])
                    + '|' + ('N' if o.pause is None else str(float_code(o.pause))))
            if g != want:
                nbad += 1
                if nbad <= 3:
                    ctx.broken_tie('correspondence', 'switch chain vs model', {'mode': m0, 'registers': [repr(x) for x in regs], 'chain': ch,
                                                                               'implementation': want, 'model': g, 'script': o.src})
        ctx.extra['model_comparisons'] = len(model_items)
    ctx.stage('model')
    for (m0, regs, ch), o in list(zip(plans, results))[:2] + list(zip(plans, results))[400:402]:
        if o.ok:
            ctx.sample({'mode': m0, 'registers': [repr(x) for x in regs], 'chain': ch, 'after': [repr(x) for x in o.steps[-1]],
                        'transmitted': o.sent, 'pause': repr(o.pause)})
    ctx.extra['transitions_observed'] = len(frame_items)


def replay(ctx, payload):
    inp = payload.get('input', {})
    src = inp.get('script')
    if not src:
        print('replay: no script in the payload')
        return False
    w = U.World('wire')
    r = U.run_script(w, src)
    print('script:\n' + src)
    printed = [x for x in r.printed if not (isinstance(x, str) and x.strip() == '')]
    rows = [printed[i:i + 9] for i in range(0, len(printed), 9)]
    for row in rows:
        print('  settings: ' + ', '.join('%s=%r' % (n, v) for n, v in zip(SETTINGS, row)))
    print('  arrived: %r  pauses: %r  errors: %r' % (r.calls.get('L1'), r.pauses, r.errors))
    if 'setting' in inp and len(rows) >= 2:
        j = SETTINGS.index(inp['setting'])
        changed = rows[0][j] != rows[1][j]
        print('%s %s' % (inp['setting'], 'CHANGES (%r -> %r)' % (rows[0][j], rows[1][j]) if changed else 'is unchanged'))
        return not changed
    if 'baseline_script' in inp:
        b = U.run_script(w, inp['baseline_script'])
        print('  without the switch: %r  pauses: %r' % (b.calls.get('L1'), b.pauses))
    return not r.errors
