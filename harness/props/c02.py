"""C02 -- expressions follow the documented precedence, associativity and arithmetic.

1. Expression trees of depth <= 4 (minimal and redundant parentheses, optional spaces round operators)
   in every value position of the grammar (register, assignment, argument, if / while condition, loop count
   and bounds, print, printf value): the compiler is compared with the tree-directed compiler model
   (correspondence A: grouping), the run with the reference semantics (oracle: value).
2. Built-ins on argument sweeps (integers, halves, negatives, large) against the reference semantics.
3. [random a b]: the library call is replaced by one that returns its lowest / highest possible result;
   the script must then print a and b (documented: a <= n <= b and every such n can occur)."""
import common
import lang
import langcheck
import gen_prog

MODEL_TARGETS = ['Run/SemShow.vo', 'Run/VmShow.vo']
EXTRA_TARGETS = MODEL_TARGETS
OPTS = {'p_expr': 0.75, 'expr_depth': 4, 'p_routine': 0.15, 'kinds': False,
        'weights': {'print': 30, 'assign': 20, 'reg': 10, 'if': 10, 'repeat': 8, 'call': 8, 'printf': 4, 'set': 3,
                    'power': 1, 'time': 1, 'units': 1, 'get': 1, 'wait': 1, 'break': 2, 'return': 4}}


def builtin_cases(rng, n):
    cases = []
    vals = [0, 1, 2, 7, 359, 360, 361, 720, 65535, 0.5, 1.5, 2.5, 3.5, 2.25, 99.5, 0.125, 1e3, 12.75, 359.5]
    fns = ['round', 'floor', 'ceil', 'trunc', 'cycle', 'sqrt']
    for k in range(n):
        items = []
        for _ in range(12):
            f = rng.choice(fns)
            v = rng.choice(vals) if rng.random() < 0.7 else rng.randint(0, 2000) / rng.choice([1, 2, 4, 8])
            neg = rng.random() < 0.4 and f != 'sqrt'
            txt = ('-' if neg else '') + gen_prog.txt_num(v)
            coq = ('(RNeg %s)' if neg else '(RLit %s)') % gen_prog.coq_lit(v)
            if rng.random() < 0.3:
                # nested call as the operand of an expression
                items.append(('print {[%s %s] + 1}' % (f, txt),
                              '(SPrint (Some (RExpr (EBin BAdd (ECall %s [%s]) (ELit (LInt 1))))))' % (common.coq_str(f), coq)))
            else:
                items.append(('print [%s %s]' % (f, txt), '(SPrint (Some (RCall %s [%s])))' % (common.coq_str(f), coq)))
        cases.append(langcheck.Case(items, lang.SMALL_WORLD, 'builtin-%d' % k))
    return cases


def deep_cases(rng):
    """Many operands pending at once: a right-nested sum of depth 70-100, a function used as an operand of its own
    return expression recursing 70-90 deep, a long left-nested chain (few pending operands) as control."""
    cases = []
    for _ in range(2):
        depth = rng.randint(70, 100)
        txt, coq = '1', '(ELit (LInt 1))'
        for k in range(depth):
            v = rng.randint(1, 9)
            txt = '%d + (%s)' % (v, txt)
            coq = '(EBin BAdd (ELit (LInt %d)) (EParen %s))' % (v, coq)
        items = [('assign deep {%s}' % txt, '(SAssign "deep" (RExpr %s))' % coq), ('print deep', '(SPrint (Some (RVar "deep")))'),
                 ('hue {deep * 2}', '(SReg R_HUE (RExpr (EBin BMul (EVar "deep") (ELit (LInt 2)))))'), ('print hue', '(SPrint (Some (RReg R_HUE)))')]
        cases.append(langcheck.Case(items, lang.SMALL_WORLD, 'deep-nesting-%d' % depth))
    n = rng.randint(70, 90)
    sum_to = ('define sum_to with n begin\nif {n <= 1} begin\nreturn 1\nend\nreturn {n + [sum_to {n - 1}]}\nend',
              '(SDefineRoutine "sum_to" ["n"] (SBlock [(SIf (RExpr (EBin BLe (EVar "n") (ELit (LInt 1)))) (SBlock [SReturn (Some (RLit (LInt 1)))]) None); '
              '(SReturn (Some (RExpr (EBin BAdd (EVar "n") (ECall "sum_to" [RExpr (EBin BSub (EVar "n") (ELit (LInt 1)))])))))]))')
    items = [sum_to, ('print [sum_to %d]' % n, '(SPrint (Some (RCall "sum_to" [RLit (LInt %d)])))' % n),
             ('print {1000 + [sum_to %d] * 2}' % n, '(SPrint (Some (RExpr (EBin BAdd (ELit (LInt 1000)) (EBin BMul (ECall "sum_to" [RLit (LInt %d)]) (ELit (LInt 2)))))))' % n)]
    cases.append(langcheck.Case(items, lang.SMALL_WORLD, 'deep-recursion-%d' % n))
    txt, coq = '1', '(ELit (LInt 1))'
    for k in range(120):
        txt = '%s + %d' % (txt, k % 7)
        coq = '(EBin BAdd %s (ELit (LInt %d)))' % (coq, k % 7)
    cases.append(langcheck.Case([('print {%s}' % txt, '(SPrint (Some (RExpr %s)))' % coq)], lang.SMALL_WORLD, 'long-chain'))
    return cases


def random_bounds(ctx, n):
    """[random a b] with the library's choice forced to its extremes."""
    from bardolph.runtime import bardolph_math

    class Forced:
        def __init__(self, high):
            self.high = high
            self.calls = []

        def randint(self, a, b):
            self.calls.append(('randint', a, b))
            return b if self.high else a

        def randrange(self, a, b=None):
            self.calls.append(('randrange', a, b))
            if b is None:
                a, b = 0, a
            return b - 1 if self.high else a

        def seed(self, *a):
            pass

    saved = bardolph_math.py_random
    rng = ctx.rng
    try:
        for k in range(n):
            a = rng.randint(-20, 50)
            b = a + rng.choice([0, 1, 2, 5, 100])
            ta = '{%d}' % a if a < 0 or rng.random() < 0.3 else str(a)
            tb = '{%d}' % b if b < 0 or rng.random() < 0.3 else str(b)
            script = 'print [random %s %s]\n' % (ta, tb)
            got = []
            for high in (False, True):
                bardolph_math.py_random = Forced(high)
                prog, errs = lang.compile_script(script)
                if prog is None:
                    ctx.counterexample('C02/random-rejected', 'script %r is rejected: %s' % (script, errs), {'script': script})
                    break
                st, evs = lang.run_program_impl(prog, lang.SMALL_WORLD)
                got.append((st, evs))
            else:
                ctx.count()
                lo = [e for e in got[0][1] if e.startswith('O|')]
                hi = [e for e in got[1][1] if e.startswith('O|')]
                if lo != ['O|i%d' % a]:
                    ctx.counterexample('C02/random-lower-bound', '[random %d %d] with the library choosing its lowest result gives %s' % (a, b, lo),
                                       {'script': script, 'library_choice': 'lowest', 'expected': a, 'actual': lo})
                if hi != ['O|i%d' % b]:
                    ctx.counterexample('C02/random-never-returns-upper-bound',
                                       '[random %d %d] with the library choosing its highest possible result gives %s: %d can never occur' % (a, b, hi, b),
                                       {'script': script, 'library_choice': 'highest', 'expected': b, 'actual': hi})
                ctx.nontriv('random %d %d' % (a, b))
    finally:
        bardolph_math.py_random = saved


def run(ctx):
    ctx.rule = ('expression trees of depth <= 4 over literals, variables, macros, registers and calls with minimal or redundant '
                'parentheses, placed in every value position; built-in argument sweeps; forced-extreme random; non-trivial = the script '
                'contains at least one binary operator and prints or transmits at least two values; distinct = distinct script text')
    ctx.assumptions += ['values restricted to ints and short dyadic floats so that CPython and PrimFloat agree bit for bit; libm functions (sin ... atan) and float ** are not modelled',
                        'random: the Mersenne Twister is replaced by a stub returning the extreme results of the library call made']
    n = 5000 if ctx.thorough() else 330
    corpus = langcheck.load_corpus('C02')
    cases, stats = langcheck.generate_cases(ctx.rng, n, OPTS, size=(3, 9), tag='c02')
    cases += builtin_cases(ctx.rng, 200 if ctx.thorough() else 25)
    cases += deep_cases(ctx.rng)
    summary = langcheck.compare_all(ctx, 'C02', corpus + cases)
    ctx.extra['summary'] = summary
    ctx.extra['generator_distribution'] = stats
    ctx.nontrivial = {t for t in ctx.nontrivial if isinstance(t, str) and any(op in t for op in (' + ', ' * ', ' - ', '/', '<', '>', ' and ', ' or ', '^', '%', '['))}
    random_bounds(ctx, 400 if ctx.thorough() else 60)
    # every pair of operators chained without parentheses, unary minus, braces inside expressions: valid, so accepted
    from props import c06
    import lang
    for t in c06.valid_expr_texts():
        ctx.count()
        try:
            with lang.time_limit(20):
                p, e = lang.compile_script(t)
        except lang.CompilerHangs:
            ctx.counterexample('C02/valid-expression-compile-does-not-end', 'compiling the valid text %r does not end' % t, {'text': t})
            continue
        except Exception as ex:
            ctx.counterexample('C02/valid-expression-compiler-raises', 'compiling the valid text %r raises %s' % (t, type(ex).__name__), {'text': t})
            continue
        if p is None:
            ctx.counterexample('C02/valid-expression-rejected', 'the valid text %r is rejected: %s' % (t[:160], e.strip()[:100]), {'text': t})
    if summary['cases'] and summary['rejected'] > 0.05 * summary['cases']:
        ctx.broken_tie('correspondence', 'generator: well-formed scripts rejected by the compiler',
                       {'rejected': summary['rejected'], 'of': summary['cases'], 'samples': ctx.extra.get('rejected_samples')})


def replay(ctx, payload):
    import props.c01 as c01
    if 'ast' in payload.get('input', {}):
        return c01.replay(ctx, payload)
    print('replay of forced-random cases: re-run ./check C02')
    return False
