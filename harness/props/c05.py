"""C05 -- on every path, compiled control transfers stay in the script and frames balance.

Translation validation: the verified checker Lang.Wf.wf_image is evaluated inside Coq on the
image that the REAL Parser + Loader produce for every generated script, which decides the
property for that script on all its paths (soundness theorem C05_wf_image_sound) without
trusting the compiler model.  The generator also places routine definitions inside the
branches of `if` and the bodies of loops (relocation).  The usual pipeline comparison
(compile / load / run, oracle = reference semantics) runs on the same scripts."""
import common
import lang
import langcheck

MODEL_TARGETS = ['Run/SemShow.vo', 'Run/VmShow.vo', 'Run/WfShow.vo']
EXTRA_TARGETS = MODEL_TARGETS
OPTS = {'nested_defs': 10, 'p_routine': 0.2, 'kinds': False,
        'weights': {'if': 16, 'repeat': 16, 'break': 8, 'return': 8, 'call': 14, 'print': 10, 'assign': 8, 'set': 4,
                    'power': 1, 'time': 1, 'units': 1, 'get': 1, 'wait': 1, 'printf': 1, 'reg': 4}}


def run(ctx):
    ctx.rule = ('control-flow-heavy generated scripts (if/else, every loop form, break, routines defined at top level and inside '
                'branches and loop bodies, returns at any depth, nested calls); the checker decides each real image on all its '
                'paths; non-trivial = image with at least one jump and at least 12 instructions; distinct = distinct image')
    n = 6000 if ctx.thorough() else 300
    corpus = langcheck.load_corpus('C05')
    cases, stats = langcheck.generate_cases(ctx.rng, n, OPTS, size=(2, 7), tag='c05')
    cases = corpus + cases
    # translation validation on the real images
    progs = []
    for c in cases:
        try:
            prog, errs = lang.compile_script(c.text)
        except Exception as ex:
            ctx.counterexample('C05/compiler-raises', 'the compiler raises %s' % type(ex).__name__, c.replay())
            prog = None
        progs.append(prog)
    idx = [i for i, p in enumerate(progs) if p is not None]
    bodies = ['Eval vm_compute in (wf_case %s).\nEval vm_compute in (wf_bad %s).\n' % (lang.coq_program(progs[i]), lang.coq_program(progs[i])) for i in idx]
    packed = [''.join(bodies[k:k + 30]) for k in range(0, len(bodies), 30)]
    res = common.run_cases('wf', 'From Bardolph Require Import Run.WfShow Lang.Instr Gen.Codes.', packed) if ctx.model_runnable else []
    out = []
    for ok, strs, log in res:
        if not ok:
            ctx.broken_tie('correspondence', 'checker evaluation failed', log[-800:])
            return
        out += strs
    checked = 0
    for k, i in enumerate(idx):
        if 2 * k + 1 >= len(out):
            break
        checked += 1
        ctx.count()
        prog = progs[i]
        if len(prog) >= 12 and any(ins.op_code.name == 'JUMP' for ins in prog):
            ctx.nontriv(lang.show_program(prog))
        if out[2 * k] != 'T':
            from bardolph.vm.loader import Loader
            ld = Loader()
            ld.load(prog)
            listing = ['%d %s' % (n_, ins) for n_, ins in enumerate(ld.get_code())]
            rep = cases[i].replay()
            rep['bad_positions'] = out[2 * k + 1]
            rep['image'] = listing[:200]
            ctx.counterexample('C05/image-not-well-formed',
                               'the loaded image of a compilable script fails the control-flow check at positions %s: %s'
                               % (out[2 * k + 1], cases[i].text.strip().replace('\n', ' ; ')[:200]), rep)
    ctx.extra['images_checked'] = checked
    ctx.stage('translation-validation')
    summary = langcheck.compare_all(ctx, 'C05', cases)
    ctx.extra['summary'] = summary
    ctx.extra['generator_distribution'] = stats
    if summary['cases'] and summary['rejected'] > 0.05 * summary['cases']:
        ctx.broken_tie('correspondence', 'generator: well-formed scripts rejected by the compiler',
                       {'rejected': summary['rejected'], 'of': summary['cases'], 'samples': ctx.extra.get('rejected_samples')})


def replay(ctx, payload):
    import props.c01 as c01
    return c01.replay(ctx, payload)
