"""C17 -- compiles and runs are independent of what was compiled or run before.

(a) compile histories: one Parser object (and one ScriptJob) is given a random sequence of texts -- valid
    scripts, scripts cut off inside a loop / routine / matrix block, mutated scripts, token soup -- and the
    result of every request (accepted + instruction list, or the error text) is compared with the result
    of a fresh Parser on the same text.  A sample is also evaluated with the model's compile_on
    from a deliberately dirty object state (Lang/History.v), which HistoryProofs proves equal to parse_text.
(b) run histories: one ScriptJob is executed repeatedly -- complete runs interleaved with runs stopped after
    k instructions (inside routines, loops, matrix blocks, with values waiting to be printed, in raw unit
    mode ...) and runs that abort -- each complete run must give the trace of the first; the instruction
    list must be unchanged afterwards.
(c) job after job: job A (complete / stopped / aborted), then job B: B's trace must be the trace B gives
    on its own."""
import copy
import re
import common
import lang
import gen_prog
from common import coq_str
from props import c06

MODEL_TARGETS = ['Run/HistoryShow.vo']
EXTRA_TARGETS = MODEL_TARGETS

BLOCK_OPENERS = ['set "light_1" begin\n stage row 0 column 0\n', 'repeat 3 begin\n hue 5\n', 'define f with a b begin\n hue a\n',
                 'repeat with i from 1 to 3 begin\n repeat 2 begin\n', 'define g begin\n repeat 2 begin\n', 'if {1 < 2} begin\n',
                 'set "light_1" begin\n repeat 2 begin\n', 'repeat all as x begin\n set x\n', 'define m 5\nassign x 3\nunits raw\n',
                 'define f begin print 1 end\ndefine g with z begin\n',
                 # rejected in a header, between a keyword and its block, inside brackets / braces, after a complete definition
                 'define f with a a begin\n hue 1\n end\n', 'define f with a b\n', 'define f with hue begin\n', 'define 5 begin\n', 'repeat with i from 1 begin\n hue i\n end\n',
                 'repeat in "a" and begin\n', 'repeat all as begin\n', 'set "light_1" zone begin\n', 'if {1 < } begin\n', 'define f with a begin return {a + } end\n',
                 'define f with a begin hue a end\nhue [f 1 2]\n', 'define f with a begin hue a end\n[f\n', 'assign x {(1 + 2}\n', 'repeat 2 begin\n break break\n define\n',
                 'set "light_1" begin\n stage row 0 column\n', 'set "light_1" begin\n define q 5\n', 'units\n', 'time at 8:00 or\n', 'define m 5 define m 6\n',
                 'repeat begin\n if {1} begin\n break\n', 'define f begin\n repeat 2 begin\n return\n', 'printf "{} {}" 1\n', 'get\n', 'wait wait wait on\n']


def truncated(rng, text):
    toks = re.split(r'(\s+)', text)
    words = [i for i, t in enumerate(toks) if t.strip()]
    if len(words) < 2:
        return text
    return ''.join(toks[:rng.choice(words[1:])])


def compile_key(parser, text):
    try:
        with lang.time_limit(10):
            ok = parser.parse(text)
    except Exception as ex:
        return 'X#' + type(ex).__name__ + ': ' + str(ex)[:80]
    if ok:
        return 'A#' + lang.show_program(parser.get_program()) + ('#E:' + parser.get_errors() if parser.get_errors().strip() else '')
    return 'R#' + parser.get_errors()


def gen_text(rng):
    r = rng.random()
    g = gen_prog.Gen(rng, gen_prog.World.generate(rng), {'nested_defs': 3})
    t = g.gen_script(rng.randint(1, 5))[0]
    if r < 0.1:
        # a text that breaks a rule (or a short one whose fate hangs on the context: break, return, end, a bare name): it is
        # rejected -- or accepted -- whatever the compiler object has seen before (an opened loop, routine, block ...)
        import rulebreakers
        frags = [f for fl in rulebreakers.FRAGMENTS.values() for f in fl] + ['end', 'break', 'return 5', 'stage row 0', 'hue a', 'hue i', 'print x', 'f 1', 'set x']
        return 'rule-breaker', rng.choice(frags) + '\n'
    if r < 0.35:
        return 'valid', t
    if r < 0.5:
        return 'truncated', truncated(rng, t)
    if r < 0.7:
        return 'open-block', (t + '\n' if rng.random() < 0.25 else '') + rng.choice(BLOCK_OPENERS) + (truncated(rng, t) if rng.random() < 0.5 else '')
    if r < 0.85:
        return 'mutation', c06.mutate(rng, t)
    return 'soup', c06.prefixed_soup(rng)


def compile_histories(ctx, n_hist):
    from bardolph.parser.parse import Parser
    from bardolph.controller.script_job import ScriptJob
    rng = ctx.rng
    dist = {}
    sample_for_model = []
    for h in range(n_hist):
        use_job = rng.random() < 0.3
        job = ScriptJob() if use_job else None
        parser = job._parser if use_job else Parser()
        hist = []
        for step in range(rng.randint(2, 9)):
            kind, t = gen_text(rng)
            if use_job:
                try:
                    with lang.time_limit(10):
                        job.load_string(t)
                except Exception:
                    pass
                got = ('A#' + lang.show_program(job.program)) if job.program is not None else 'R#' + job.compile_errors
                fresh = compile_key(Parser(), t)
                if fresh.startswith('X#'):
                    hist.append((kind, t))
                    continue
                fresh = fresh.split('#E:')[0]
            else:
                got = compile_key(parser, t)
                fresh = compile_key(Parser(), t)
            ctx.count()
            prev = hist[-1][0] if hist else 'first'
            dist[prev + '>' + kind] = dist.get(prev + '>' + kind, 0) + 1
            if hist:
                ctx.nontriv((tuple(x[1] for x in hist), t))
            if got != fresh:
                ctx.counterexample('C17/compile-depends-on-history-after-' + prev,
                                   'after compiling %d earlier text(s) (last: %s) the same compiler object gives %r for a text on which a fresh one gives %r'
                                   % (len(hist), prev, got[:160], fresh[:160]),
                                   {'history': [x[1] for x in hist], 'text': t, 'via_job': use_job})
            elif all(ord(c) < 128 for c in t) and len(sample_for_model) < 400 and not fresh.startswith('X#'):
                sample_for_model.append((t, fresh))
            hist.append((kind, t))
    ctx.extra['compile_transitions'] = dist
    return sample_for_model


def model_compile(ctx, sample):
    bodies = ['Eval vm_compute in (history_case %s).\n' % coq_str(t) for t, _ in sample]
    packed = [''.join(bodies[k:k + 40]) for k in range(0, len(bodies), 40)]
    res = common.run_cases('c17', 'From Bardolph Require Import Run.HistoryShow.', packed)
    out = []
    for ok, strs, log in res:
        if not ok:
            ctx.broken_tie('correspondence', 'History model evaluation failed', log[-800:])
            return
        out += strs
    agree = unm = 0
    bad = 0
    for (t, fresh), m in zip(sample, out):
        ctx.count()
        if m.startswith('U#') or m.startswith('F#'):
            unm += 1
            continue
        key = fresh if fresh.startswith('A#') else 'R#' + (re.match(r'Line (\d+):', fresh[2:]).group(1) if re.match(r'Line (\d+):', fresh[2:]) else '?')
        if m != key:
            bad += 1
            if bad <= 3:
                ctx.broken_tie('correspondence', 'compile_on (dirty object) vs Parser.parse', {'text': t[:300], 'implementation': key[:200], 'model': m[:200]})
        else:
            agree += 1
    ctx.extra['model_compile_agree'] = agree
    ctx.extra['model_compile_unmodelled'] = unm


class JobRunner:
    """Runs ScriptJobs on one installed world; the devices are put back into their initial state before each run."""

    def __init__(self, world):
        from bardolph.lib import injection
        from bardolph.controller import i_controller
        self.rec = lang.Recorder()
        self.orig = lang.install_world(world, self.rec)
        self.api = injection.provide(i_controller.LightApi)
        self.saved = [self._state(l) for l in self.api.get_lights()]
        self.ctl = {}
        self.direct = None      # set to a () -> bool: execute the next run without prepare()

    @staticmethod
    def _state(l):
        return {k: copy.deepcopy(v) for k, v in l.__dict__.items() if k in ('_color', '_power', '_set_color', '_zone_colors', '_matrix')}

    def close(self):
        lang.uninstall(self.orig)

    def new_job(self, text):
        from bardolph.controller.script_job import ScriptJob
        from bardolph.vm.vm_codes import OpCode
        job = ScriptJob()
        with lang.time_limit(10):
            job.load_string(text)
        m = job._machine
        ctl = {'steps': 0, 'stop_at': None, 'exc': None, 'max': 6000, 'fuel': False}
        self.ctl[id(job)] = ctl

        def wrap(fn):
            def inner():
                ctl['steps'] += 1
                if ctl['steps'] > ctl['max']:
                    ctl['fuel'] = True
                    job.request_stop()
                    return None
                if ctl['stop_at'] is not None and ctl['steps'] == ctl['stop_at']:
                    job.request_stop()
                try:
                    return fn()
                except Exception as ex:
                    ctl['exc'] = ex
                    raise
            return inner
        for op in list(m._fn_table):
            if op is not OpCode.STOP:
                m._fn_table[op] = wrap(m._fn_table[op])
        return job

    def run(self, job, stop_at=None):
        """-> (status, events, steps)"""
        for l, st in zip(self.api.get_lights(), self.saved):
            l.__dict__.update(copy.deepcopy(st))
        ctl = self.ctl[id(job)]
        ctl.update(steps=0, stop_at=stop_at, exc=None, fuel=False)
        del self.rec.events[:]
        status = 'FIN'
        try:
            # the job runner prepares a job before it starts it; a job executed directly (ScriptJob.execute) runs the same: a
            # stop request that was used up by an earlier run does not reach into this one either way
            if self.direct is None or not self.direct():
                job.prepare()
            job.execute()
        except Exception as ex:
            ctl['exc'] = ex
        if ctl['fuel']:
            status = 'FUEL'
        elif ctl['exc'] is not None:
            status = 'ABORT:' + type(ctl['exc']).__name__
        elif stop_at is not None and ctl['steps'] >= stop_at:
            status = 'STOPPED'
        return status, list(self.rec.events), ctl['steps']


def run_histories(ctx, n_jobs):
    rng = ctx.rng
    dist = {}
    for j in range(n_jobs):
        world = gen_prog.World.generate(rng)
        opts = {'p_routine': 0.5, 'nested_defs': 2, 'p_scenario': 0.15}
        g = gen_prog.Gen(rng, world, opts)
        text = g.gen_script(rng.randint(2, 7))[0]
        g2 = gen_prog.Gen(rng, world, opts)
        text_b = g2.gen_script(rng.randint(1, 5))[0]
        if rng.random() < 0.5:
            text = rng.choice(['units raw\n', 'print 7 print 8\n', 'assign zz 5\n', 'hue 123 duration 4 time 2\n', 'define kk 9\n', '',
                               'define kk 9\nprintf "{kk} {} " kk\n', 'define kk "light_1"\nassign zz kk\nprintf "{zz} {kk} " \n',
                               'assign zz 5\nprintf "{zz} {} {hue} " zz\nhue 77\n', 'define k1 1 define k2 {k1 + 1}\nprint k2\n']) + text
        if rng.random() < 0.25:
            # a run that aborts on a run-time error while an output statement has values waiting
            text = text + rng.choice(['\nassign zz0 0\nprintf "{} {}\\n" 7 {100 / zz0}\nprint 5\n', '\nprint 11 printf "{} {} {}" 1 2 {1 % 0}\n',
                                      '\nassign zz1 "a"\nprintln {zz1 * zz1}\n'])
        r = JobRunner(world)
        if j % 3 == 1:
            r.direct = lambda: rng.random() < 0.6
        try:
            job = r.new_job(text)
            if job.program is None:
                continue
            before = lang.show_program(job.program)
            st1, t1, n1 = r.run(job)
            if st1 == 'FUEL':
                continue
            kinds = []
            for rep in range(rng.randint(1, 4)):
                mode = rng.choice(['stop', 'stop', 'complete'])
                if mode == 'stop' and n1 > 1:
                    k = rng.randint(1, n1)
                    st, t, n = r.run(job, stop_at=k)
                    kinds.append('stopped@%d/%d' % (k, n1))
                    # device commands and delays of the stopped run are a prefix of those of the first run
                    # (pending output is flushed differently when a run is cut short, which is not a difference of the run)
                    dev = lambda evs: [e for e in evs if e[:2] in ('C|', 'P|', 'AC', 'AP', 'Z|', 'M|', 'G|', 'W|', 'U|')]
                    pre = dev(t)
                    if pre != dev(t1)[:len(pre)] and st == 'STOPPED':
                        ctx.counterexample('C17/stopped-rerun-differs', 'a re-run of the same job, stopped after %d instructions, already differs from the first run' % k,
                                           {'text': text, 'world': world, 'first': t1[:40], 'rerun': t[:40]})
                st2, t2, n2 = r.run(job)
                ctx.count()
                ctx.nontriv((text, tuple(kinds), rep))
                if (st2, t2) != (st1, t1):
                    d = next((i for i, (a, b) in enumerate(zip(t1, t2)) if a != b), min(len(t1), len(t2)))
                    ctx.counterexample('C17/rerun-differs-after-' + (kinds[-1].split('@')[0] if kinds else 'complete'),
                                       'run %d of the same job (earlier: %s) differs from the first complete run at event %d: %r vs %r; status %s vs %s'
                                       % (rep + 2, kinds or ['complete'], d, t1[d:d + 2], t2[d:d + 2], st1, st2),
                                       {'text': text, 'world': world, 'history': kinds, 'first': t1[:60], 'later': t2[:60]})
                    break
                kinds.append('complete')
            dist[st1.split(':')[0]] = dist.get(st1.split(':')[0], 0) + 1
            after = lang.show_program(job.program)
            if after != before:
                ctx.counterexample('C17/execution-alters-program', 'the instruction list of the job differs after its executions', {'text': text, 'before': before[:400], 'after': after[:400]})
            # (c) a second job after this one, also on the same ScriptJob object by loading a new text
            job_b_alone = r.new_job(text_b)
            if job_b_alone.program is None:
                continue
            sb, tb, nb = r.run(job_b_alone)
            if sb == 'FUEL':
                continue
            how = rng.choice(['complete', 'stop', 'stop'])
            if how == 'stop' and n1 > 1:
                r.run(job, stop_at=rng.randint(1, n1))
            else:
                r.run(job)
            job_b = r.new_job(text_b)
            sb2, tb2, _ = r.run(job_b)
            ctx.count()
            if (sb2, tb2) != (sb, tb):
                ctx.counterexample('C17/job-affected-by-previous-job', 'job B run after job A (%s) differs from B on its own: %r vs %r' % (how, tb2[:6], tb[:6]),
                                   {'world': world, 'text_a': text, 'text_b': text_b, 'alone': tb[:60], 'after_a': tb2[:60]})
            # same ScriptJob object loaded with B after A ran
            job.load_string(text_b)
            r.ctl[id(job)]['max'] = 6000
            sb3, tb3, _ = r.run(job)
            ctx.count()
            if (sb3, tb3) != (sb, tb):
                ctx.counterexample('C17/reloaded-job-affected-by-previous-script', 'a ScriptJob that ran script A and was then loaded with script B runs B differently from a fresh job: %r vs %r' % (tb3[:6], tb[:6]),
                                   {'world': world, 'text_a': text, 'text_b': text_b, 'alone': tb[:60], 'reloaded': tb3[:60]})
        finally:
            r.close()
    ctx.extra['first_run_status'] = dist


def run(ctx):
    lang.ensure_env()
    ctx.rule = ('compile histories of 2-9 texts (valid / truncated / opened-block / mutated / soup) on one Parser or ScriptJob; run histories of 2-5 '
                'executions (complete, stopped after k instructions, aborted) of one ScriptJob, then a second job; non-trivial = the compared '
                'request has at least one predecessor; distinct = distinct (history, request)')
    ctx.assumptions += ['the devices are put back into their initial state before every run, since `get` reads them',
                        'stopping a run is modelled and exercised as Machine.stop() taking effect between two instructions']
    sample = compile_histories(ctx, 4000 if ctx.thorough() else 70)
    ctx.stage('compile-histories')
    if ctx.model_runnable:
        model_compile(ctx, sample if ctx.thorough() else sample[:160])
    ctx.stage('model')
    run_histories(ctx, 3000 if ctx.thorough() else 60)
    ctx.stage('run-histories')


def replay(ctx, payload):
    from bardolph.parser.parse import Parser
    inp = payload['input']
    if 'history' in inp and 'text' in inp and isinstance(inp['history'], list) and inp['history'] and '\n' in ''.join(inp['history']) or 'via_job' in inp:
        p = Parser()
        for t in inp['history']:
            compile_key(p, t)
        a, b = compile_key(p, inp['text']), compile_key(Parser(), inp['text'])
        print('same object:', a[:200])
        print('fresh      :', b[:200])
        return a == b
    print('replay of run histories: re-run ./check C17 with the recorded seed')
    return True
