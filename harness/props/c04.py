"""C04 -- every repeat form runs the documented number of times with the documented values.

Same pipeline comparison as C01 with a generator biased to loops: counts 0, 1, n; descending
ranges; interpolating and cycle forms; nested light loops with break; raw units; populations
from 0 lights up.  Oracle: the reference semantics (whose loop laws are the theorems of C04)."""
import langcheck

MODEL_TARGETS = ['Run/SemShow.vo', 'Run/VmShow.vo']
EXTRA_TARGETS = MODEL_TARGETS
OPTS = {'p_routine': 0.12, 'kinds': False, 'nested_defs': 3,
        'weights': {'repeat': 45, 'break': 10, 'print': 22, 'assign': 8, 'if': 10, 'set': 8, 'units': 4, 'reg': 4,
                    'power': 1, 'time': 1, 'get': 1, 'wait': 1, 'printf': 2, 'call': 4, 'return': 3}}


def run(ctx):
    ctx.rule = ('loop-heavy generated scripts (every repeat form, counts 0..5, ranges in both directions, cycle with and without '
                'start, light loops over all / groups / locations / `in` lists with `and`, break at any position, nesting in loops '
                'and routines); non-trivial = at least one repeat statement and at least two observable events; distinct = distinct text')
    n = 5000 if ctx.thorough() else 380
    corpus = langcheck.load_corpus('C04')
    cases, stats = langcheck.generate_cases(ctx.rng, n, OPTS, size=(2, 7), tag='c04')
    summary = langcheck.compare_all(ctx, 'C04', corpus + cases)
    ctx.extra['summary'] = summary
    ctx.extra['generator_distribution'] = stats
    ctx.nontrivial = {t for t in ctx.nontrivial if isinstance(t, str) and 'repeat' in t}
    if summary['cases'] and summary['rejected'] > 0.05 * summary['cases']:
        ctx.broken_tie('correspondence', 'generator: well-formed scripts rejected by the compiler',
                       {'rejected': summary['rejected'], 'of': summary['cases'], 'samples': ctx.extra.get('rejected_samples')})


def replay(ctx, payload):
    import props.c01 as c01
    return c01.replay(ctx, payload)
